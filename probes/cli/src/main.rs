//! C20 carrier for the real entry point: a no-libc program started through tiny-std's own `_start`
//! hands its command line to `tiny_std::unix::cli::parse_cli_args::<Entry>()` (program name popped,
//! the rest parsed; on failure the error is printed to stderr and the process exits 1).
//! On success the parsed value is written to stdout, one line per field:
//!   o<i>[ <hex of each value>...]      (a set flag is one empty value, written `e`)
//!   p<i> <hex> | p<i> none
//! The struct is the one the harness parses in-process (`harness/c20/src/check/entry_struct.rs`).
#![no_std]
#![no_main]
extern crate alloc;

use alloc::format;
use alloc::string::String;
use alloc::vec::Vec;
use tiny_cli::ArgParse;
use tiny_std::UnixStr;

include!("../../../harness/c20/src/check/entry_struct.rs");

fn hex(out: &mut String, b: &[u8]) {
    if b.is_empty() {
        out.push('e');
    }
    for c in b {
        out.push_str(&format!("{c:02x}"));
    }
}

fn opt_line(out: &mut String, i: usize, vals: &[&[u8]]) {
    out.push_str(&format!("o{i}"));
    for v in vals {
        out.push(' ');
        hex(out, v);
    }
    out.push('\n');
}

fn pos_line(out: &mut String, i: usize, v: Option<&[u8]>) {
    out.push_str(&format!("p{i} "));
    match v {
        Some(v) => hex(out, v),
        None => out.push_str("none"),
    }
    out.push('\n');
}

#[no_mangle]
pub fn main() -> i32 {
    let v: Entry = tiny_std::unix::cli::parse_cli_args::<Entry>();
    let mut out = String::new();
    let req = format!("{}", v.req);
    opt_line(&mut out, 0, &[req.as_bytes()]);
    match &v.opt {
        Some(s) => opt_line(&mut out, 1, &[s.as_bytes()]),
        None => opt_line(&mut out, 1, &[]),
    }
    if v.f {
        opt_line(&mut out, 2, &[b""]);
    } else {
        opt_line(&mut out, 2, &[]);
    }
    let many: Vec<&[u8]> = v.many.iter().map(|u| { let s = u.as_slice(); &s[..s.len().saturating_sub(1)] }).collect();
    opt_line(&mut out, 3, &many);
    pos_line(&mut out, 0, Some(v.path.as_bytes()));
    let cnt = v.cnt.map(|c| format!("{c}"));
    pos_line(&mut out, 1, cnt.as_ref().map(|s| s.as_bytes()));
    let mut left = out.as_bytes();
    while !left.is_empty() {
        match rusl::unistd::write(rusl::platform::STDOUT, left) {
            Ok(n) if n > 0 => left = &left[n..],
            Ok(_) => return 91,
            Err(e) if e.code == Some(rusl::error::Errno::EINTR) => {}
            Err(_) => return 91,
        }
    }
    0
}
