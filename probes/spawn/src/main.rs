//! C13 carrier for the `start` feature: a no-libc program started through tiny-std's own entry
//! point spawns the helper given in argv[1] with argv[2..] as its arguments.
//! argv[0] selects the environment mode through its last character:
//!   ...i  leave the Command's environment untouched (= Environment::Inherit under `start`)
//!   ...p  provide exactly the entries "P1=one" and "P2=" (nothing inherited)
//! The probe exits with the low byte of the status `wait` returned (250 = spawn failed,
//! 251 = wait failed, 252 = bad usage).
#![no_std]
#![no_main]
extern crate alloc;

use alloc::vec::Vec;
use tiny_std::process::Command;
use tiny_std::{UnixStr, UnixString};

#[no_mangle]
pub fn main() -> i32 {
    let args: Vec<&'static UnixStr> = tiny_std::env::args_os().collect();
    if args.len() < 2 {
        return 252;
    }
    let mode = args[0].as_slice().iter().rev().nth(1).copied().unwrap_or(b'i');
    let Ok(mut cmd) = Command::new(args[1]) else { return 252 };
    for a in &args[2..] {
        cmd.arg(a);
    }
    if mode == b'p' {
        cmd.env(UnixString::try_from_str("P1=one").unwrap());
        cmd.env(UnixString::try_from_str("P2=").unwrap());
    }
    let Ok(mut child) = cmd.spawn() else { return 250 };
    match child.wait() {
        Ok(st) => (st >> 8) & 0xff,
        Err(_) => 251,
    }
}
