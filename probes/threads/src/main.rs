#![no_std]
#![no_main]
extern crate alloc;

use tiny_std::allocator::dlmalloc::Dlmalloc;
use tiny_std::sync::Mutex;

struct Counting(Mutex<Dlmalloc>);
unsafe impl Sync for Counting {}

unsafe impl core::alloc::GlobalAlloc for Counting {
    unsafe fn alloc(&self, l: core::alloc::Layout) -> *mut u8 {
        self.0.lock().malloc(l.size(), l.align())
    }
    unsafe fn dealloc(&self, p: *mut u8, _l: core::alloc::Layout) {
        self.0.lock().free(p);
    }
}

#[global_allocator]
static A: Counting = Counting(Mutex::new(Dlmalloc::new()));

#[no_mangle]
pub fn main() -> i32 {
    let h = tiny_std::thread::spawn(|| 7u64).unwrap();
    let v = h.join();
    tiny_std::println!("probe-threads skeleton {:?}", v);
    0
}
