//! probe-threads: no-libc executable driven over stdin/stdout by /verif/harness/c05 (properties C05, C06).
//!
//! It installs a COUNTING `#[global_allocator]` that wraps the repository's `Dlmalloc` under the repository's
//! `Mutex`: a fixed-capacity static live table (no allocation inside the allocator) flags double free / free of a
//! non-live pointer / dealloc with a layout different from alloc, and an append-only per-batch log records every
//! allocation of the batch with the thread ids (gettid) that allocated and freed it.
//!
//! All random choices arrive from the driver. Wire format: `u32 len | payload`, little endian (see `Spec::parse`
//! and `emit_report`; the driver's `wire.rs` is the mirror image).
#![no_std]
#![no_main]
extern crate alloc;

use core::alloc::{GlobalAlloc, Layout};
use core::cell::UnsafeCell;
use core::hint::black_box;
use core::sync::atomic::{AtomicU32, AtomicU64, AtomicUsize, Ordering::SeqCst};

use alloc::vec::Vec;
use rusl::platform::{STDIN, STDOUT};
use tiny_std::allocator::dlmalloc::Dlmalloc;
use tiny_std::sync::Mutex;
use tiny_std::thread::JoinHandle;

// ------------------------------------------------------------------------------------------------
// counting allocator
// ------------------------------------------------------------------------------------------------

const TABLE_CAP: usize = 8192; // power of two, open addressing; live blocks stay far below
const LOG_CAP: usize = 4096;

#[derive(Clone, Copy)]
struct Entry {
    ptr: usize, // 0 = empty
    size: usize,
    align: u32,
    state: u8, // 1 live, 2 freed (tombstone, remembered to tell a double free from a wild free)
    log_epoch: u32,
    log_idx: u32,
}

#[derive(Clone, Copy)]
struct LogRec {
    ptr: u64,
    size: u64,
    align: u32,
    alloc_tid: u32,
    free_tid: u32, // 0 = still live
    spec: u8,      // i+1 when allocated by the main thread inside the spawn call of spec i
    mismatch: u8,  // dealloc layout differed
    d_size: u64,   // layout passed to dealloc when it differed
    d_align: u32,
    damage_off: u32, // 1 + offset of the first byte written after the block was freed (0 = none)
    damage_n: u32,   // number of bytes that lost the poison value
}

const E0: Entry = Entry { ptr: 0, size: 0, align: 0, state: 0, log_epoch: 0, log_idx: 0 };
const L0: LogRec = LogRec { ptr: 0, size: 0, align: 0, alloc_tid: 0, free_tid: 0, spec: 0, mismatch: 0, d_size: 0, d_align: 0, damage_off: 0, damage_n: 0 };

#[derive(Clone, Copy)]
struct Quar {
    ptr: usize,
    size: usize,
    log_idx: u32,
}
const Q0: Quar = Quar { ptr: 0, size: 0, log_idx: u32::MAX };
const POISON: u8 = 0xDF;

struct Book {
    tables: [[Entry; TABLE_CAP]; 2],
    cur: usize,
    log: [LogRec; LOG_CAP],
    log_len: usize,
    epoch: u32,
    live_count: u64,
    live_bytes: u64,
    // flags (reset per batch)
    double_free: u32,
    nonlive_free: u32,
    layout_mismatch: u32,
    alloc_dup_live: u32,
    log_overflow: u32,
    table_overflow: u32,
    old_freed: u32, // blocks allocated before this batch and freed during it
    null_allocs: u32,
    // quarantine: blocks freed during a batch are poisoned and only handed back to Dlmalloc once every thread of
    // the batch is gone; a poison byte that changed in between is a write into freed memory
    quar: [Quar; LOG_CAP],
    quar_len: usize,
    quar_overflow: u32,
    uaf_writes: u32,
}

struct Shared {
    dl: Dlmalloc,
}

struct Counting {
    m: Mutex<Shared>,
    // only touched while `m` is held
    book: UnsafeCell<Book>,
}
unsafe impl Sync for Counting {}

static REC_SPEC: AtomicU32 = AtomicU32::new(0);
static MAIN_TID: AtomicU32 = AtomicU32::new(0);

#[inline]
fn gettid() -> u32 {
    unsafe { sc::syscall!(GETTID) as u32 }
}

#[inline]
fn slot_of(p: usize) -> usize {
    ((p >> 3).wrapping_mul(0x9E37_79B9_7F4A_7C15) >> 40) & (TABLE_CAP - 1)
}

impl Book {
    fn find(&self, p: usize) -> Option<usize> {
        let mut s = slot_of(p);
        for _ in 0..TABLE_CAP {
            let e = &self.tables[self.cur][s];
            if e.state == 0 {
                return None;
            }
            if e.ptr == p {
                return Some(s);
            }
            s = (s + 1) & (TABLE_CAP - 1);
        }
        None
    }
    fn on_alloc(&mut self, p: usize, l: Layout, tid: u32) {
        if p == 0 {
            self.null_allocs += 1;
            return;
        }
        let mut idx = u32::MAX;
        if self.log_len < LOG_CAP {
            let spec = if tid == MAIN_TID.load(SeqCst) { REC_SPEC.load(SeqCst) as u8 } else { 0 };
            self.log[self.log_len] = LogRec { ptr: p as u64, size: l.size() as u64, align: l.align() as u32, alloc_tid: tid, free_tid: 0, spec, mismatch: 0, d_size: 0, d_align: 0, damage_off: 0, damage_n: 0 };
            idx = self.log_len as u32;
            self.log_len += 1;
        } else {
            self.log_overflow += 1;
        }
        let new = Entry { ptr: p, size: l.size(), align: l.align() as u32, state: 1, log_epoch: self.epoch, log_idx: idx };
        // same pointer seen before in this batch (tombstone or - allocator defect - still live)?
        let cur = self.cur;
        if let Some(s) = self.find(p) {
            if self.tables[cur][s].state == 1 {
                self.alloc_dup_live += 1;
                return;
            }
            self.tables[cur][s] = new;
        } else if !Self::insert(&mut self.tables[cur], new) {
            self.table_overflow += 1;
            return;
        }
        self.live_count += 1;
        self.live_bytes += l.size() as u64;
    }
    fn insert(t: &mut [Entry; TABLE_CAP], e: Entry) -> bool {
        let mut s = slot_of(e.ptr);
        for _ in 0..TABLE_CAP {
            if t[s].state == 0 {
                t[s] = e;
                return true;
            }
            s = (s + 1) & (TABLE_CAP - 1);
        }
        false
    }
    /// 0 = invalid free (not forwarded), 1 = forward to the real allocator now, 2 = quarantined (poison `size` bytes)
    fn on_free(&mut self, p: usize, l: Layout, tid: u32) -> (u8, usize) {
        match self.find(p) {
            None => {
                self.nonlive_free += 1;
                (0, 0)
            }
            Some(s) => {
                let e = self.tables[self.cur][s];
                if e.state == 2 {
                    self.double_free += 1;
                    return (0, 0);
                }
                let mism = e.size != l.size() || e.align != l.align() as u32;
                if mism {
                    self.layout_mismatch += 1;
                }
                if e.log_epoch == self.epoch && e.log_idx != u32::MAX {
                    let r = &mut self.log[e.log_idx as usize];
                    r.free_tid = tid;
                    if mism {
                        r.mismatch = 1;
                        r.d_size = l.size() as u64;
                        r.d_align = l.align() as u32;
                    }
                } else if e.log_epoch != self.epoch {
                    self.old_freed += 1;
                }
                let cur = self.cur;
                self.tables[cur][s].state = 2;
                self.live_count -= 1;
                self.live_bytes -= e.size as u64;
                if QUARANTINE_ON.load(SeqCst) != 0 {
                    if self.quar_len < LOG_CAP {
                        let li = if e.log_epoch == self.epoch { e.log_idx } else { u32::MAX };
                        self.quar[self.quar_len] = Quar { ptr: p, size: e.size, log_idx: li };
                        self.quar_len += 1;
                        return (2, e.size);
                    }
                    self.quar_overflow += 1;
                }
                (1, 0)
            }
        }
    }
    fn new_epoch(&mut self) {
        self.epoch += 1;
        self.log_len = 0;
        self.double_free = 0;
        self.nonlive_free = 0;
        self.layout_mismatch = 0;
        self.alloc_dup_live = 0;
        self.log_overflow = 0;
        self.table_overflow = 0;
        self.old_freed = 0;
        self.null_allocs = 0;
        self.quar_overflow = 0;
        self.uaf_writes = 0;
        // tombstones (memory of freed pointers, to tell a double free from a wild free) are only needed within a
        // batch: rebuild the table with the live entries only. Runs with the lock held, between batches.
        let (cur, other) = (self.cur, 1 - self.cur);
        for i in 0..TABLE_CAP {
            self.tables[other][i] = E0;
        }
        for i in 0..TABLE_CAP {
            let e = self.tables[cur][i];
            if e.state == 1 && !Self::insert(&mut self.tables[other], e) {
                self.table_overflow += 1;
            }
        }
        self.cur = other;
    }
}

unsafe impl GlobalAlloc for Counting {
    unsafe fn alloc(&self, l: Layout) -> *mut u8 {
        let tid = gettid();
        let mut g = self.m.lock();
        let p = g.dl.malloc(l.size(), l.align());
        (*self.book.get()).on_alloc(p as usize, l, tid);
        p
    }
    unsafe fn dealloc(&self, p: *mut u8, l: Layout) {
        let tid = gettid();
        if tid != MAIN_TID.load(SeqCst) {
            exit_stall(tid);
        }
        let mut g = self.m.lock();
        match (*self.book.get()).on_free(p as usize, l, tid) {
            (1, _) => g.dl.free(p),
            (2, n) => core::ptr::write_bytes(p, POISON, n),
            _ => {}
        }
    }
}

/// A spawned thread frees something after its closure is done: it is in its epilogue. Sleep first when asked to.
fn exit_stall(tid: u32) {
    for i in 0..MAXN {
        if TID[i].load(SeqCst) == tid {
            let ns = STALL_NS[i].load(SeqCst);
            if ns != 0 && DONE[i].load(SeqCst) == 1 && STALL_COUNT[i].load(SeqCst) < 4 {
                STALL_COUNT[i].fetch_add(1, SeqCst);
                STALL_NOW[i].store(1, SeqCst);
                sleep_ns(ns as u64);
                STALL_NOW[i].store(0, SeqCst);
            }
            return;
        }
    }
}

static QUARANTINE_ON: AtomicU32 = AtomicU32::new(0);

/// Checks the poison of every quarantined block and hands the blocks back to Dlmalloc. Called by the main thread
/// once every thread of the batch is gone.
fn quarantine_flush() {
    let mut g = A.m.lock();
    let b = unsafe { &mut *A.book.get() };
    for k in 0..b.quar_len {
        let q = b.quar[k];
        let mut first = 0u32;
        let mut n = 0u32;
        for o in 0..q.size {
            if unsafe { core::ptr::read_volatile((q.ptr as *const u8).add(o)) } != POISON {
                if n == 0 {
                    first = o as u32 + 1;
                }
                n += 1;
            }
        }
        if n != 0 {
            b.uaf_writes += 1;
            if q.log_idx != u32::MAX {
                b.log[q.log_idx as usize].damage_off = first;
                b.log[q.log_idx as usize].damage_n = n;
            }
        }
        unsafe { g.dl.free(q.ptr as *mut u8) };
    }
    b.quar_len = 0;
}

#[global_allocator]
static A: Counting = Counting {
    m: Mutex::new(Shared { dl: Dlmalloc::new() }),
    book: UnsafeCell::new(Book {
        tables: [[E0; TABLE_CAP]; 2],
        cur: 0,
        log: [L0; LOG_CAP],
        log_len: 0,
        epoch: 0,
        live_count: 0,
        live_bytes: 0,
        double_free: 0,
        nonlive_free: 0,
        layout_mismatch: 0,
        alloc_dup_live: 0,
        log_overflow: 0,
        table_overflow: 0,
        old_freed: 0,
        null_allocs: 0,
        quar: [Q0; LOG_CAP],
        quar_len: 0,
        quar_overflow: 0,
        uaf_writes: 0,
    }),
};

fn with_book<R>(f: impl FnOnce(&mut Book) -> R) -> R {
    let _g = A.m.lock();
    unsafe { f(&mut *A.book.get()) }
}

// ------------------------------------------------------------------------------------------------
// value family
// ------------------------------------------------------------------------------------------------

#[inline]
fn splitmix(x: u64) -> u64 {
    let x = x.wrapping_add(0x9E37_79B9_7F4A_7C15);
    let mut z = x;
    z = (z ^ (z >> 30)).wrapping_mul(0xBF58_476D_1CE4_E5B9);
    z = (z ^ (z >> 27)).wrapping_mul(0x94D0_49BB_1331_11EB);
    z ^ (z >> 31)
}

/// k-th byte of the stream generated by `tag`
#[inline]
fn sbyte(tag: u64, k: usize) -> u8 {
    (splitmix(tag ^ ((k as u64) >> 3).wrapping_mul(0x1000_0000_01b3)) >> ((k & 7) * 8)) as u8
}

struct Fnv(u64);
impl Fnv {
    fn new() -> Self {
        Fnv(0xcbf2_9ce4_8422_2325)
    }
    #[inline]
    fn byte(&mut self, b: u8) {
        self.0 = (self.0 ^ b as u64).wrapping_mul(0x0000_0100_0000_01b3);
    }
    fn bytes(&mut self, bs: &[u8]) {
        for b in bs {
            self.byte(*b);
        }
    }
}

trait Res: Send + 'static {
    fn make(tag: u64) -> Self;
    /// feed the logical bytes of the value (no padding); returns the number of bytes
    fn feed(&self, h: &mut Fnv) -> u32;
}

impl Res for () {
    fn make(_: u64) -> Self {}
    fn feed(&self, _: &mut Fnv) -> u32 {
        0
    }
}
impl Res for u8 {
    fn make(t: u64) -> Self {
        sbyte(t, 0)
    }
    fn feed(&self, h: &mut Fnv) -> u32 {
        h.byte(*self);
        1
    }
}
impl Res for u64 {
    fn make(t: u64) -> Self {
        let mut b = [0u8; 8];
        for (k, x) in b.iter_mut().enumerate() {
            *x = sbyte(t, k);
        }
        u64::from_le_bytes(b)
    }
    fn feed(&self, h: &mut Fnv) -> u32 {
        h.bytes(&self.to_le_bytes());
        8
    }
}
impl<const N: usize> Res for [u8; N] {
    fn make(t: u64) -> Self {
        let mut b = [0u8; N];
        for (k, x) in b.iter_mut().enumerate() {
            *x = sbyte(t, k);
        }
        b
    }
    fn feed(&self, h: &mut Fnv) -> u32 {
        h.bytes(self);
        N as u32
    }
}
impl Res for [u64; 512] {
    fn make(t: u64) -> Self {
        let mut v = [0u64; 512];
        for (i, x) in v.iter_mut().enumerate() {
            let mut b = [0u8; 8];
            for (k, y) in b.iter_mut().enumerate() {
                *y = sbyte(t, i * 8 + k);
            }
            *x = u64::from_le_bytes(b);
        }
        v
    }
    fn feed(&self, h: &mut Fnv) -> u32 {
        for x in self.iter() {
            h.bytes(&x.to_le_bytes());
        }
        4096
    }
}
#[repr(align(64))]
struct A64 {
    a: u64,
    b: u8,
}
impl Res for A64 {
    fn make(t: u64) -> Self {
        A64 { a: <u64 as Res>::make(t), b: sbyte(t, 8) }
    }
    fn feed(&self, h: &mut Fnv) -> u32 {
        h.bytes(&self.a.to_le_bytes());
        h.byte(self.b);
        9
    }
}
#[repr(align(4096))]
struct A4096 {
    a: u64,
    b: [u8; 16],
}
impl Res for A4096 {
    fn make(t: u64) -> Self {
        let mut b = [0u8; 16];
        for (k, x) in b.iter_mut().enumerate() {
            *x = sbyte(t, 8 + k);
        }
        A4096 { a: <u64 as Res>::make(t), b }
    }
    fn feed(&self, h: &mut Fnv) -> u32 {
        h.bytes(&self.a.to_le_bytes());
        h.bytes(&self.b);
        24
    }
}
impl Res for Vec<u8> {
    fn make(t: u64) -> Self {
        let n = (splitmix(t ^ 0x0abc) % 301) as usize;
        let mut v = Vec::with_capacity(n);
        for k in 0..n {
            v.push(sbyte(t, k));
        }
        v
    }
    fn feed(&self, h: &mut Fnv) -> u32 {
        h.bytes(self);
        self.len() as u32
    }
}

impl Res for bool {
    fn make(t: u64) -> Self {
        sbyte(t, 0) & 1 == 1
    }
    fn feed(&self, h: &mut Fnv) -> u32 {
        h.byte(*self as u8);
        1
    }
}
impl Res for char {
    fn make(t: u64) -> Self {
        let v = u32::from_le_bytes([sbyte(t, 0), sbyte(t, 1), sbyte(t, 2), sbyte(t, 3)]) % 0xD800;
        char::from_u32(v).unwrap_or('x')
    }
    fn feed(&self, h: &mut Fnv) -> u32 {
        h.bytes(&(*self as u32).to_le_bytes());
        4
    }
}
impl Res for Option<u8> {
    fn make(t: u64) -> Self {
        if sbyte(t, 0) & 1 == 1 {
            Some(sbyte(t, 1))
        } else {
            None
        }
    }
    fn feed(&self, h: &mut Fnv) -> u32 {
        match self {
            Some(v) => h.bytes(&[1, *v]),
            None => h.bytes(&[0, 0]),
        }
        2
    }
}
/// fieldless enum: `Option<Verdict>` keeps `None` in a niche that is not the all-zero pattern
#[derive(Clone, Copy)]
enum Verdict {
    A,
    B,
    C,
}
impl Res for Verdict {
    fn make(t: u64) -> Self {
        match sbyte(t, 0) % 3 {
            0 => Verdict::A,
            1 => Verdict::B,
            _ => Verdict::C,
        }
    }
    fn feed(&self, h: &mut Fnv) -> u32 {
        h.byte(*self as u8);
        1
    }
}

/// alignment 16, the stack alignment the ABI promises at every call: kept in memory and copied by value, so
/// that the compiler may use aligned 16-byte moves on stack slots
#[repr(align(16))]
struct A16 {
    a: [u64; 14],
}
impl Res for A16 {
    fn make(t: u64) -> Self {
        let mut a = [0u64; 14];
        for (k, x) in a.iter_mut().enumerate() {
            let mut w = [0u8; 8];
            for (j, y) in w.iter_mut().enumerate() {
                *y = sbyte(t, 8 * k + j);
            }
            *x = u64::from_le_bytes(w);
        }
        A16 { a }
    }
    fn feed(&self, h: &mut Fnv) -> u32 {
        for x in self.a.iter() {
            h.bytes(&x.to_le_bytes());
        }
        112
    }
}

/// A result whose destructor panics when it runs on a spawned thread (on the main thread it does nothing): the
/// thread's own disposal of a result nobody will join then is a panic in the thread's epilogue, after the closure
/// has returned.
struct Bomb {
    a: u64,
}
impl Res for Bomb {
    fn make(t: u64) -> Self {
        Bomb { a: <u64 as Res>::make(t) }
    }
    fn feed(&self, h: &mut Fnv) -> u32 {
        h.bytes(&self.a.to_le_bytes());
        8
    }
}
impl Drop for Bomb {
    fn drop(&mut self) {
        if gettid() != MAIN_TID.load(SeqCst) {
            panic!("generated panic in the result's destructor");
        }
    }
}

enum H {
    T0(JoinHandle<()>),
    T1(JoinHandle<u8>),
    T2(JoinHandle<u64>),
    T3(JoinHandle<[u8; 3]>),
    T4(JoinHandle<[u8; 24]>),
    T5(JoinHandle<[u64; 512]>),
    T6(JoinHandle<A64>),
    T7(JoinHandle<A4096>),
    T8(JoinHandle<Vec<u8>>),
    T9(JoinHandle<bool>),
    T10(JoinHandle<char>),
    T11(JoinHandle<Option<u8>>),
    T12(JoinHandle<Verdict>),
    T13(JoinHandle<A16>),
    T14(JoinHandle<Bomb>),
}

// ------------------------------------------------------------------------------------------------
// specs, per-thread slots
// ------------------------------------------------------------------------------------------------

const MAXN: usize = 64;

#[derive(Clone, Copy)]
struct Spec {
    ty: u8,
    behave: u8, // 0 return, 1 panic, 2 return after delivering a spurious wake-up to the own exit futex, 3/4 nested, 5 return after interrupting the main thread (SIGUSR1, no SA_RESTART) while it joins, 6 return after using 256 KiB of stack
    disp: u8,   // 0 join, 1 drop now, 2 drop later, 3 keep until the end then join, 4 drop "while finishing" (= 2 for the probe)
    inline: u8, // 1: the disposition is carried out before the next spawn
    cdk: u8,
    pdk: u8,
    buflen: u16,
    cda: u32,
    pda: u32,
    tag: u64,
    /// exit stall: every free the thread makes after its closure is done (its epilogue: closure box, thread-local
    /// block, ...) first sleeps this long, so that "the thread is finishing" lasts long enough to be hit on purpose
    stall_ns: u32,
    /// the parent carries out its disposition when the k-th such stall has begun (0 = no rendezvous)
    stall_k: u8,
    /// 1: the batch runs without the quarantine (freed blocks are reusable at once)
    reuse: u8,
    /// 1: the join is evaluated as an argument of `eprint!` (under the stderr print lock)
    join_in_print: u8,
    /// 1 (with disp 1 and a rendezvous): the handle is dropped at once, while the thread still runs its closure, and
    /// the main thread then waits until the k-th stalled free of the thread's epilogue has begun before it goes on
    /// to the next spawn (instead of dropping the handle at that moment)
    drop_first: u8,
}
const SPEC_BYTES: usize = 32;

impl Spec {
    fn parse(b: &[u8]) -> Spec {
        Spec {
            ty: b[0],
            behave: b[1],
            disp: b[2],
            inline: b[3],
            cdk: b[4],
            pdk: b[5],
            buflen: u16::from_le_bytes([b[6], b[7]]),
            cda: u32::from_le_bytes([b[8], b[9], b[10], b[11]]),
            pda: u32::from_le_bytes([b[12], b[13], b[14], b[15]]),
            tag: u64::from_le_bytes([b[16], b[17], b[18], b[19], b[20], b[21], b[22], b[23]]),
            stall_ns: u32::from_le_bytes([b[24], b[25], b[26], b[27]]).min(2_000_000),
            stall_k: b[28],
            reuse: b[29],
            join_in_print: b[30],
            drop_first: b[31],
        }
    }
}

const Z32: AtomicU32 = AtomicU32::new(0);
const Z64: AtomicU64 = AtomicU64::new(0);
static RUN: [AtomicU32; MAXN] = [Z32; MAXN];
static TID: [AtomicU32; MAXN] = [Z32; MAXN];
static CANARY_ADDR: [AtomicU64; MAXN] = [Z64; MAXN];
/// exit stall bookkeeping (see `Spec::stall_ns`): closure done, stalls begun, 1 while a stall is sleeping
static DONE: [AtomicU32; MAXN] = [Z32; MAXN];
static STALL_NS: [AtomicU32; MAXN] = [Z32; MAXN];
static STALL_COUNT: [AtomicU32; MAXN] = [Z32; MAXN];
static STALL_NOW: [AtomicU32; MAXN] = [Z32; MAXN];
static ALIVE: AtomicU32 = AtomicU32::new(0);
static MAX_ALIVE: AtomicU32 = AtomicU32::new(0);
static EPOCH: AtomicU64 = AtomicU64::new(0);

#[derive(Clone, Copy)]
struct Clo {
    i: usize,
    tag: u64,
    cdk: u8,
    behave: u8,
    cda: u32,
    buf: usize,
    buflen: usize,
    magic: u64,
}

fn delay(kind: u8, amt: u32) {
    match kind {
        1 => {
            let mut x = 0u32;
            for _ in 0..amt {
                x = black_box(x.wrapping_add(1));
            }
            black_box(x);
        }
        2 => {
            let ns = if amt > 2_000_000 { 2_000_000 } else { amt };
            let ts: [u64; 2] = [0, ns as u64];
            unsafe {
                sc::syscall!(NANOSLEEP, ts.as_ptr(), 0);
            }
        }
        _ => {}
    }
}

fn canary_magic(tag: u64, epoch: u64, i: usize) -> u64 {
    splitmix(tag ^ splitmix(epoch ^ ((i as u64) << 48))) | 1
}

#[inline(never)]
fn body<T: Res>(c: Clo) -> T {
    RUN[c.i].fetch_add(1, SeqCst);
    TID[c.i].store(gettid(), SeqCst);
    let a = ALIVE.fetch_add(1, SeqCst) + 1;
    MAX_ALIVE.fetch_max(a, SeqCst);
    // a word on this thread's own stack: if it is still readable with this value after the thread is gone, the
    // stack page was never unmapped (a fresh anonymous mapping at the same address would read 0)
    let mut can = [0u64; 2];
    unsafe {
        core::ptr::write_volatile(can.as_mut_ptr(), c.magic);
    }
    CANARY_ADDR[c.i].store(can.as_ptr() as u64, SeqCst);
    // memory effect the parent checks after join
    let p = c.buf as *mut u8;
    for k in 0..c.buflen {
        unsafe {
            p.add(k).write(sbyte(c.tag ^ 0x5eed, k));
        }
    }
    if c.behave == 2 {
        spurious_wake(c.i, c.cdk, c.cda);
    } else if c.behave == 5 {
        signal_the_joiner(c.cdk, c.cda);
    } else if c.behave == 6 {
        black_box(deep_stack(c.tag));
        delay(c.cdk, c.cda);
    } else {
        if c.behave == 3 || c.behave == 4 {
            nested(c.i, c.behave, c.tag);
        }
        delay(c.cdk, c.cda);
    }
    black_box(&can);
    ALIVE.fetch_sub(1, SeqCst);
    if c.behave == 1 {
        DONE[c.i].store(1, SeqCst);
        if c.tag % 3 == 0 {
            // a message that cannot be rendered: whoever formats it panics again
            panic!("generated panic: {}", Unrenderable);
        }
        panic!("generated panic");
    }
    let v = T::make(c.tag);
    DONE[c.i].store(1, SeqCst);
    v
}

struct Unrenderable;

impl core::fmt::Display for Unrenderable {
    fn fmt(&self, _f: &mut core::fmt::Formatter<'_>) -> core::fmt::Result {
        panic!("the panic message cannot be rendered");
    }
}

/// behave 3 / 4: this (spawned) thread itself spawns a thread and joins it (3) or drops its handle once it has
/// finished (4) - the handle side of another thread's life runs on a spawned thread. Result in WOKE[i]:
/// 0x11 inner join returned the inner value, 0x12 it returned something else, 0x13 the inner spawn failed,
/// 0x14 handle dropped after the inner closure had finished, 0x15 the inner closure never reported.
fn nested(i: usize, behave: u8, tag: u64) {
    static INNER_DONE: [AtomicU32; MAXN] = [Z32; MAXN];
    INNER_DONE[i].store(0, SeqCst);
    let want = tag.wrapping_mul(3) ^ 0x1e57;
    let r = tiny_std::thread::spawn(move || {
        INNER_DONE[i].store(1, SeqCst);
        want
    });
    let code = match r {
        Err(_) => 0x13,
        Ok(h) => {
            if behave == 3 {
                match h.join() {
                    Some(v) if v == want => 0x11,
                    _ => 0x12,
                }
            } else {
                let mut polls = 0;
                while INNER_DONE[i].load(SeqCst) == 0 && polls < 20_000 {
                    sleep_ns(50_000);
                    polls += 1;
                }
                sleep_ns(300_000);
                let fin = INNER_DONE[i].load(SeqCst) == 1;
                drop(h);
                if fin {
                    0x14
                } else {
                    0x15
                }
            }
        }
    };
    WOKE[i].store(code, SeqCst);
}

static CLOSZ: [AtomicU32; MAXN] = [Z32; MAXN];
/// behave == 2: 1 = a FUTEX_WAKE on the thread's exit futex woke a parked waiter while the word still said
/// "unfinished" (a spurious wake-up as futex(2) allows), 2 = nobody was parked there, 3 = the address is not available
static WOKE: [AtomicU32; MAXN] = [Z32; MAXN];

/// Deliver a wake-up on this thread's own clear-child-tid address (the word the joiner waits on) WITHOUT
/// changing the word, then keep running for a while: futex(2) documents that a wait may return 0 like this
/// ("callers should always conservatively assume that a return value of 0 can mean a spurious wake-up").
fn spurious_wake(i: usize, kind: u8, amt: u32) {
    // the blocks the spawn call of this thread allocated (join state, thread-local block, closure): the exit
    // futex is a word of one of them. Waking a word nobody waits on does nothing, so every word is tried -
    // no knowledge of the join state's layout is needed.
    let mut blocks: [(usize, usize); 8] = [(0, 0); 8];
    let mut nb = 0;
    with_book(|b| {
        for k in 0..b.log_len {
            let r = b.log[k];
            if r.spec as usize == i + 1 && r.free_tid == 0 && nb < 8 {
                blocks[nb] = (r.ptr as usize, (r.size as usize).min(16 * 1024));
                nb += 1;
            }
        }
    });
    if nb == 0 {
        WOKE[i].store(3, SeqCst);
        return;
    }
    delay(kind, amt);
    let mut w = 2;
    'o: for _ in 0..40 {
        for &(p, sz) in blocks[..nb].iter() {
            let mut off = (4 - (p & 3)) & 3;
            while off + 4 <= sz {
                // FUTEX_WAKE = 1 (process-shared key, what the kernel's own exit wake-up uses), then
                // FUTEX_WAKE | FUTEX_PRIVATE_FLAG = 129: whichever key the joiner waits with
                for op in [1usize, 129] {
                    let n = unsafe { sc::syscall!(FUTEX, p + off, op, 1usize, 0usize, 0usize, 0usize) };
                    if n == 1 {
                        w = 1;
                        break 'o;
                    }
                }
                off += 4;
            }
        }
        delay(2, 100_000);
    }
    WOKE[i].store(w, SeqCst);
    // stay alive: a joiner that came back early is ahead of this thread now
    delay(2, 2_000_000);
}

fn spawn_t<T: Res>(c: Clo) -> Result<JoinHandle<T>, i32> {
    let f = move || body::<T>(c);
    CLOSZ[c.i].store(core::mem::size_of_val(&f) as u32, SeqCst);
    REC_SPEC.store(c.i as u32 + 1, SeqCst);
    let r = tiny_std::thread::spawn(f);
    REC_SPEC.store(0, SeqCst);
    match r {
        Ok(h) => Ok(h),
        Err(e) => Err(match e {
            tiny_std::Error::Os { code, .. } => code.raw(),
            _ => -1,
        }),
    }
}

fn spawn_spec(ty: u8, c: Clo) -> Result<H, i32> {
    Ok(match ty {
        0 => H::T0(spawn_t(c)?),
        1 => H::T1(spawn_t(c)?),
        2 => H::T2(spawn_t(c)?),
        3 => H::T3(spawn_t(c)?),
        4 => H::T4(spawn_t(c)?),
        5 => H::T5(spawn_t(c)?),
        6 => H::T6(spawn_t(c)?),
        7 => H::T7(spawn_t(c)?),
        9 => H::T9(spawn_t(c)?),
        10 => H::T10(spawn_t(c)?),
        11 => H::T11(spawn_t(c)?),
        12 => H::T12(spawn_t(c)?),
        13 => H::T13(spawn_t(c)?),
        14 => H::T14(spawn_t(c)?),
        _ => H::T8(spawn_t(c)?),
    })
}

/// (class: 1 None, 2 Some; hash; len)
fn join_t<T: Res>(h: JoinHandle<T>) -> (u8, u64, u32) {
    match h.join() {
        None => (1, 0, 0),
        Some(v) => {
            let mut f = Fnv::new();
            let n = v.feed(&mut f);
            (2, f.0, n)
        }
    }
}

fn join_h(h: H) -> (u8, u64, u32) {
    match h {
        H::T0(h) => join_t(h),
        H::T1(h) => join_t(h),
        H::T2(h) => join_t(h),
        H::T3(h) => join_t(h),
        H::T4(h) => join_t(h),
        H::T5(h) => join_t(h),
        H::T6(h) => join_t(h),
        H::T7(h) => join_t(h),
        H::T8(h) => join_t(h),
        H::T9(h) => join_t(h),
        H::T10(h) => join_t(h),
        H::T11(h) => join_t(h),
        H::T12(h) => join_t(h),
        H::T13(h) => join_t(h),
        H::T14(h) => join_t(h),
    }
}

// ------------------------------------------------------------------------------------------------
// plumbing
// ------------------------------------------------------------------------------------------------

fn read_exact(buf: &mut [u8]) -> bool {
    let mut off = 0;
    while off < buf.len() {
        match rusl::unistd::read(STDIN, &mut buf[off..]) {
            Ok(0) => return false,
            Ok(n) => off += n,
            Err(e) => {
                if e.code == Some(rusl::error::Errno::EINTR) {
                    continue;
                }
                return false;
            }
        }
    }
    true
}

fn write_all(buf: &[u8]) -> bool {
    let mut off = 0;
    while off < buf.len() {
        match rusl::unistd::write(STDOUT, &buf[off..]) {
            Ok(0) => return false,
            Ok(n) => off += n,
            Err(e) => {
                if e.code == Some(rusl::error::Errno::EINTR) {
                    continue;
                }
                return false;
            }
        }
    }
    true
}

const OUT_CAP: usize = 512 * 1024;
struct Out {
    buf: UnsafeCell<[u8; OUT_CAP]>,
    len: UnsafeCell<usize>,
}
unsafe impl Sync for Out {}
static OUT: Out = Out { buf: UnsafeCell::new([0; OUT_CAP]), len: UnsafeCell::new(4) };

fn o_bytes(b: &[u8]) {
    unsafe {
        let len = &mut *OUT.len.get();
        let buf = &mut *OUT.buf.get();
        if *len + b.len() <= OUT_CAP {
            buf[*len..*len + b.len()].copy_from_slice(b);
            *len += b.len();
        }
    }
}
fn o8(v: u8) {
    o_bytes(&[v]);
}
fn o32(v: u32) {
    o_bytes(&v.to_le_bytes());
}
fn o64(v: u64) {
    o_bytes(&v.to_le_bytes());
}
fn o_flush() -> bool {
    unsafe {
        let len = &mut *OUT.len.get();
        let buf = &mut *OUT.buf.get();
        let n = (*len - 4) as u32;
        buf[0..4].copy_from_slice(&n.to_le_bytes());
        let ok = write_all(&buf[..*len]);
        *len = 4;
        ok
    }
}

const PROC_CAP: usize = 1 << 20;
struct ProcBuf(UnsafeCell<[u8; PROC_CAP]>);
unsafe impl Sync for ProcBuf {}
static PROC: ProcBuf = ProcBuf(UnsafeCell::new([0; PROC_CAP]));

/// reads a /proc file (NUL-terminated path) into the static buffer
fn slurp(path: &[u8]) -> &'static [u8] {
    unsafe {
        let buf = &mut *PROC.0.get();
        let fd = sc::syscall!(OPEN, path.as_ptr(), 0 /* O_RDONLY */) as isize;
        if fd < 0 {
            return &buf[..0];
        }
        let mut off = 0usize;
        loop {
            if off == PROC_CAP {
                break;
            }
            let n = sc::syscall!(READ, fd, buf.as_mut_ptr().add(off), PROC_CAP - off) as isize;
            if n == -4 {
                continue;
            }
            if n <= 0 {
                break;
            }
            off += n as usize;
        }
        sc::syscall!(CLOSE, fd);
        &buf[..off]
    }
}

fn parse_dec(b: &[u8]) -> u64 {
    let mut v = 0u64;
    let mut started = false;
    for &c in b {
        if c.is_ascii_digit() {
            v = v * 10 + (c - b'0') as u64;
            started = true;
        } else if started {
            break;
        }
    }
    v
}
fn parse_hex(b: &[u8]) -> (u64, usize) {
    let mut v = 0u64;
    let mut n = 0;
    for &c in b {
        let d = match c {
            b'0'..=b'9' => c - b'0',
            b'a'..=b'f' => c - b'a' + 10,
            _ => break,
        };
        v = (v << 4) | d as u64;
        n += 1;
    }
    (v, n)
}

fn nthreads() -> u64 {
    let s = slurp(b"/proc/self/status\0");
    let key = b"Threads:";
    let mut i = 0;
    while i + key.len() <= s.len() {
        if &s[i..i + key.len()] == key && (i == 0 || s[i - 1] == b'\n') {
            return parse_dec(&s[i + key.len()..]);
        }
        i += 1;
    }
    0
}

/// (lines, anonymous rw-p bytes, total mapped bytes)
fn maps_stats() -> (u64, u64, u64) {
    let s = slurp(b"/proc/self/maps\0");
    let (mut lines, mut anon, mut total) = (0u64, 0u64, 0u64);
    for line in s.split(|c| *c == b'\n') {
        if line.is_empty() {
            continue;
        }
        lines += 1;
        let (a, n1) = parse_hex(line);
        let (b, n2) = parse_hex(&line[n1 + 1..]);
        let rest = &line[n1 + 1 + n2..];
        total += b - a;
        // " rw-p 00000000 00:00 0 <spaces>[name]"
        let is_rw = rest.len() > 5 && &rest[1..5] == b"rw-p";
        let has_name = rest.iter().any(|c| *c == b'/' || *c == b'[');
        if is_rw && !has_name {
            anon += b - a;
        }
    }
    (lines, anon, total)
}

fn vmsize_pages() -> u64 {
    parse_dec(slurp(b"/proc/self/statm\0"))
}

fn sleep_ns(ns: u64) {
    let ts: [u64; 2] = [0, ns];
    unsafe {
        sc::syscall!(NANOSLEEP, ts.as_ptr(), 0);
    }
}

/// 0 = address unmapped, 1 = mapped with other content, 2 = mapped and still holding `magic`
fn probe_canary(pipe: (usize, usize), addr: u64, magic: u64) -> u8 {
    if addr == 0 {
        return 0;
    }
    unsafe {
        let w = sc::syscall!(WRITE, pipe.1, addr as usize, 8) as isize;
        if w != 8 {
            return 0;
        }
        let mut b = [0u8; 8];
        let r = sc::syscall!(READ, pipe.0, b.as_mut_ptr(), 8) as isize;
        if r == 8 && u64::from_le_bytes(b) == magic {
            2
        } else {
            1
        }
    }
}

static IN: ProcBuf = ProcBuf(UnsafeCell::new([0; PROC_CAP]));

// ------------------------------------------------------------------------------------------------
// main
// ------------------------------------------------------------------------------------------------

fn hash_buf(p: usize, n: usize) -> u64 {
    let mut f = Fnv::new();
    for k in 0..n {
        f.byte(unsafe { core::ptr::read_volatile((p as *const u8).add(k)) });
    }
    f.0
}

struct PerSpec {
    spawn_errno: i32,
    join_class: u8,
    vhash: u64,
    vlen: u32,
    buf_join: u64,
    buf: usize,
    /// bit 0: the disposition began while the thread slept in its epilogue; bit 1: join returned while it still slept
    stall_obs: u8,
}

// --- a SIGUSR1 handler that does NOT restart system calls (the repository's own helper always sets SA_RESTART):
// a signal that reaches a thread parked in a futex wait makes that wait return EINTR ---
core::arch::global_asm!(".text", ".global __verif_sigrestorer", ".type __verif_sigrestorer,@function", "__verif_sigrestorer:", "mov rax, 15", "syscall",);
extern "C" {
    fn __verif_sigrestorer();
}
#[repr(C)]
struct KSigaction {
    handler: usize,
    flags: u64,
    restorer: usize,
    mask: u64,
}
static SIGNALS_SEEN: AtomicU32 = AtomicU32::new(0);
unsafe extern "C" fn on_sigusr1(_sig: i32) {
    SIGNALS_SEEN.fetch_add(1, SeqCst);
}
fn install_sigusr1() {
    const SA_RESTORER: u64 = 0x0400_0000;
    let act = KSigaction { handler: on_sigusr1 as *const () as usize, flags: SA_RESTORER, restorer: __verif_sigrestorer as *const () as usize, mask: 0 };
    unsafe { sc::syscall!(RT_SIGACTION, 10usize, &act as *const KSigaction, 0usize, 8usize) };
}

/// behave 6: a frame of 256 KiB on the thread's stack, every page of it written and read back (an eighth of the
/// 2 MiB the runtime maps per thread today; the threads of a batch are live together, their stacks side by side)
#[inline(never)]
fn deep_stack(tag: u64) -> u64 {
    let mut buf = [0u8; 256 * 1024];
    let mut i = 0;
    while i < buf.len() {
        unsafe { core::ptr::write_volatile(buf.as_mut_ptr().add(i), sbyte(tag, i >> 12)) };
        i += 4096;
    }
    let mut sum = 0u64;
    i = 0;
    while i < buf.len() {
        sum = sum.wrapping_mul(31).wrapping_add(unsafe { core::ptr::read_volatile(buf.as_ptr().add(i)) } as u64);
        i += 4096;
    }
    sum
}

/// behave 5: once the main thread has had time to park in its join, interrupt it with a signal (three times, 150 us
/// apart), then keep working for the configured delay before returning
fn signal_the_joiner(kind: u8, amt: u32) {
    let pid = unsafe { sc::syscall!(GETPID) };
    let main_tid = MAIN_TID.load(SeqCst) as usize;
    for _ in 0..3 {
        sleep_ns(150_000);
        unsafe { sc::syscall!(TGKILL, pid, main_tid, 10usize) };
    }
    delay(kind, amt);
}

#[no_mangle]
pub fn main() -> i32 {
    MAIN_TID.store(gettid(), SeqCst);
    install_sigusr1();
    // reserve: a 6 MiB free chunk pinned below a live block, so that the batches are served without the
    // allocator growing or trimming its segments (keeps VmSize comparable between batches). Small blocks are
    // allocated (and kept) until one sits directly above the big block; whether the reserve survived the free
    // is verified through VmSize and reported in the hello record.
    const RES: usize = 6 << 20;
    let reserve_ok;
    unsafe {
        let big = alloc::alloc::alloc(Layout::from_size_align_unchecked(RES, 8));
        if big.is_null() {
            return 3;
        }
        // (the optimiser may elide an unused alloc/dealloc pair)
        core::ptr::write_volatile(black_box(big), 1);
        let end = big as usize + RES;
        for _ in 0..2048 {
            let pin = alloc::alloc::alloc(Layout::from_size_align_unchecked(64, 8));
            if pin.is_null() {
                return 3;
            }
            core::ptr::write_volatile(black_box(pin), 1);
            if (pin as usize) >= end && (pin as usize) < end + 256 {
                break;
            }
        }
        let before = vmsize_pages();
        alloc::alloc::dealloc(black_box(big), Layout::from_size_align_unchecked(RES, 8));
        reserve_ok = vmsize_pages() == before;
    }
    let mut pfds = [0i32; 2];
    unsafe {
        if (sc::syscall!(PIPE2, pfds.as_mut_ptr(), 0) as isize) < 0 {
            return 4;
        }
    }
    let pipe = (pfds[0] as usize, pfds[1] as usize);

    // hello
    let (lines, anon, total) = maps_stats();
    o8(0x10);
    o32(MAIN_TID.load(SeqCst));
    o32(unsafe { sc::syscall!(GETPID) as u32 });
    o64(lines);
    o64(anon);
    o64(total);
    o64(vmsize_pages());
    let (lc, lb) = with_book(|b| (b.live_count, b.live_bytes));
    o64(lc);
    o64(lb);
    o8(reserve_ok as u8);
    if !o_flush() {
        return 5;
    }

    let inbuf = unsafe { &mut *IN.0.get() };
    loop {
        let mut l4 = [0u8; 4];
        if !read_exact(&mut l4) {
            return 0;
        }
        let len = u32::from_le_bytes(l4) as usize;
        if len == 0 || len > PROC_CAP || !read_exact(&mut inbuf[..len]) {
            return 6;
        }
        if inbuf[0] != 1 {
            return 0;
        }
        let n = inbuf[1] as usize;
        if n == 0 || n > MAXN || len < 4 + n * SPEC_BYTES {
            return 7;
        }
        let mut specs = [Spec { ty: 0, behave: 0, disp: 0, inline: 0, cdk: 0, pdk: 0, buflen: 0, cda: 0, pda: 0, tag: 0, stall_ns: 0, stall_k: 0, reuse: 0, join_in_print: 0, drop_first: 0 }; MAXN];
        for i in 0..n {
            specs[i] = Spec::parse(&inbuf[4 + i * SPEC_BYTES..4 + (i + 1) * SPEC_BYTES]);
        }
        run_batch(&specs[..n], pipe);
        if !o_flush() {
            return 5;
        }
    }
}

fn run_batch(specs: &[Spec], pipe: (usize, usize)) {
    let n = specs.len();
    let epoch = EPOCH.fetch_add(1, SeqCst) + 1;
    for i in 0..MAXN {
        RUN[i].store(0, SeqCst);
        TID[i].store(0, SeqCst);
        CANARY_ADDR[i].store(0, SeqCst);
        CLOSZ[i].store(0, SeqCst);
        WOKE[i].store(0, SeqCst);
        DONE[i].store(0, SeqCst);
        STALL_COUNT[i].store(0, SeqCst);
        STALL_NOW[i].store(0, SeqCst);
        STALL_NS[i].store(if i < n { specs[i].stall_ns } else { 0 }, SeqCst);
    }
    MAX_ALIVE.store(0, SeqCst);
    let (lc0, lb0) = with_book(|b| {
        b.new_epoch();
        (b.live_count, b.live_bytes)
    });

    QUARANTINE_ON.store(if specs.iter().any(|s| s.reuse != 0) { 0 } else { 1 }, SeqCst);
    const NONE_H: Option<H> = None;
    let mut handles: [Option<H>; MAXN] = [NONE_H; MAXN];
    const PS0: PerSpec = PerSpec { spawn_errno: 0, join_class: 0, vhash: 0, vlen: 0, buf_join: 0, buf: 0, stall_obs: 0 };
    let mut ps: [PerSpec; MAXN] = [PS0; MAXN];

    // heap buffers for the memory effects (allocated and freed by the main thread inside the batch)
    for i in 0..n {
        let bl = specs[i].buflen as usize;
        if bl > 0 {
            let p = unsafe { alloc::alloc::alloc_zeroed(Layout::from_size_align_unchecked(bl, 1)) };
            ps[i].buf = p as usize;
        }
    }

    let mut finish = |i: usize, handles: &mut [Option<H>; MAXN], ps: &mut [PerSpec; MAXN], join: bool| {
        if let Some(h) = handles[i].take() {
            let mut h = Some(h);
            if specs[i].drop_first != 0 && !join {
                drop(h.take());
            }
            // rendezvous with the thread's epilogue: wait (bounded) until its k-th stalled free has begun
            let k = specs[i].stall_k as u32;
            if k > 0 && specs[i].stall_ns > 0 {
                let mut polls = 0;
                while polls < 400 && !(STALL_COUNT[i].load(SeqCst) >= k && STALL_NOW[i].load(SeqCst) == 1) && STALL_COUNT[i].load(SeqCst) <= k {
                    sleep_ns(10_000);
                    polls += 1;
                }
                if STALL_COUNT[i].load(SeqCst) == k && STALL_NOW[i].load(SeqCst) == 1 {
                    ps[i].stall_obs |= 1; // the disposition starts while the thread sleeps in its epilogue
                }
            }
            if join {
                let (c, hsh, l) = if specs[i].join_in_print != 0 {
                    // `eprint!("{}", handle.join())`: the argument is evaluated after the macro took the print lock
                    let mut r = (0u8, 0u64, 0u32);
                    tiny_std::eprint!("{}", {
                        r = join_h(h.take().unwrap());
                        ""
                    });
                    r
                } else {
                    join_h(h.take().unwrap())
                };
                if STALL_NOW[i].load(SeqCst) == 1 {
                    ps[i].stall_obs |= 2; // join came back while the thread still sleeps in its epilogue
                }
                ps[i].join_class = c;
                ps[i].vhash = hsh;
                ps[i].vlen = l;
                ps[i].buf_join = hash_buf(ps[i].buf, specs[i].buflen as usize);
            } else {
                drop(h);
            }
        }
    };

    // phase 1: spawn in order; "drop now" and inline dispositions are carried out before the next spawn
    for i in 0..n {
        let s = &specs[i];
        let c = Clo {
            i,
            tag: s.tag,
            cdk: s.cdk,
            behave: s.behave,
            cda: s.cda,
            buf: ps[i].buf,
            buflen: if ps[i].buf == 0 { 0 } else { s.buflen as usize },
            magic: canary_magic(s.tag, epoch, i),
        };
        match spawn_spec(s.ty, c) {
            Ok(h) => handles[i] = Some(h),
            Err(e) => ps[i].spawn_errno = if e == 0 { -1 } else { e },
        }
        if s.disp == 1 {
            finish(i, &mut handles, &mut ps, false);
        } else if s.inline == 1 && s.disp != 3 {
            delay(s.pdk, s.pda);
            finish(i, &mut handles, &mut ps, s.disp == 0);
        }
    }
    // phase 2: remaining joins / drops in spec order, each after its parent delay
    for i in 0..n {
        let s = &specs[i];
        if handles[i].is_some() && s.disp != 3 {
            delay(s.pdk, s.pda);
            finish(i, &mut handles, &mut ps, s.disp == 0);
        }
    }
    // phase 3: handles kept until the end of the batch
    for i in 0..n {
        if handles[i].is_some() {
            finish(i, &mut handles, &mut ps, true);
        }
    }

    // wait until every thread of the batch is really gone (a dropped-handle thread may still be exiting)
    let mut polls = 0u32;
    let mut drained = 0u8;
    let mut left = 0u64;
    while polls < 20_000 {
        left = nthreads();
        if left == 1 {
            drained = 1;
            break;
        }
        polls += 1;
        sleep_ns(if polls < 50 { 20_000 } else { 1_000_000 });
    }

    // buffers: hash after drain, then free
    let mut buf_drain = [0u64; MAXN];
    for i in 0..n {
        let bl = specs[i].buflen as usize;
        buf_drain[i] = hash_buf(ps[i].buf, if ps[i].buf == 0 { 0 } else { bl });
        if ps[i].buf != 0 {
            unsafe { alloc::alloc::dealloc(ps[i].buf as *mut u8, Layout::from_size_align_unchecked(bl, 1)) };
        }
    }
    QUARANTINE_ON.store(0, SeqCst);
    if drained == 1 {
        quarantine_flush();
    }
    let mut canary = [0u8; MAXN];
    if drained == 1 {
        for i in 0..n {
            canary[i] = probe_canary(pipe, CANARY_ADDR[i].load(SeqCst), canary_magic(specs[i].tag, epoch, i));
        }
    }
    let (lines, anon, total) = maps_stats();
    let vm = vmsize_pages();

    // report
    o8(0x11);
    o8(n as u8);
    o8(drained);
    o8(0);
    o32(polls);
    o64(left);
    o32(MAX_ALIVE.load(SeqCst));
    o64(lines);
    o64(anon);
    o64(total);
    o64(vm);
    o64(lc0);
    o64(lb0);
    let _g = A.m.lock();
    let b = unsafe { &mut *A.book.get() };
    o64(b.live_count);
    o64(b.live_bytes);
    o32(b.double_free);
    o32(b.nonlive_free);
    o32(b.layout_mismatch);
    o32(b.alloc_dup_live);
    o32(b.log_overflow);
    o32(b.table_overflow);
    o32(b.old_freed);
    o32(b.null_allocs);
    o32(b.uaf_writes);
    o32(b.quar_overflow);
    for i in 0..n {
        o32(ps[i].spawn_errno as u32);
        o8(ps[i].join_class);
        o8(canary[i]);
        o8(WOKE[i].load(SeqCst) as u8);
        o8(ps[i].stall_obs | ((STALL_COUNT[i].load(SeqCst) as u8) << 4));
        o32(RUN[i].load(SeqCst));
        o32(TID[i].load(SeqCst));
        o64(ps[i].vhash);
        o32(ps[i].vlen);
        o32(CLOSZ[i].load(SeqCst));
        o64(ps[i].buf_join);
        o64(buf_drain[i]);
        o64(CANARY_ADDR[i].load(SeqCst));
    }
    o32(b.log_len as u32);
    for k in 0..b.log_len {
        let r = b.log[k];
        o64(r.ptr);
        o64(r.size);
        o32(r.align);
        o32(r.alloc_tid);
        o32(r.free_tid);
        o8(r.spec);
        o8(r.mismatch);
        o8(0);
        o8(0);
        o64(r.d_size);
        o32(r.d_align);
        o32(r.damage_off);
        o32(r.damage_n);
    }
}
