//! probe-env (C07): echoes what a program started through tiny-std's `_start` observes.
//!
//! stdin : records `u8 tag | u32le len | payload` until EOF:
//!   'K' a lookup key
//!   'P' peek request: u64le link-time address of the program header table, then N x u64le link-time addresses
//! stdout: records `u8 tag | u32le len | payload`, in this order
//!   'C' u64   args_os().len()
//!   'a' bytes one per element yielded by args_os() (contents without the terminator)
//!   'n' u64   number of elements args_os() yielded
//!   's' [1]+bytes | [0]   one per element yielded by args(): Ok(str) / Err
//!   'm' u64   number of elements args() yielded
//!   'i' N x (u8 op, u32le k, u32le result): the iterators used through other entry points of the Iterator
//!             protocol than a plain `next()` walk. op 0 args_os().nth(k), 1 args_os().skip(k).last(), (5..9: a begun walk continued with nth / skip / step_by)
//!             2 k x next() then last(), 3 k x next() then count(), 4 args_os().last();
//!             ops 16..20 the same for args(). result = index of the yielded element among the
//!             elements of the plain walk (by address), 0xffff_ffff for None, 0xffff_fffe for an
//!             element that is none of them; for count() the count
//!   per key:  'K' key bytes, 'u' var_unix result, 'v' var result
//!             result = [0] Missing | [1]+value bytes | [2] NotUnicode | [3] not asked (key is not UTF-8)
//!   'U' u64 get_uid, 'G' u64 get_gid, 'R' [0] | [1]+16 bytes (get_random, native endian), 'E' [0] | [1]+bytes (get_exec_fn)
//!   'X' raw bytes of /proc/self/auxv as read by the probe
//!   'r' 16 bytes the probe finds at the AT_RANDOM address of that auxv (empty when absent)
//!   'e' string the probe finds at the AT_EXECFN address of that auxv (empty record + flag: [0] | [1]+bytes)
//!   per 'P' request: 'B' u64 load base (AT_PHDR - link-time address of the program headers), then
//!             'p' N x u64: the 8-byte words found at base + address (how the start-up code left relocated slots)
//!   'T' 18 x i64: three brackets (sec, nsec each) of system call, library reading, system call again:
//!       CLOCK_MONOTONIC around MonotonicInstant::now(), CLOCK_MONOTONIC around Instant::now(),
//!       CLOCK_REALTIME around SystemTime::now()
//!   'Z' end marker
//! Values go to the wire through `rusl::unistd::write` loops directly from the memory the API returned.
#![no_std]
#![no_main]
extern crate alloc;

use alloc::vec::Vec;
use rusl::platform::{ClockId, OpenFlags, STDIN, STDOUT};
use rusl::string::unix_str::UnixStr;
use tiny_std::env::VarError;

const AT_RANDOM: u64 = 25;
const AT_EXECFN: u64 = 31;
const AT_PHDR: u64 = 3;

fn die(code: i32) -> ! {
    rusl::process::exit(code)
}

fn write_all(mut b: &[u8]) {
    while !b.is_empty() {
        match rusl::unistd::write(STDOUT, b) {
            Ok(0) => die(90),
            Ok(n) => b = &b[n..],
            Err(e) => {
                if e.code == Some(rusl::error::Errno::EINTR) {
                    continue;
                }
                die(91)
            }
        }
    }
}

fn rec2(tag: u8, a: &[u8], b: &[u8]) {
    let len = (a.len() + b.len()) as u32;
    let l = len.to_le_bytes();
    let hdr = [tag, l[0], l[1], l[2], l[3]];
    write_all(&hdr);
    write_all(a);
    write_all(b);
}

fn rec(tag: u8, a: &[u8]) {
    rec2(tag, a, &[]);
}

fn read_fd_to_end(fd: rusl::platform::Fd, out: &mut Vec<u8>) {
    let mut buf = [0u8; 4096];
    loop {
        match rusl::unistd::read(fd, &mut buf) {
            Ok(0) => return,
            Ok(n) => out.extend_from_slice(&buf[..n]),
            Err(e) => {
                if e.code == Some(rusl::error::Errno::EINTR) {
                    continue;
                }
                die(92)
            }
        }
    }
}

fn contents(u: &UnixStr) -> &[u8] {
    let s = u.as_slice();
    &s[..s.len() - 1]
}

#[no_mangle]
pub fn main() -> i32 {
    // ---- arguments
    let it = tiny_std::env::args_os();
    rec(b'C', &(it.len() as u64).to_le_bytes());
    let mut n = 0u64;
    for a in it {
        rec(b'a', contents(a));
        n += 1;
    }
    rec(b'n', &n.to_le_bytes());
    let mut m = 0u64;
    for a in tiny_std::env::args() {
        match a {
            Ok(s) => rec2(b's', &[1], s.as_bytes()),
            Err(_) => rec(b's', &[0]),
        }
        m += 1;
    }
    rec(b'm', &m.to_le_bytes());

    // ---- the same iterators through nth / last / skip / count
    {
        const NONE: u32 = 0xffff_ffff;
        const FOREIGN: u32 = 0xffff_fffe;
        let walk_os: Vec<usize> = tiny_std::env::args_os().map(|a| a.as_ptr() as usize).collect();
        let walk: Vec<usize> = tiny_std::env::args().map(|a| a.map(|s| s.as_ptr() as usize).unwrap_or(0)).collect();
        let idx_os = |e: Option<&UnixStr>| match e {
            None => NONE,
            Some(a) => walk_os.iter().position(|&p| p == a.as_ptr() as usize).map(|i| i as u32).unwrap_or(FOREIGN),
        };
        // args(): an element that is not UTF-8 has no address to compare; its position is found through args_os
        let idx = |e: Option<Result<&str, tiny_std::Error>>, expect_pos: &mut dyn FnMut() -> u32| match e {
            None => NONE,
            Some(Ok(s)) => walk.iter().position(|&p| p == s.as_ptr() as usize).map(|i| i as u32).unwrap_or(FOREIGN),
            Some(Err(_)) => expect_pos(),
        };
        let argc = walk_os.len();
        let mut ks: Vec<usize> = Vec::new();
        for k in [0usize, 1, 2, 3, argc.saturating_sub(2), argc.saturating_sub(1), argc, argc + 1, argc + 2] {
            if !ks.contains(&k) {
                ks.push(k);
            }
        }
        let mut out: Vec<u8> = Vec::new();
        let mut put = |op: u8, k: usize, r: u32| {
            out.push(op);
            out.extend_from_slice(&(k as u32).to_le_bytes());
            out.extend_from_slice(&r.to_le_bytes());
        };
        // an Err element (not UTF-8) of args(): reported as the marker 0xffff_fffd, the driver knows where they are
        let mut err_marker = || 0xffff_fffdu32;
        put(4, 0, idx_os(tiny_std::env::args_os().last()));
        put(20, 0, idx(tiny_std::env::args().last(), &mut err_marker));
        for &k in &ks {
            put(0, k, idx_os(tiny_std::env::args_os().nth(k)));
            put(1, k, idx_os(tiny_std::env::args_os().skip(k).last()));
            let mut it = tiny_std::env::args_os();
            for _ in 0..k {
                let _ = it.next();
            }
            put(2, k, idx_os(it.last()));
            let mut it = tiny_std::env::args_os();
            for _ in 0..k {
                let _ = it.next();
            }
            put(3, k, it.count() as u32);
            put(16, k, idx(tiny_std::env::args().nth(k), &mut err_marker));
            put(17, k, idx(tiny_std::env::args().skip(k).last(), &mut err_marker));
            let mut it = tiny_std::env::args();
            for _ in 0..k {
                let _ = it.next();
            }
            put(18, k, idx(it.last(), &mut err_marker));
            let mut it = tiny_std::env::args();
            for _ in 0..k {
                let _ = it.next();
            }
            put(19, k, it.count() as u32);
            // a walk that was begun, continued with nth / skip / step_by
            let mut it = tiny_std::env::args_os();
            let _ = it.next();
            put(5, k, idx_os(it.nth(k)));
            let mut it = tiny_std::env::args_os();
            for _ in 0..k {
                let _ = it.next();
            }
            put(6, k, idx_os(it.nth(1)));
            let mut it = tiny_std::env::args_os();
            let _ = it.next();
            put(7, k, idx_os(it.skip(k).next()));
            put(8, k, idx_os(tiny_std::env::args_os().step_by(2).take(argc + 4).nth(k)));
            let mut it = tiny_std::env::args_os();
            let _ = it.nth(k);
            put(9, k, idx_os(it.next()));
            let mut it = tiny_std::env::args();
            let _ = it.next();
            put(21, k, idx(it.nth(k), &mut err_marker));
            let mut it = tiny_std::env::args();
            for _ in 0..k {
                let _ = it.next();
            }
            put(22, k, idx(it.nth(1), &mut err_marker));
            let mut it = tiny_std::env::args();
            let _ = it.next();
            put(23, k, idx(it.skip(k).next(), &mut err_marker));
            put(24, k, idx(tiny_std::env::args().step_by(2).take(argc + 4).nth(k), &mut err_marker));
            let mut it = tiny_std::env::args();
            let _ = it.nth(k);
            put(25, k, idx(it.next(), &mut err_marker));
        }
        rec(b'i', &out);
    }

    // ---- environment lookups
    let mut input = Vec::new();
    read_fd_to_end(STDIN, &mut input);
    let mut pos = 0usize;
    while pos + 5 <= input.len() {
        let tag = input[pos];
        let len = u32::from_le_bytes([input[pos + 1], input[pos + 2], input[pos + 3], input[pos + 4]]) as usize;
        pos += 5;
        if pos + len > input.len() {
            die(93);
        }
        let key = &input[pos..pos + len];
        pos += len;
        if tag != b'K' {
            continue;
        }
        rec(b'K', key);
        let mut z = Vec::with_capacity(len + 1);
        z.extend_from_slice(key);
        z.push(0);
        if key.contains(&0) {
            // a key with a NUL inside is no UnixStr: only the &str lookup can be asked
            rec(b'u', &[3]);
        } else {
            let Ok(ukey) = UnixStr::try_from_bytes(&z) else { die(94) };
            match tiny_std::env::var_unix(ukey) {
                Ok(v) => rec2(b'u', &[1], contents(v)),
                Err(VarError::Missing) => rec(b'u', &[0]),
                Err(VarError::NotUnicode(_)) => rec(b'u', &[2]),
            }
        }
        match core::str::from_utf8(key) {
            Ok(skey) => match tiny_std::env::var(skey) {
                Ok(v) => rec2(b'v', &[1], v.as_bytes()),
                Err(VarError::Missing) => rec(b'v', &[0]),
                Err(VarError::NotUnicode(_)) => rec(b'v', &[2]),
            },
            Err(_) => rec(b'v', &[3]),
        }
    }

    // ---- aux getters (only with the `aux` feature; the minimal build says so instead)
    #[cfg(feature = "full")]
    {
        rec(b'U', &(tiny_std::elf::aux::get_uid() as u64).to_le_bytes());
        rec(b'G', &(tiny_std::elf::aux::get_gid() as u64).to_le_bytes());
        match tiny_std::elf::aux::get_random() {
            Some(r) => rec2(b'R', &[1], &r.to_ne_bytes()),
            None => rec(b'R', &[0]),
        }
        match tiny_std::elf::aux::get_exec_fn() {
            Some(e) => rec2(b'E', &[1], contents(e)),
            None => rec(b'E', &[0]),
        }
    }
    #[cfg(not(feature = "full"))]
    rec(b'M', &[]);

    // ---- the kernel's own record of the aux vector
    let mut auxv = Vec::new();
    match rusl::unistd::open(UnixStr::from_str_checked("/proc/self/auxv\0"), OpenFlags::O_RDONLY) {
        Ok(fd) => {
            read_fd_to_end(fd, &mut auxv);
            let _ = rusl::unistd::close(fd);
        }
        Err(_) => die(95),
    }
    rec(b'X', &auxv);
    let mut random_addr = 0u64;
    let mut execfn_addr = 0u64;
    let mut phdr_addr = 0u64;
    let mut i = 0;
    while i + 16 <= auxv.len() {
        let mut k = [0u8; 8];
        let mut v = [0u8; 8];
        k.copy_from_slice(&auxv[i..i + 8]);
        v.copy_from_slice(&auxv[i + 8..i + 16]);
        let (k, v) = (u64::from_ne_bytes(k), u64::from_ne_bytes(v));
        if k == 0 {
            break;
        }
        if k == AT_RANDOM {
            random_addr = v;
        } else if k == AT_EXECFN {
            execfn_addr = v;
        } else if k == AT_PHDR {
            phdr_addr = v;
        }
        i += 16;
    }
    if random_addr != 0 {
        let s = unsafe { core::slice::from_raw_parts(random_addr as *const u8, 16) };
        rec(b'r', s);
    } else {
        rec(b'r', &[]);
    }
    if execfn_addr != 0 {
        let p = execfn_addr as *const u8;
        let mut l = 0usize;
        unsafe {
            while core::ptr::read_volatile(p.add(l)) != 0 {
                l += 1;
            }
            rec2(b'e', &[1], core::slice::from_raw_parts(p, l));
        }
    } else {
        rec(b'e', &[0]);
    }

    // ---- peeks: words at link-time addresses, for the driver to compare with the relocation table
    let mut pos = 0usize;
    while pos + 5 <= input.len() {
        let tag = input[pos];
        let len = u32::from_le_bytes([input[pos + 1], input[pos + 2], input[pos + 3], input[pos + 4]]) as usize;
        pos += 5;
        let body = &input[pos..pos + len];
        pos += len;
        if tag != b'P' || len < 8 || len % 8 != 0 {
            continue;
        }
        let word = |i: usize| {
            let mut w = [0u8; 8];
            w.copy_from_slice(&body[i * 8..i * 8 + 8]);
            u64::from_le_bytes(w)
        };
        let base = phdr_addr.wrapping_sub(word(0));
        rec(b'B', &base.to_le_bytes());
        let n = len / 8 - 1;
        let mut words = Vec::with_capacity(n * 8);
        for i in 0..n {
            let addr = base.wrapping_add(word(i + 1)) as *const u64;
            let v = unsafe { core::ptr::read_volatile(addr) };
            words.extend_from_slice(&v.to_le_bytes());
        }
        rec(b'p', &words);
    }

    // ---- clocks: the (possibly vDSO) paths, each bracketed by two real system calls on the clock it stands for
    let mut vals: Vec<i64> = Vec::with_capacity(18);
    {
        let Ok(t0) = rusl::time::clock_get_time(ClockId::CLOCK_MONOTONIC) else { die(96) };
        let now = tiny_std::time::MonotonicInstant::now();
        let Ok(t1) = rusl::time::clock_get_time(ClockId::CLOCK_MONOTONIC) else { die(96) };
        let inst = now.as_instant();
        let tn: &rusl::platform::TimeSpec = inst.as_ref();
        vals.extend_from_slice(&[t0.seconds(), t0.nanoseconds(), tn.seconds(), tn.nanoseconds(), t1.seconds(), t1.nanoseconds()]);
    }
    {
        let Ok(t0) = rusl::time::clock_get_time(ClockId::CLOCK_MONOTONIC) else { die(96) };
        let inst = tiny_std::time::Instant::now();
        let Ok(t1) = rusl::time::clock_get_time(ClockId::CLOCK_MONOTONIC) else { die(96) };
        let tn: &rusl::platform::TimeSpec = inst.as_ref();
        vals.extend_from_slice(&[t0.seconds(), t0.nanoseconds(), tn.seconds(), tn.nanoseconds(), t1.seconds(), t1.nanoseconds()]);
    }
    {
        let Ok(t0) = rusl::time::clock_get_time(ClockId::CLOCK_REALTIME) else { die(96) };
        let d = tiny_std::time::SystemTime::now().duration_since_unix_time();
        let Ok(t1) = rusl::time::clock_get_time(ClockId::CLOCK_REALTIME) else { die(96) };
        vals.extend_from_slice(&[t0.seconds(), t0.nanoseconds(), d.as_secs() as i64, i64::from(d.subsec_nanos()), t1.seconds(), t1.nanoseconds()]);
    }
    let mut t = [0u8; 144];
    for (j, v) in vals.iter().enumerate() {
        t[j * 8..j * 8 + 8].copy_from_slice(&v.to_le_bytes());
    }
    rec(b'T', &t);
    rec(b'Z', &[]);
    0
}
