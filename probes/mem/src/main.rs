//! probe-mem (C08 carrier (ii)): a no-libc executable that links the REAL tiny-start mem symbols
//! (tiny-std feature `executable` => `symbols` => tiny-start/mem-symbols) under their real names.
//!
//! stdin : fixed 32-byte case records (little endian)
//!   0 op u8 | 1 salt u8 | 2 dmis u8 | 3 smis u8 | 4 n u32 | 8 delta i32 | 12 c i32 | 16 pos i32 | 20 a u8 | 21 b u8 | 22.. zero
//! stdout: per case `u32 len | i64 ret | D region bytes | S region bytes (two-arena ops only)`; len = 0 => case rejected
//!
//! ops 0..=4 call the exported C symbols directly (declared `extern "C"` here, bound by the linker to
//! tiny-start's definitions); ops 5..=10 are Rust constructs for which the compiler inserts the calls.
//! Buffers are two static arenas D and S; an operand starts at arena + 64 + misalignment, the region
//! echoed runs from the arena start to 64 bytes past the operand (red zones on both sides). Initial
//! contents: pat(salt, i) in D, pat(!salt, i) in S, written with volatile stores; the echo goes out with
//! write(2) straight from the arena.
#![no_std]
#![no_main]

extern crate tiny_std;

use rusl::platform::{STDIN, STDOUT};

extern "C" {
    fn memcpy(dest: *mut u8, src: *const u8, n: usize) -> *mut u8;
    fn memmove(dest: *mut u8, src: *const u8, n: usize) -> *mut u8;
    fn memset(s: *mut u8, c: i32, n: usize) -> *mut u8;
    fn memcmp(s1: *const u8, s2: *const u8, n: usize) -> i32;
    fn bcmp(s1: *const u8, s2: *const u8, n: usize) -> i32;
}

const RZ: usize = 64;
const MAXN: usize = 256 * 1024;
const ARENA: usize = MAXN + 4 * RZ;

#[repr(C, align(64))]
struct Arena([u8; ARENA]);
static mut D: Arena = Arena([0; ARENA]);
static mut S: Arena = Arena([0; ARENA]);

fn die(code: i32) -> ! {
    rusl::process::exit(code)
}

fn write_all(mut b: &[u8]) {
    while !b.is_empty() {
        match rusl::unistd::write(STDOUT, b) {
            Ok(0) => die(90),
            Ok(n) => b = &b[n..],
            Err(e) => {
                if e.code == Some(rusl::error::Errno::EINTR) {
                    continue;
                }
                die(91)
            }
        }
    }
}

/// Fill exactly 32 bytes; false at a clean EOF.
fn read_case(buf: &mut [u8; 32]) -> bool {
    let mut got = 0usize;
    while got < 32 {
        match rusl::unistd::read(STDIN, &mut buf[got..]) {
            Ok(0) => {
                if got == 0 {
                    return false;
                }
                die(93)
            }
            Ok(n) => got += n,
            Err(e) => {
                if e.code == Some(rusl::error::Errno::EINTR) {
                    continue;
                }
                die(92)
            }
        }
    }
    true
}

#[inline(always)]
fn pat(salt: u8, i: usize) -> u8 {
    ((i.wrapping_mul(131).wrapping_add((i >> 7).wrapping_mul(17))) as u8) ^ salt
}

unsafe fn fill_pat(p: *mut u8, len: usize, salt: u8) {
    let mut i = 0;
    while i < len {
        p.add(i).write_volatile(pat(salt, i));
        i += 1;
    }
}

#[derive(Clone, Copy)]
#[repr(C)]
struct Big<const N: usize> {
    a: [u8; N],
}

#[inline(never)]
unsafe fn struct_copy<const N: usize>(dst: *mut u8, src: *const u8) {
    let d = &mut *(dst as *mut Big<N>);
    let s = &*(src as *const Big<N>);
    *d = *s;
}

#[inline(never)]
fn pass<const N: usize>(a: [u8; N]) -> [u8; N] {
    core::hint::black_box(a)
}

#[inline(never)]
unsafe fn array_move<const N: usize>(dst: *mut u8, src: *const u8) {
    let arr: [u8; N] = core::ptr::read(src as *const [u8; N]);
    let out = pass(arr);
    core::ptr::write(dst as *mut [u8; N], out);
}

fn le_u32(b: &[u8]) -> u32 {
    u32::from_le_bytes([b[0], b[1], b[2], b[3]])
}

#[no_mangle]
pub fn main() -> i32 {
    let mut rec = [0u8; 32];
    let d0 = core::ptr::addr_of_mut!(D) as *mut u8;
    let s0 = core::ptr::addr_of_mut!(S) as *mut u8;
    while read_case(&mut rec) {
        let op = rec[0];
        let salt = rec[1];
        let dmis = rec[2] as usize;
        let smis = rec[3] as usize;
        let n = le_u32(&rec[4..8]) as usize;
        let delta = le_u32(&rec[8..12]) as i32 as isize;
        let c = le_u32(&rec[12..16]) as i32;
        let pos = le_u32(&rec[16..20]) as i32;
        let (a, b) = (rec[20], rec[21]);
        let ad = delta.unsigned_abs();
        let one_arena = matches!(op, 1 | 2 | 8 | 9);
        let span = if matches!(op, 1 | 9) { ad + n } else { n };
        let ok = dmis < 64 && smis < 64 && span <= MAXN && match op {
            5 => matches!(n, 1024 | 2048 | 4096) && dmis == 0 && smis == 0,
            6 => matches!(n, 1024 | 1500 | 4096),
            3 | 4 | 10 => pos < n as i32,
            0..=10 => true,
            _ => false,
        };
        if !ok {
            write_all(&0u32.to_le_bytes());
            continue;
        }
        let dlen = RZ + dmis + span + RZ;
        let slen = RZ + smis + n + RZ;
        let ret: i64;
        unsafe {
            fill_pat(d0, dlen, salt);
            if !one_arena {
                fill_pat(s0, slen, !salt);
            }
            let dp = d0.add(RZ + dmis);
            let sp = s0.add(RZ + smis);
            match op {
                0 => ret = memcpy(dp, sp, n) as i64 - dp as i64,
                1 | 9 => {
                    // lower operand at dp, the other |delta| above it; delta = dest - src
                    let (dest, src) = if delta >= 0 { (dp.add(ad), dp) } else { (dp, dp.add(ad)) };
                    if op == 1 {
                        ret = memmove(dest, src, n) as i64 - dest as i64;
                    } else {
                        let sl = core::slice::from_raw_parts_mut(dp, span);
                        let (di, si) = if delta >= 0 { (ad, 0) } else { (0, ad) };
                        sl.copy_within(si..si + n, di);
                        ret = 0;
                    }
                }
                2 => ret = memset(dp, c, n) as i64 - dp as i64,
                3 | 4 | 10 => {
                    // equal operands (pattern relative to the operand start), then one differing pair
                    fill_pat(dp, n, salt ^ 0x3c);
                    fill_pat(sp, n, salt ^ 0x3c);
                    if pos >= 0 {
                        dp.add(pos as usize).write_volatile(a);
                        sp.add(pos as usize).write_volatile(b);
                    }
                    ret = match op {
                        3 => memcmp(dp, sp, n) as i64,
                        4 => bcmp(dp, sp, n) as i64,
                        _ => {
                            let x = core::slice::from_raw_parts(dp as *const u8, n);
                            let y = core::slice::from_raw_parts(sp as *const u8, n);
                            i64::from(core::hint::black_box(x) == core::hint::black_box(y))
                        }
                    };
                }
                5 => {
                    match n {
                        1024 => struct_copy::<1024>(dp, sp),
                        2048 => struct_copy::<2048>(dp, sp),
                        _ => struct_copy::<4096>(dp, sp),
                    }
                    ret = 0;
                }
                6 => {
                    match n {
                        1024 => array_move::<1024>(dp, sp),
                        1500 => array_move::<1500>(dp, sp),
                        _ => array_move::<4096>(dp, sp),
                    }
                    ret = 0;
                }
                7 => {
                    let dst = core::slice::from_raw_parts_mut(dp, n);
                    let src = core::slice::from_raw_parts(sp as *const u8, n);
                    core::hint::black_box(dst).copy_from_slice(core::hint::black_box(src));
                    ret = 0;
                }
                _ => {
                    // 8: fill
                    let dst = core::slice::from_raw_parts_mut(dp, n);
                    core::hint::black_box(dst).fill(core::hint::black_box(c as u8));
                    ret = 0;
                }
            }
            let total = 8 + dlen + if one_arena { 0 } else { slen };
            write_all(&(total as u32).to_le_bytes());
            write_all(&ret.to_le_bytes());
            write_all(core::slice::from_raw_parts(d0 as *const u8, dlen));
            if !one_arena {
                write_all(core::slice::from_raw_parts(s0 as *const u8, slen));
            }
        }
    }
    0
}
