#![no_std]
#![no_main]

#[no_mangle]
pub fn main() -> i32 {
    tiny_std::println!("probe-mem skeleton");
    0
}
