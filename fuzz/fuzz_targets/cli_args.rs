#![no_main]
// C20: bytes -> (derived shape, argument list) through the robustness oracle (no panic, error
// renders with help text, accept/reject agrees with the reference recogniser).
use arbitrary::Unstructured;
use c20::check::gen::RobCase;
use libfuzzer_sys::fuzz_target;
use vh::util::BStr;
include!("common.rs");

const WORDS: [&str; 40] = [
    "-h", "--help", "--num", "-s", "--long", "-a", "-b", "--bee", "--name", "-v", "--val", "--req", "--opt", "-f", "--many", "-n", "--tag", "--mode", "-m",
    "run", "clean", "nested", "alpha", "beta-gamma", "--jobs", "-j", "--depth", "-x", "--cnt", "0", "1", "-1", "255", "256", "fast", "slow", "", "--", "-", "x",
];

thread_local! { static ENV: c20::check::Env = c20::check::Env::new(); }

fuzz_target!(|data: &[u8]| {
    let mut u = Unstructured::new(data);
    let names = c20::check::shape_names();
    let shape = names[u.int_in_range(0..=names.len() - 1).unwrap_or(0)].to_string();
    let mut args: Vec<BStr> = Vec::new();
    while !u.is_empty() && args.len() < 12 {
        let k: u8 = u.arbitrary().unwrap_or(0);
        if k < 200 {
            args.push(BStr(WORDS[(k as usize) % WORDS.len()].as_bytes().to_vec()));
        } else {
            let n = u.int_in_range(0..=if k > 250 { 300usize } else { 12 }).unwrap_or(0);
            let mut v: Vec<u8> = Vec::with_capacity(n);
            for _ in 0..n {
                let b: u8 = u.arbitrary().unwrap_or(b'a');
                v.push(if b == 0 { b'a' } else { b });
            }
            args.push(BStr(v));
        }
    }
    let case = RobCase { shape, args };
    ENV.with(|env| {
        let r = match vh::runner::catch(|| c20::check::check_rob(env, &case)) {
            Ok(r) => r,
            Err((loc, msg)) => Err(Failure::new(format!("robust|panic|{loc}"), msg)),
        };
        if let Err(f) = r {
            if !known("C20", &f.sig) {
                report("C20", "robust", &case, &f);
            }
        }
    });
});
