#![no_main]
// C11 (and C10 through path_join): bytes -> (haystack, needle) over a small alphabet + raw bytes.
use libfuzzer_sys::fuzz_target;
include!("common.rs");

thread_local! { static BUFS: std::cell::RefCell<Option<vh::c11::Bufs>> = const { std::cell::RefCell::new(None) }; }

fn alpha(b: u8) -> u8 {
    match b % 11 { 0 | 1 | 2 => b'a', 3 | 4 => b'b', 5 | 6 => b'/', 7 => b'.', _ => if b == 0 { 1 } else { b } }
}

fuzz_target!(|data: &[u8]| {
    if data.is_empty() { return; }
    let cut = (data[0] as usize * (data.len())) >> 8;
    let rest = &data[1..];
    let cut = cut.min(rest.len());
    let h: Vec<u8> = rest[..cut].iter().map(|&b| alpha(b)).take(2000).collect();
    let n: Vec<u8> = rest[cut..].iter().map(|&b| alpha(b)).take(2000).collect();
    BUFS.with(|b| {
        let mut b = b.borrow_mut();
        let bufs = b.get_or_insert_with(vh::c11::Bufs::new);
        if let Err(f) = vh::c11::check_pair(bufs, &h, &n) {
            if !known("C11", &f.sig) {
                report("C11", "pair-rand", &vh::c11::Pair { h: vh::util::BStr(h.clone()), n: vh::util::BStr(n.clone()) }, &f);
            }
        }
        if let Err(f) = vh::c11::check_path(bufs, &h) {
            if !known("C11", &f.sig) {
                report("C11", "path-rand", &vh::c11::PathCase { p: vh::util::BStr(h.clone()) }, &f);
            }
        }
        if let Err(f) = vh::c10::check_two(&h, &n) {
            if !known("C10", &f.sig) {
                report("C10", "two-rand", &vh::c10::Two { a: vh::util::BStr(h.clone()), b: vh::util::BStr(n.clone()) }, &f);
            }
        }
    });
});
