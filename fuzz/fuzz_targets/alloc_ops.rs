#![no_main]
// C03: bytes -> malloc/calloc/realloc/free history with fault and placement plans (ASan off:
// the allocator under test owns raw mmaps).
use arbitrary::Unstructured;
use c03::check::{AOp, AllocCase};
use libfuzzer_sys::fuzz_target;
include!("common.rs");

fn size(u: &mut Unstructured) -> usize {
    let b: u8 = u.arbitrary().unwrap_or(0);
    let x: u16 = u.arbitrary().unwrap_or(0);
    match b % 10 {
        0..=2 => (8 * (1 + (x as usize % 33)) + (b as usize >> 6)).saturating_sub(1),
        3..=4 => x as usize % 301,
        5 => {
            let k = 8 + (x as u32 % 15);
            let base = if b & 16 != 0 { (1usize << k) + (1usize << (k - 1)) } else { 1usize << k };
            let d = [0usize, 1, 8, 16][(b >> 6) as usize];
            if b & 32 != 0 { base - d } else { base + d }
        }
        6 => (64usize << 10) - 64 + (x as usize % 129),
        7 => 300 + x as usize,
        8 => 70_000 + ((x as usize) << 5),
        _ => [4usize << 20, (2 << 20) - 32 + (x as usize % 64), usize::MAX, usize::MAX - 4096, isize::MAX as usize, 1usize << 47, 1 << 20][(x % 7) as usize],
    }
}

fuzz_target!(|data: &[u8]| {
    let mut u = Unstructured::new(data);
    let nf: u8 = u.int_in_range(0..=3).unwrap_or(0);
    let mmap_faults: Vec<u16> = (0..nf).map(|_| u.int_in_range(0..=11u16).unwrap_or(0)).collect();
    let nr: u8 = u.int_in_range(0..=2).unwrap_or(0);
    let mremap_faults: Vec<u16> = (0..nr).map(|_| u.int_in_range(0..=5u16).unwrap_or(0)).collect();
    let np: u8 = u.int_in_range(0..=12).unwrap_or(0);
    let placement: Vec<u8> = (0..np).map(|_| u.int_in_range(0..=2u8).unwrap_or(0)).collect();
    let mut ops = Vec::new();
    while !u.is_empty() && ops.len() < 200 {
        let k: u8 = u.arbitrary().unwrap_or(0);
        ops.push(match k % 15 {
            0..=4 => AOp::Malloc { size: size(&mut u), align_log2: (k >> 4) % 14 },
            5..=6 => AOp::Calloc { size: size(&mut u), align_log2: (k >> 4) % 14 },
            7..=9 => AOp::Realloc { slot: u.arbitrary().unwrap_or(0), size: size(&mut u) },
            _ => AOp::Free { slot: u.arbitrary().unwrap_or(0) },
        });
    }
    if ops.is_empty() { return; }
    let case = AllocCase { ops, mmap_faults, mremap_faults, placement };
    let res = match vh::runner::catch(|| c03::check::check_alloc(&case)) {
        Ok(r) => r,
        Err((loc, msg)) => Err(Failure::new(format!("history|panic|{loc}"), msg)),
    };
    if let Err(f) = res {
        if !known("C03", &f.sig) {
            report("C03", "history", &case, &f);
        }
    }
});
