#![no_main]
// C17: bytes -> ring configuration + operation history against the two-FIFO model.
use arbitrary::Unstructured;
use libfuzzer_sys::fuzz_target;
use vh::c17::{Op, RingCase};
include!("common.rs");

fn start(u: &mut Unstructured, entries: u32) -> u32 {
    let k: u32 = u.int_in_range(0..=2 * entries + 2).unwrap_or(0);
    match u.int_in_range(0..=7u8).unwrap_or(0) {
        0 => 0,
        1 => 1,
        2 => (1u32 << 31).wrapping_sub(k),
        3 => (1u32 << 31).wrapping_add(k),
        4 => u.arbitrary().unwrap_or(0),
        _ => u32::MAX - k,
    }
}

fuzz_target!(|data: &[u8]| {
    let mut u = Unstructured::new(data);
    let sq_log2: u8 = u.int_in_range(0..=3).unwrap_or(0);
    let e = 1u32 << sq_log2;
    let flags: u8 = u.arbitrary().unwrap_or(0);
    let sq_start = start(&mut u, e);
    let cq_start = start(&mut u, 2 * e);
    let mut ops = Vec::new();
    while let Ok(b) = u.arbitrary::<u8>() {
        if ops.len() >= 400 { break; }
        ops.push(match b % 16 {
            0..=3 => Op::Get,
            4..=5 => Op::Flush,
            6..=9 => Op::Reap,
            10..=12 => Op::KConsume(1 + (b >> 4) % 8),
            13 => Op::KFlags((b >> 4) % 8),
            _ => Op::KPost(1 + (b >> 4) % 9),
        });
    }
    let case = RingCase { sq_log2, cq_double: flags & 1 != 0, sqe128: flags & 6 == 6, cqe32: flags & 24 == 24, sqpoll: flags & 32 != 0, sq_start, cq_start, ops };
    let res = match vh::runner::catch(|| vh::c17::check_ring(&case)) {
        Ok(r) => r,
        Err((loc, msg)) => Err(Failure::new(format!("ring|panic|{loc}"), msg)),
    };
    if let Err(f) = res {
        if !known("C17", &f.sig) {
            report("C17", "ring", &case, &f);
        }
    }
});
