// Shared by the fuzz targets: turn an oracle failure into a libFuzzer crash AND a JSON replay file
// that `./check <ID> --replay <file>` understands.
use vh::runner::Failure;

pub fn known(prop: &str, sig: &str) -> bool {
    // same file the PBT harness reads; a known signature does not stop the campaign
    static KNOWN: std::sync::OnceLock<Vec<(String, String)>> = std::sync::OnceLock::new();
    let k = KNOWN.get_or_init(|| {
        let mut v = Vec::new();
        if let Ok(t) = std::fs::read_to_string(format!("{}/known_findings.txt", vh::runner::verif_root())) {
            for l in t.lines() {
                if let Some(rest) = l.strip_prefix("known: property=") {
                    if let Some((pid, rest)) = rest.split_once(' ') {
                        if let Some(rest) = rest.strip_prefix("sig=") {
                            let sig = rest.split_once(" what=").map(|x| x.0).unwrap_or(rest);
                            v.push((pid.to_string(), sig.trim().to_string()));
                        }
                    }
                }
            }
        }
        v
    });
    k.iter().any(|(p, s)| p == prop && (s == sig || (s.ends_with('*') && sig.starts_with(&s[..s.len() - 1]))))
}

pub fn report<C: serde::Serialize>(prop: &str, check: &str, case: &C, f: &Failure) -> ! {
    let body = serde_json::json!({"property": prop, "check": check, "case": case, "signature": f.sig, "what": f.what, "found_by": "libFuzzer"});
    let dir = format!("{}/replays/{prop}", vh::runner::verif_root());
    let _ = std::fs::create_dir_all(&dir);
    let path = format!("{dir}/fuzz-{:016x}.json", vh::runner::hash_str(&f.sig));
    let _ = std::fs::write(&path, serde_json::to_string_pretty(&body).unwrap());
    eprintln!("FUZZ-FAILURE property={prop} signature={} replay={path} what={}", f.sig, f.what);
    std::process::abort();
}
