#![no_main]
// C15: bytes -> scripted reader/writer responses + initial buffer shape, judged by the same
// trace oracles as the proptest harness.
use arbitrary::Unstructured;
use c15::check::gen::{ExactCase, ReadCase, WriteCase};
use c15::check::script::{ROp, WOp, EK};
use libfuzzer_sys::fuzz_target;
use vh::util::BStr;
include!("common.rs");

fn ek(u: &mut Unstructured) -> EK {
    match u.int_in_range(0..=8u8).unwrap_or(0) {
        0 => EK::Os(5),
        1 => EK::Os(9),
        2 => EK::Os(11),
        3 => EK::Os(12),
        4 => EK::Os(28),
        5 => EK::Os(32),
        6 => EK::Os(104),
        7 => EK::Uncat,
        _ => EK::Timeout,
    }
}

fn chunk(u: &mut Unstructured, utf8ish: bool) -> Vec<u8> {
    let n = match u.int_in_range(0..=9u8).unwrap_or(0) {
        0 => 1,
        1 => 2,
        2 => 3,
        3 => 31,
        4 => 32,
        5 => 33,
        6 => 64,
        7 => u.int_in_range(1..=300usize).unwrap_or(1),
        _ => u.int_in_range(1..=16usize).unwrap_or(1),
    };
    let mut v = Vec::with_capacity(n);
    if utf8ish {
        // pieces of multi-byte scalars, so that chunk borders fall inside code points
        let alphabet: [&[u8]; 6] = [b"a", "\u{e9}".as_bytes(), "\u{20ac}".as_bytes(), "\u{1f600}".as_bytes(), b"z", &[0xff]];
        while v.len() < n {
            let i = u.int_in_range(0..=20u8).unwrap_or(0) as usize;
            v.extend_from_slice(alphabet[if i >= 5 { i % 5 } else { i + usize::from(i == 4 && u.ratio(1u8, 8u8).unwrap_or(false)) }]);
        }
        v.truncate(n);
    } else {
        for _ in 0..n {
            v.push(u.arbitrary().unwrap_or(0));
        }
    }
    v
}

fn rscript(u: &mut Unstructured, utf8ish: bool) -> Vec<ROp> {
    let mut ops = Vec::new();
    while !u.is_empty() && ops.len() < 40 {
        ops.push(match u.int_in_range(0..=11u8).unwrap_or(0) {
            0..=6 => ROp::Data(BStr(chunk(u, utf8ish))),
            7..=8 => ROp::Eintr,
            9 => ROp::Eof,
            10 => ROp::Err(ek(u)),
            _ => ROp::Data(BStr(chunk(u, utf8ish))),
        });
    }
    ops
}

fn wscript(u: &mut Unstructured) -> Vec<WOp> {
    let mut ops = Vec::new();
    while !u.is_empty() && ops.len() < 40 {
        ops.push(match u.int_in_range(0..=9u8).unwrap_or(0) {
            0..=5 => WOp::Accept(u.int_in_range(1..=100u32).unwrap_or(1)),
            6..=7 => WOp::Eintr,
            8 => WOp::Zero,
            _ => WOp::Err(ek(u)),
        });
    }
    ops
}

fuzz_target!(|data: &[u8]| {
    let mut u = Unstructured::new(data);
    let which: u8 = u.int_in_range(0..=3).unwrap_or(0);
    let res: Result<(&str, serde_json::Value, vh::runner::CaseResult), ()> = (|| {
        Ok(match which {
            0 | 1 => {
                let utf8 = which == 1;
                let init_len = u.int_in_range(0..=40usize).map_err(|_| ())?;
                let init: Vec<u8> = (0..init_len).map(|i| b'a' + (i % 26) as u8).collect();
                let cap_extra = [0u32, 1, 31, 32, 33, 64][u.int_in_range(0..=5usize).unwrap_or(0)] + u.int_in_range(0..=2u32).unwrap_or(0);
                let c = ReadCase { init: BStr(init), cap_extra, scribble: u.arbitrary().unwrap_or(false), script: rscript(&mut u, utf8) };
                let r = vh::runner::catch(|| if utf8 { c15::check::check_read_to_string(&c) } else { c15::check::check_read_to_end(&c) });
                let r = match r {
                    Ok(r) => r,
                    Err((loc, msg)) => Err(Failure::new(format!("read|panic|{loc}"), msg)),
                };
                (if utf8 { "read-to-string" } else { "read-to-end" }, serde_json::to_value(&c).unwrap(), r)
            }
            2 => {
                let c = ExactCase { n: u.int_in_range(0..=200u32).unwrap_or(0), scribble: u.arbitrary().unwrap_or(false), script: rscript(&mut u, false) };
                let r = match vh::runner::catch(|| c15::check::check_read_exact(&c)) {
                    Ok(r) => r,
                    Err((loc, msg)) => Err(Failure::new(format!("read_exact|panic|{loc}"), msg)),
                };
                ("read-exact", serde_json::to_value(&c).unwrap(), r)
            }
            _ => {
                let n = u.int_in_range(0..=300usize).unwrap_or(0);
                let data: Vec<u8> = (0..n).map(|i| (i * 7 + 3) as u8).collect();
                let c = WriteCase { data: BStr(data), script: wscript(&mut u) };
                let r = match vh::runner::catch(|| c15::check::check_write_all(&c)) {
                    Ok(r) => r,
                    Err((loc, msg)) => Err(Failure::new(format!("write_all|panic|{loc}"), msg)),
                };
                ("write-all", serde_json::to_value(&c).unwrap(), r)
            }
        })
    })();
    if let Ok((check, case, Err(f))) = res {
        if !known("C15", &f.sig) {
            report("C15", check, &case, &f);
        }
    }
});
