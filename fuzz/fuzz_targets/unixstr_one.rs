#![no_main]
// C10: arbitrary bytes (NUL included) through every constructor and single-operand path operation.
use libfuzzer_sys::fuzz_target;
include!("common.rs");

fuzz_target!(|data: &[u8]| {
    let s: Vec<u8> = data.iter().copied().take(5000).collect();
    if let Err(f) = vh::c10::check_one(&s) {
        if !known("C10", &f.sig) {
            report("C10", "one-rand", &vh::c10::One { s: vh::util::BStr(s.clone()) }, &f);
        }
    }
});
