//! Drop-in replacement for `sc` 0.2.7 (x86_64 Linux only) used by the verification harness.
//!
//! Same public API (`syscall!`, `syscall0..6`, `nr::*`), but every call goes through
//! [`verif::dispatch`], which can log, force a return value without executing, clamp an
//! argument, or pass the call through to the kernel. With no interposer state installed on
//! the calling thread the only overhead is one thread-local pointer read plus (for
//! mmap/munmap/mremap) a few relaxed atomic adds used by the allocator footprint check.
#![allow(clippy::missing_safety_doc)]

pub mod macros;
pub mod nr;
pub mod verif;

use core::arch::asm;

#[inline(always)]
pub unsafe fn raw_syscall6(
    mut n: usize,
    a1: usize,
    a2: usize,
    a3: usize,
    a4: usize,
    a5: usize,
    a6: usize,
) -> usize {
    asm!(
        "syscall",
        inout("rax") n,
        in("rdi") a1,
        in("rsi") a2,
        in("rdx") a3,
        in("r10") a4,
        in("r8") a5,
        in("r9") a6,
        out("rcx") _,
        out("r11") _,
        options(nostack),
    );
    n
}

#[inline]
pub unsafe fn syscall0(n: usize) -> usize {
    verif::dispatch(n, [0; 6], 0)
}
#[inline]
pub unsafe fn syscall1(n: usize, a1: usize) -> usize {
    verif::dispatch(n, [a1, 0, 0, 0, 0, 0], 1)
}
#[inline]
pub unsafe fn syscall2(n: usize, a1: usize, a2: usize) -> usize {
    verif::dispatch(n, [a1, a2, 0, 0, 0, 0], 2)
}
#[inline]
pub unsafe fn syscall3(n: usize, a1: usize, a2: usize, a3: usize) -> usize {
    verif::dispatch(n, [a1, a2, a3, 0, 0, 0], 3)
}
#[inline]
pub unsafe fn syscall4(n: usize, a1: usize, a2: usize, a3: usize, a4: usize) -> usize {
    verif::dispatch(n, [a1, a2, a3, a4, 0, 0], 4)
}
#[inline]
pub unsafe fn syscall5(n: usize, a1: usize, a2: usize, a3: usize, a4: usize, a5: usize) -> usize {
    verif::dispatch(n, [a1, a2, a3, a4, a5, 0], 5)
}
#[inline]
pub unsafe fn syscall6(
    n: usize,
    a1: usize,
    a2: usize,
    a3: usize,
    a4: usize,
    a5: usize,
    a6: usize,
) -> usize {
    verif::dispatch(n, [a1, a2, a3, a4, a5, a6], 6)
}
