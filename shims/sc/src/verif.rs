//! Interposer. State is per thread (a raw pointer in a const-initialised thread local, so
//! reading it never allocates and registers no destructor: safe to use even when the code
//! under test is the process's global allocator).
use core::cell::Cell;
use core::sync::atomic::{AtomicUsize, Ordering};

use crate::nr;

#[derive(Debug, Clone, Copy, PartialEq, Eq)]
pub struct Call {
    pub nr: usize,
    pub nargs: u8,
    pub args: [usize; 6],
    pub ret: usize,
    /// false when the value was forced without entering the kernel
    pub executed: bool,
}

#[derive(Debug, Clone, Copy, PartialEq, Eq)]
pub enum Action {
    /// Return this value without executing the call.
    ForceRet(usize),
    /// Execute the call with argument `idx` replaced by `min(arg, max)`.
    ClampArg { idx: usize, max: usize },
    /// Execute the call with argument `idx` replaced by `val`.
    SetArg { idx: usize, val: usize },
    /// Execute the call, then return `ret` instead of the kernel's answer.
    ExecThenRet(usize),
    /// Execute normally (useful to shadow a later, broader rule).
    PassThrough,
    /// Do not enter the kernel: the harness function computes the return register from the
    /// arguments (and may read/write the memory they point to), e.g. a virtual-time `nanosleep`.
    Emulate(fn(&[usize; 6]) -> usize),
}

#[derive(Debug, Clone, Copy)]
pub struct Rule {
    /// syscall number to match, `None` = any
    pub nr: Option<usize>,
    /// 0-based index among the calls that match `nr` since `plan()`; `None` = every one
    pub nth: Option<usize>,
    pub action: Action,
    /// how many times the rule may fire (`usize::MAX` = unlimited)
    pub times: usize,
}

/// Panic payload raised when a forced value has been served to the same rule more than
/// `REISSUE_LIMIT` times in a row (retry-forever loop in the code under test).
#[derive(Debug)]
pub struct ReissuePanic {
    pub nr: usize,
    pub served: usize,
}

pub const REISSUE_LIMIT: usize = 64;

#[derive(Default)]
pub struct State {
    /// panic (`ReissuePanic`) once more than this many calls were intercepted since `plan()`
    /// (0 = no limit): turns a loop that issues system calls for ever into a reportable failure
    pub call_limit: usize,
    pub logging: bool,
    pub log: Vec<Call>,
    pub rules: Vec<(Rule, usize /*fired*/)>,
    /// number of calls seen per syscall nr since plan()
    pub seen: Vec<(usize, usize)>,
    pub seen_total: usize,
    pub busy: bool,
    /// set when a forced rule fired (for oracles that need "an OS refusal happened")
    pub forced_count: usize,
    /// number of MMAP/MREMAP calls that returned an error (real or forced)
    pub map_refusals: usize,
    /// optional address-hint substitution for mmap(0, ..) calls: consumed front to back
    pub mmap_hints: Vec<usize>,
    /// placement steering for mmap(0, ..) calls, consumed front to back (4 = directly above what is
    /// still mapped of the run the previous mapping belongs to, see `regions`): 1 = hint directly
    /// above the most recent successful anonymous mapping, 2 = directly below it, 3 = 8 MiB
    /// below it (non-contiguous), other = none
    /// (a hint without MAP_FIXED is only a preference: any placement is legal kernel behaviour)
    pub mmap_hint_modes: Vec<u8>,
    /// when non-empty and `mmap_hint_modes` is exhausted, this pattern repeats forever
    pub mmap_hint_cycle: Vec<u8>,
    pub mmap_hint_cycle_pos: usize,
    pub last_map: (usize, usize),
    /// what the calls seen through the interposer have mapped and not unmapped since: (start, len),
    /// unmerged, kept current through munmap and mremap (for placement mode 4)
    pub regions: Vec<(usize, usize)>,
}

thread_local! {
    static STATE: Cell<*mut State> = const { Cell::new(core::ptr::null_mut()) };
}

/// Bytes mapped / unmapped through `sc` by anything in this process (always on).
pub static MAPPED: AtomicUsize = AtomicUsize::new(0);
pub static UNMAPPED: AtomicUsize = AtomicUsize::new(0);
pub static MAP_CALLS: AtomicUsize = AtomicUsize::new(0);

#[inline]
fn is_err(v: usize) -> bool {
    v > (-4096isize) as usize
}

/// Install a fresh interposer state on this thread (idempotent).
pub fn install() {
    STATE.with(|s| {
        if s.get().is_null() {
            s.set(Box::into_raw(Box::new(State::default())));
        }
    });
}

/// Remove the interposer state from this thread.
pub fn uninstall() {
    STATE.with(|s| {
        let p = s.replace(core::ptr::null_mut());
        if !p.is_null() {
            drop(unsafe { Box::from_raw(p) });
        }
    });
}

fn with_state<R>(f: impl FnOnce(&mut State) -> R) -> R {
    install();
    STATE.with(|s| {
        let st = unsafe { &mut *s.get() };
        let was = st.busy;
        st.busy = true;
        let r = f(st);
        st.busy = was;
        r
    })
}

pub fn log_begin() {
    with_state(|s| {
        s.log.clear();
        s.logging = true;
    });
}

pub fn log_end() -> Vec<Call> {
    with_state(|s| {
        s.logging = false;
        core::mem::take(&mut s.log)
    })
}

/// Snapshot of the log so far without stopping it.
pub fn log_peek() -> Vec<Call> {
    with_state(|s| s.log.clone())
}

/// Replace the rule set and reset per-syscall counters.
pub fn plan(rules: Vec<Rule>) {
    with_state(|s| {
        s.rules = rules.into_iter().map(|r| (r, 0)).collect();
        s.seen.clear();
        s.seen_total = 0;
        s.forced_count = 0;
        s.map_refusals = 0;
        s.call_limit = 0;
    });
}

/// See `State::call_limit`; reset by the next `plan()` / `clear_plan()`.
pub fn set_call_limit(n: usize) {
    with_state(|s| s.call_limit = n);
}

pub fn clear_plan() {
    plan(Vec::new());
    with_state(|s| {
        s.mmap_hints.clear();
        s.mmap_hint_modes.clear();
        s.mmap_hint_cycle.clear();
    });
}

pub fn forced_count() -> usize {
    with_state(|s| s.forced_count)
}

pub fn map_refusals() -> usize {
    with_state(|s| s.map_refusals)
}

pub fn set_mmap_hints(h: Vec<usize>) {
    with_state(|s| s.mmap_hints = h);
}

/// Placement pattern that repeats for every mmap(0, ..) call until cleared.
pub fn set_mmap_hint_cycle(h: Vec<u8>) {
    with_state(|s| {
        s.mmap_hint_cycle = h;
        s.mmap_hint_cycle_pos = 0;
        s.last_map = (0, 0);
        s.regions.clear();
    });
}

pub fn set_mmap_hint_modes(h: Vec<u8>) {
    with_state(|s| {
        s.mmap_hint_modes = h;
        s.last_map = (0, 0);
        s.regions.clear();
    });
}

#[inline]
fn account(n: usize, args: &[usize; 6], ret: usize) {
    if n == nr::MMAP {
        if !is_err(ret) {
            MAPPED.fetch_add(args[1], Ordering::Relaxed);
            MAP_CALLS.fetch_add(1, Ordering::Relaxed);
        }
    } else if n == nr::MUNMAP {
        if !is_err(ret) {
            UNMAPPED.fetch_add(args[1], Ordering::Relaxed);
        }
    } else if n == nr::MREMAP && !is_err(ret) {
        // old_len = args[1], new_len = args[2]
        if args[2] >= args[1] {
            MAPPED.fetch_add(args[2] - args[1], Ordering::Relaxed);
        } else {
            UNMAPPED.fetch_add(args[1] - args[2], Ordering::Relaxed);
        }
    }
}

fn cut(regions: &mut Vec<(usize, usize)>, a: usize, l: usize) {
    let mut out = Vec::with_capacity(regions.len() + 1);
    for &(s, n) in regions.iter() {
        let (e, ce) = (s + n, a + l);
        if ce <= s || a >= e {
            out.push((s, n));
            continue;
        }
        if a > s {
            out.push((s, a - s));
        }
        if ce < e {
            out.push((ce, e - ce));
        }
    }
    *regions = out;
}

fn track_regions(regions: &mut Vec<(usize, usize)>, n: usize, args: &[usize; 6], ret: usize) {
    if regions.len() > 4096 {
        regions.clear(); // placement steering only: never grow without bound
    }
    if n == nr::MMAP {
        cut(regions, ret, args[1]);
        regions.push((ret, args[1]));
    } else if n == nr::MUNMAP {
        cut(regions, args[0], args[1]);
    } else if n == nr::MREMAP {
        cut(regions, args[0], args[1]);
        cut(regions, ret, args[2]);
        regions.push((ret, args[2]));
    }
}

#[inline]
unsafe fn exec(n: usize, a: &[usize; 6]) -> usize {
    crate::raw_syscall6(n, a[0], a[1], a[2], a[3], a[4], a[5])
}

#[inline]
pub unsafe fn dispatch(n: usize, args: [usize; 6], nargs: u8) -> usize {
    let p = STATE.with(|s| s.get());
    if p.is_null() || (*p).busy {
        let ret = exec(n, &args);
        account(n, &args, ret);
        return ret;
    }
    dispatch_slow(&mut *p, n, args, nargs)
}

#[inline(never)]
unsafe fn dispatch_slow(st: &mut State, n: usize, mut args: [usize; 6], nargs: u8) -> usize {
    st.busy = true;
    // per-nr counter
    let nth_for_nr = {
        let mut found = None;
        for e in st.seen.iter_mut() {
            if e.0 == n {
                found = Some(e.1);
                e.1 += 1;
                break;
            }
        }
        match found {
            Some(v) => v,
            None => {
                st.seen.push((n, 1));
                0
            }
        }
    };
    let nth_total = st.seen_total;
    st.seen_total += 1;

    let mut action = Action::PassThrough;
    let mut overflow: Option<usize> = None;
    for (rule, fired) in st.rules.iter_mut() {
        let idx = if rule.nr.is_some() { nth_for_nr } else { nth_total };
        let nr_ok = match rule.nr {
            Some(x) => x == n,
            None => true,
        };
        let nth_ok = match rule.nth {
            Some(k) => k == idx,
            None => true,
        };
        if nr_ok && nth_ok && *fired < rule.times {
            *fired += 1;
            action = rule.action;
            if matches!(rule.action, Action::ForceRet(_)) && rule.nth.is_none() && *fired > REISSUE_LIMIT && rule.times == usize::MAX - 1 {
                overflow = Some(*fired);
            }
            break;
        }
    }
    if let Some(served) = overflow {
        st.busy = false;
        std::panic::panic_any(ReissuePanic { nr: n, served });
    }
    if st.call_limit != 0 && st.seen_total > st.call_limit {
        let served = st.seen_total;
        st.call_limit = 0;
        st.busy = false;
        std::panic::panic_any(ReissuePanic { nr: n, served });
    }
    if n == nr::MMAP && args[0] == 0 && !st.mmap_hints.is_empty() {
        let h = st.mmap_hints.remove(0);
        if h != 0 {
            args[0] = h;
        }
    }
    if n == nr::MMAP && args[0] == 0 && (!st.mmap_hint_modes.is_empty() || !st.mmap_hint_cycle.is_empty()) {
        let m = if !st.mmap_hint_modes.is_empty() {
            st.mmap_hint_modes.remove(0)
        } else {
            let v = st.mmap_hint_cycle[st.mmap_hint_cycle_pos % st.mmap_hint_cycle.len()];
            st.mmap_hint_cycle_pos += 1;
            v
        };
        let (la, ll) = st.last_map;
        if la != 0 {
            if m == 4 {
                // directly above what is STILL mapped of the run of mappings the previous one belongs
                // to: after the owner has given back the tail of that run (a trim), the new mapping
                // lands exactly at the run's new end
                let mut end = 0usize;
                let mut cur = st.regions.iter().filter(|r| r.0 <= la).map(|r| *r).max_by_key(|r| r.0);
                while let Some((a, l)) = cur {
                    end = a + l;
                    cur = st.regions.iter().find(|r| r.0 == end).copied();
                }
                if end != 0 {
                    args[0] = end;
                }
            } else if m == 1 {
                args[0] = la + ll;
            } else if m == 2 && la > args[1] {
                args[0] = la - args[1];
            } else if m == 3 && la > args[1] + (8 << 20) {
                // far: leave an 8 MiB hole below the previous mapping, so the new region is NOT
                // contiguous with it (what foreign mappings next to a heap cause)
                args[0] = la - args[1] - (8 << 20);
            }
        }
    }
    let (ret, executed) = match action {
        Action::ForceRet(v) => {
            st.forced_count += 1;
            (v, false)
        }
        Action::ClampArg { idx, max } => {
            if args[idx] > max {
                args[idx] = max;
            }
            (exec(n, &args), true)
        }
        Action::SetArg { idx, val } => {
            args[idx] = val;
            (exec(n, &args), true)
        }
        Action::ExecThenRet(v) => {
            let real = exec(n, &args);
            account(n, &args, real);
            st.forced_count += 1;
            if st.logging {
                st.log.push(Call { nr: n, nargs, args, ret: real, executed: true });
            }
            st.busy = false;
            return v;
        }
        Action::PassThrough => (exec(n, &args), true),
        Action::Emulate(f) => {
            st.forced_count += 1;
            (f(&args), false)
        }
    };
    if executed {
        account(n, &args, ret);
        if n == nr::MMAP && !is_err(ret) {
            st.last_map = (ret, args[1]);
        }
        if !is_err(ret) {
            track_regions(&mut st.regions, n, &args, ret);
        }
    }
    if (n == nr::MMAP || n == nr::MREMAP) && is_err(ret) {
        st.map_refusals += 1;
    }
    if st.logging {
        st.log.push(Call { nr: n, nargs, args, ret, executed });
    }
    st.busy = false;
    ret
}

/// `-errno` as the register value the kernel would return.
#[inline]
pub const fn neg_errno(e: i32) -> usize {
    (-(e as isize)) as usize
}

/// Times value that enables the re-issue guard for an "every call" forced rule.
pub const GUARDED_FOREVER: usize = usize::MAX - 1;
