#!/usr/bin/env python3
"""Which lines of the code a property is anchored in do the generated cases of its quick tier execute?

  lib/cov.py <ID> [--tier quick] [--seed N] [--files a.rs,b.rs]

Builds the property's std harness with `-C instrument-coverage` (nightly, separate target directory
under /tmp/v-cov, removed afterwards unless --keep), runs the workers of the tier exactly as ./check
does, merges the profiles and writes /verif/coverage/<ID>.txt: per anchored file the executed share and
every line never executed (with its text). This is a generator-measurement aid ("read the distribution,
fix the generator"), not a check: nothing here decides a property. Only harnesses that link the
repository crates as libraries can be measured this way; the no-libc probes (C04-C07, parts of C03/C08/C13)
cannot (no profiler runtime without libc)."""
import glob, json, os, shutil, subprocess, sys

VERIF = os.path.dirname(os.path.dirname(os.path.abspath(__file__)))
sys.path.insert(0, os.path.join(VERIF, "lib"))
from props import PROPS  # noqa: E402

BIN = "/root/.rustup/toolchains/nightly-x86_64-unknown-linux-gnu/lib/rustlib/x86_64-unknown-linux-gnu/bin"


def main():
    pid = sys.argv[1]
    a = sys.argv[2:]
    tier, seed, files, keep = "quick", 1, None, False
    i = 0
    while i < len(a):
        if a[i] == "--tier": tier = a[i + 1]; i += 1
        elif a[i] == "--seed": seed = int(a[i + 1]); i += 1
        elif a[i] == "--files": files = a[i + 1].split(","); i += 1
        elif a[i] == "--keep": keep = True
        i += 1
    cfg = PROPS[pid]
    prop = [json.loads(l) for l in open(f"{VERIF}/properties.jsonl") if json.loads(l)["id"] == pid][0]
    if files is None:
        files = []
        for f in prop["anchors"]["files"]:
            p = os.path.join("/repo", f)
            if os.path.isdir(p):
                files += sorted(glob.glob(p + "/**/*.rs", recursive=True))
            else:
                files.append(p)
    else:
        files = [os.path.join("/repo", f) for f in files]
    root = f"/tmp/v-cov-{pid}"
    shutil.rmtree(root, ignore_errors=True)
    os.makedirs(root + "/prof"); os.makedirs(root + "/out")
    env = dict(os.environ, CARGO_NET_OFFLINE="true", VERIF_ROOT=VERIF, RUSTFLAGS="-C instrument-coverage")
    pkg, binname = cfg.get("package", "vh"), cfg.get("bin", "vh")
    tdir = "/tmp/v-cov-target"  # shared between properties (same flags), removed by --clean
    r = subprocess.run(["cargo", "+nightly", "build", "--offline", "-q", "-p", pkg, "--target-dir", tdir], cwd=f"{VERIF}/harness", env=env, stdout=subprocess.PIPE, stderr=subprocess.STDOUT)
    if r.returncode != 0:
        print(r.stdout.decode()[-3000:]); sys.exit(2)
    exe = f"{tdir}/debug/{binname}"
    n = cfg.get("workers", 8)
    env["LLVM_PROFILE_FILE"] = f"{root}/prof/%p-%m.profraw"
    procs = []
    for w in range(n):
        cmd = [exe, pid, "--seed", str(seed * 2), "--worker", str(w), "--nworkers", str(n), "--tier", tier, "--scale", "1", "--out", f"{root}/out/o{w}.json", "--replay-dir", f"{root}/out"]
        procs.append(subprocess.Popen(cmd, cwd=VERIF, env=env, stdout=subprocess.DEVNULL, stderr=subprocess.DEVNULL))
    rcs = [p.wait() for p in procs]
    raws = glob.glob(f"{root}/prof/*.profraw")
    subprocess.check_call([f"{BIN}/llvm-profdata", "merge", "-sparse", "-o", f"{root}/m.profdata"] + raws)
    lcov = subprocess.run([f"{BIN}/llvm-cov", "export", "-format=lcov", exe, f"-instr-profile={root}/m.profdata", "-ignore-filename-regex=/root/.cargo/|/rustc/|/verif/"], stdout=subprocess.PIPE, stderr=subprocess.DEVNULL).stdout.decode()
    os.makedirs("/tmp/v-cov-lcov", exist_ok=True)
    open(f"/tmp/v-cov-lcov/{pid}.lcov", "w").write(lcov)
    os.makedirs(f"{VERIF}/coverage", exist_ok=True)
    out = [f"# {pid}: lines of the anchored files executed by the {tier} tier (seed {seed}, {n} workers, dev profile, worker exits {sorted(set(rcs))})", ""]
    cur, da = None, {}
    per = {}
    for line in lcov.splitlines():
        if line.startswith("SF:"):
            cur = line[3:]; per[cur] = {}
        elif line.startswith("DA:") and cur:
            ln, cnt = line[3:].split(",")[:2]
            per[cur][int(ln)] = int(cnt)
    tot_l = tot_m = 0
    for f in files:
        d = per.get(f)
        if not d:
            out.append(f"## {f[6:]}: not part of the harness binary (nothing instantiated)\n")
            continue
        missed = sorted(l for l, c in d.items() if c == 0)
        tot_l += len(d); tot_m += len(missed)
        out.append(f"## {f[6:]}: {len(d) - len(missed)}/{len(d)} instrumented lines executed")
        src = open(f, errors="replace").read().splitlines()
        prev = None
        for l in missed:
            if prev is not None and l != prev + 1:
                out.append("   ...")
            out.append(f"   {l:5d}: {src[l - 1] if l - 1 < len(src) else ''}")
            prev = l
        out.append("")
    out.insert(1, f"total: {tot_l - tot_m}/{tot_l} lines")
    open(f"{VERIF}/coverage/{pid}.txt", "w").write("\n".join(out) + "\n")
    print(out[1], f"-> coverage/{pid}.txt")
    if not keep:
        shutil.rmtree(root, ignore_errors=True)


def parse(path):
    per, cur = {}, None
    for line in open(path):
        line = line.rstrip("\n")
        if line.startswith("SF:"):
            cur = line[3:]; per.setdefault(cur, {})
        elif line.startswith("DA:") and cur:
            ln, cnt = line[3:].split(",")[:2]
            per[cur][int(ln)] = per[cur].get(int(ln), 0) + int(cnt)
    return per


def union():
    """coverage/UNION.txt: lines of the anchored files that no measured check executes."""
    props = [json.loads(l) for l in open(f"{VERIF}/properties.jsonl")]
    measured = sorted(os.path.basename(p)[:-5] for p in glob.glob("/tmp/v-cov-lcov/*.lcov"))
    tot = {}
    who = {}
    for m in measured:
        for f, d in parse(f"/tmp/v-cov-lcov/{m}.lcov").items():
            t = tot.setdefault(f, {})
            for l, c in d.items():
                t[l] = t.get(l, 0) + c
                if c:
                    who.setdefault(f, set()).add(m)
    anchored = {}
    for p in props:
        for f in p["anchors"]["files"]:
            q = os.path.join("/repo", f)
            for g in (sorted(glob.glob(q + "/**/*.rs", recursive=True)) if os.path.isdir(q) else [q]):
                anchored.setdefault(g, []).append(p["id"])
    out = [f"# Lines of the anchored files executed by no measured quick tier (measured: {' '.join(measured)}; the no-libc probe checks C04-C07 and the probe parts of C03/C08/C13 cannot be measured, the lock sources of C01/C02 run as a generated copy)", ""]
    for f in sorted(anchored):
        d = tot.get(f)
        if not d:
            out.append(f"## {f[6:]} (anchors {','.join(anchored[f])}): in no measured binary\n")
            continue
        missed = sorted(l for l, c in d.items() if c == 0)
        out.append(f"## {f[6:]} (anchors {','.join(anchored[f])}; executed by {','.join(sorted(who.get(f, [])))}): {len(d) - len(missed)}/{len(d)}")
        src = open(f, errors="replace").read().splitlines()
        prev = None
        for l in missed:
            if prev is not None and l != prev + 1:
                out.append("   ...")
            out.append(f"   {l:5d}: {src[l - 1] if l - 1 < len(src) else ''}")
            prev = l
        out.append("")
    open(f"{VERIF}/coverage/UNION.txt", "w").write("\n".join(out) + "\n")
    print(f"-> coverage/UNION.txt ({len(measured)} measured)")


if __name__ == "__main__":
    if sys.argv[1] == "--union":
        union()
    elif sys.argv[1] == "--clean":
        shutil.rmtree("/tmp/v-cov-target", ignore_errors=True)
    else:
        main()
