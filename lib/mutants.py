#!/usr/bin/env python3
"""Sensitivity runner: applies each mutant of mutants/<ID>.json to a scratch copy of the repository
(never /repo), runs the property's quick check from a scratch copy of /verif and records whether it
was caught. Usage: lib/mutants.py <ID> [name-filter]"""
import json, os, subprocess, sys, time, shutil

pid = sys.argv[1]
flt = sys.argv[2] if len(sys.argv) > 2 else None
VERIF = os.path.dirname(os.path.dirname(os.path.abspath(__file__)))
muts = json.load(open(os.path.join(VERIF, "mutants", f"{pid}.json")))
name = f"mut-{pid}"
dst = f"/tmp/v-{name}"
subprocess.check_call([os.path.join(VERIF, "lib", "scratch.sh"), name], stdout=subprocess.DEVNULL)
results = []
last_path = None
try:
    for m in muts:
        if flt and flt not in m["name"]:
            continue
        subprocess.check_call(["rsync", "-a", "--exclude", "target", "--exclude", ".git", "/repo/", f"{dst}/repo/"])
        if last_path:
            os.utime(last_path)  # rsync restored the old mtime: make cargo see the revert
        path = os.path.join(dst, "repo", m["file"])
        last_path = path
        src = open(path).read()
        if src.count(m["old"]) < 1:
            results.append({"name": m["name"], "status": "pattern-not-found"})
            print(m["name"], "PATTERN NOT FOUND", flush=True)
            continue
        src = src.replace(m["old"], m["new"], m.get("count", 1))
        open(path, "w").write(src)
        t0 = time.time()
        env = dict(os.environ)
        env.update(m.get("env", {}))
        p = subprocess.run([os.path.join(dst, "check"), pid] + m.get("args", []), stdout=subprocess.PIPE, stderr=subprocess.PIPE, env=env)
        out = p.stdout.decode("utf-8", "replace")
        sigs = [l.strip() for l in out.splitlines() if l.strip().startswith("signature:")]
        status = {0: "MISSED", 1: "caught", 2: "inconclusive/build-failed"}.get(p.returncode, f"exit {p.returncode}")
        if p.returncode == 1 and "VIOLATION property=" not in out:
            status = "exit 1 without VIOLATION line (orchestrator fault?)"
            print(p.stderr.decode("utf-8", "replace")[-1500:], flush=True)
        results.append({"name": m["name"], "status": status, "wall_s": round(time.time() - t0, 1), "signatures": sigs[:4], "expect": m.get("expect", "caught")})
        print(m["name"], status, round(time.time() - t0, 1), sigs[:2], flush=True)
        if p.returncode == 2:
            print(p.stderr.decode("utf-8", "replace")[-1500:], flush=True)
finally:
    shutil.rmtree(dst, ignore_errors=True)
outp = os.path.join(VERIF, "mutants", f"{pid}.results.json")
old = []
if flt and os.path.exists(outp):
    old = [r for r in json.load(open(outp)) if not any(r["name"] == n["name"] for n in results)]
json.dump(old + results, open(outp, "w"), indent=1)
