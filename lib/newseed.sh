#!/bin/bash
# Prepare a scratch worktree and an instantiated prompt for one more seeding sub-agent.
# usage: lib/newseed.sh <ID>   -> /tmp/wt-<ID>, /tmp/seed-prompt-<ID>.txt (prompt template: lib/seed-prompt.txt)
set -e
id=$1
V=$(cd "$(dirname "$0")/.." && pwd)
# never wipe deliverables that a queued run still needs (queue file: lines "<ID> <name>", log: "<ID> <name> done")
if [ -f /tmp/seedq-g.txt ]; then
  while read -r qid qname; do
    [ "$qid" = "$id" ] || continue
    grep -q "^$qid $qname done" /tmp/seedq-g.log 2>/dev/null || { echo "refusing: $qid $qname is still queued (its deliverables live in /tmp/seed-$id)"; exit 1; }
  done < /tmp/seedq-g.txt
fi
# ... nor while the agent this script prepared the last prompt for has not reported back (marker file, removed by hand
# when its completion notice arrives), unless FORCE=1
if [ -f /tmp/seed-busy-$id ] && [ -z "$FORCE" ]; then echo "refusing: /tmp/seed-busy-$id exists (an agent for $id is still at work)"; exit 1; fi
# ... nor a worktree in which somebody is working (uncommitted modifications), unless FORCE=1
if [ -d /tmp/wt-$id ] && [ -z "$FORCE" ] && [ -n "$(git -C /tmp/wt-$id status --porcelain 2>/dev/null | head -1)" ] && [ ! -f /tmp/seed-$id/patch.diff ]; then
  echo "refusing: /tmp/wt-$id has modifications and no delivered patch yet (an agent is probably at work); FORCE=1 overrides"; exit 1
fi
git -C /repo worktree remove --force /tmp/wt-$id 2>/dev/null || true
rm -rf /tmp/wt-$id /tmp/seed-$id
git -C /repo worktree prune
git -C /repo worktree add --detach /tmp/wt-$id HEAD >/dev/null 2>&1
python3 - "$id" "$V" <<'P'
import json,sys,os,glob
id,V=sys.argv[1],sys.argv[2]
prop=[json.loads(l) for l in open(f"{V}/properties.jsonl") if json.loads(l)["id"]==id][0]
text=json.dumps(prop,indent=1)
t=open(f"{V}/lib/seed-prompt.txt").read().replace("__WT__",f"/tmp/wt-{id}").replace("__ID__",id).replace("__PROP__",text)
prev=sorted(os.path.basename(d) for d in glob.glob(f"{V}/seeded/{id}-*"))
if prev:
    t+="\n\nEARLIER SEEDED CHANGES FOR THIS PROPERTY (yours must be in a DIFFERENT function or mechanism; the names describe them):\n"+"\n".join("  - "+p for p in prev)+"\n"
if os.path.exists("/tmp/seed-steer.txt"):
    t+="\n"+open("/tmp/seed-steer.txt").read()
open(f"/tmp/seed-prompt-{id}.txt","w").write(t)
P
touch /tmp/seed-busy-$id
echo "prepared /tmp/wt-$id and /tmp/seed-prompt-$id.txt"
