import os, subprocess, sys


def _pre(tier):
    # carrier (ii): rebuild the no-libc probe that links tiny-start's real mem symbols from the repository's current tree
    lib = os.path.dirname(os.path.dirname(os.path.abspath(__file__)))
    return subprocess.call([sys.executable, os.path.join(lib, "build_probes.py"), "probe-mem", "dyn-debug", "dyn-release", "pie-release"], stdout=subprocess.DEVNULL)


ID = "C08"
CFG = {
    "level": "exploration",
    "engine": "E1 vh + E4 probe (probe-mem)",
    "package": "c08", "bin": "c08",
    "pre": _pre,
    "profiles": ["dev", "release"], "workers": 8,
    "rule": ("Carrier (i): /repo/tiny-start/src/symbols/mem.rs is copied at every build into harness/c08/memsyms "
             "(#![no_std] #![no_builtins], #[no_mangle] stripped, bodies untouched) and called through non-inlined "
             "wrappers. Enumerated exhaustively per profile: memcpy and memmove on disjoint operands for every n in "
             "0..=40 x dest misalignment 0..=15 x src misalignment 0..=15 x both address orders; memmove inside one "
             "buffer for every n in 0..=40 x every distance dest-src in -(n+8)..=(n+8) x misalignment 0..=15; memset "
             "for every n in 0..=40 x every fill byte x misalignment 0..=15 (plus int arguments with upper bits set); "
             "memcmp/bcmp for every n in 0..=40 x every position of the first differing byte (and equal operands) x 8 "
             "ordered pairs incl. bytes >= 0x80 x misalignments 0..=15 x 0..=15; each of these also with the operand(s) "
             "ending exactly at / starting exactly after a PROT_NONE page. Sampled (proptest): n up to 1 MiB, "
             "misalignments 0..=63, overlap distances near 0, near +-n and anywhere inside, random fill/int values, "
             "random difference positions. Oracle: read_volatile/write_volatile byte-loop references applied to a "
             "model copy of every buffer, then actual and model compared byte for byte including 64-byte red zones on "
             "both sides and the source; return value == dest; memcmp sign == reference sign on unsigned bytes; bcmp "
             "zero-ness; a fault on a guard page kills the worker and is reported by the crash policy. Non-trivial = "
             "n >= 16 (word path) with a non-zero misalignment, or an overlapping memmove, or a compare with a "
             "differing byte; distinct by hash of the serialised case. "
             "Carrier (ii), sub-checks probe-exh / probe-rand (release workers): the no-libc executable probe-mem links tiny-start with "
             "mem-symbols (the real, exported memcpy/memmove/memset/memcmp/bcmp) in builds dyn-debug, dyn-release, pie-release; one probe "
             "process per build and worker is fed its share of the enumeration (memcpy n<=40 x 16 x 16 misalignments; memset n<=40 x 16 x 6 "
             "int values; memmove n<=40 x every distance -(n+8)..=(n+8) x 16; memcmp/bcmp n<=40 x 16 x 16 x difference at none/first/middle/"
             "last x 6 ordered pairs; plus compiler-inserted copies: struct assignment of 1/2/4 KiB, [u8; N] moves, copy_from_slice, fill, "
             "copy_within, slice ==), performs each on static arenas with 64-byte red zones and echoes the bytes and return value, which the "
             "driver compares with its own byte-loop reference; probe-rand: proptest lists of 1..12 cases with n up to 128 KiB. A probe that "
             "dies (unbounded recursion without #![no_builtins]) is a violation `mem-symbols|probe crashed|<mode>`."),
    "assumptions": [
        "x86_64 only",
        "carrier (i) compiles the repository text in a separate no_builtins crate of a std binary; that tiny-start itself "
        "carries #![no_builtins] and that compiler-inserted copies reach these symbols is carrier (ii)'s business (probe `mem`)",
        "reads outside an operand that do not fault are not observable and not asserted; writes outside the destination are "
        "observable up to 64 bytes on either side (red zones) or by a fault on the adjacent PROT_NONE page",
        "memcpy is only called with non-overlapping operands (overlap is undefined in C)",
    ],
    "required_classes": [
        "copy-exh:word-path-src-misaligned", "copy-exh:word-path-coaligned", "copy-exh:byte-path", "copy-exh:n=0",
        "copy-exh:dest-ends-at-guard-page", "copy-exh:src-ends-at-guard-page",
        "copy-exh:dest-starts-at-guard-page", "copy-exh:src-starts-at-guard-page",
        "move-exh:overlap-backward-word-path", "move-exh:overlap-forward-word-path", "move-exh:overlap-closer-than-a-word",
        "move-exh:adjacent", "move-exh:dest==src", "move-exh:ends-at-guard-page", "move-exh:starts-at-guard-page",
        "set-exh:word-path-unaligned-head", "set-exh:fill-high-bit", "set-exh:c-wider-than-a-byte", "set-exh:ends-at-guard-page",
        "cmp-exh:pair-with-high-bit", "cmp-exh:equal", "cmp-exh:diff-last-byte", "cmp-exh:both-end-at-guard-page",
        "copy-rand:large", "move-rand:large", "move-rand:overlap-backward-word-path", "move-rand:overlap-forward-word-path",
        "set-rand:large", "cmp-rand:large",
    ],
    "technique": "property-based testing: exhaustive small-domain enumeration plus proptest sampling against volatile byte-loop reference implementations, red zones and guard pages",
    "level_text": "exploration, with the stated small domain (n <= 40, all alignments, all overlaps, all fill bytes, all difference positions) enumerated exhaustively in both profiles",
    "level_note": "carrier (i): the repository's mem.rs compiled out of tree under no_builtins (guard pages); carrier (ii): the linked no-libc artefact probe-mem with the real tiny-start symbols and compiler-inserted calls (red zones only)",
    "timeout_quick": 600, "timeout_thorough": 3600,
}
