ID = "C16"
CFG = {
    "level": "exploration",
    "engine": "E1 vh + E2 sc shim",
    "package": "c16", "bin": "c16",
    "profiles": ["dev", "release"], "workers": 8,
    "technique": ("property-based testing (proptest): tiny_std::net streams/listeners on the harness thread against libc peers on "
                  "helper threads, EINTR injected and 'never blocks' judged through the sc interposer; fd passing into control "
                  "buffers ending at a PROT_NONE page, each case body in a forked child"),
    "rule": ("Generated cases per sub-check. stream: Unix (socket path in a per-case temp dir) or TCP (127.0.0.1 port 0) pair, one end a "
             "tiny-std stream obtained by connect or accept, the other a libc descriptor on a peer thread; payload 0..8 MiB "
             "boundary-biased (0,1,4095..4097,64Ki+-1, 208Ki(default Unix sndbuf)+-, 1Mi+-1, several MiB), writer and reader chunk "
             "sequences 1..256 KiB, peer start delay / pauses (scheduling hints), small SO_SNDBUF/SO_RCVBUF, EOF handshake; oracle: "
             "received == sent (first divergence reported), read()==0 only after the peer closed, no EAGAIN out of a blocking call. "
             "eintr: same with EINTR forced into the nth ppoll/read/write of the tiny-std side (also after a real wait). timeouts: "
             "accept_with_timeout (Unix, TCP), connect_with_timeout (listener with full accept queue), read_with_timeout, silent peer, "
             "1..80 ms: Timeout and monotonic elapsed >= limit. try: try_accept/try_connect with 0..4 pending connections, libc "
             "backlog 0..2: trace shows no waiting syscall and socket calls only on non-blocking descriptors. inprogress: TCP "
             "connection left in progress by try_connect continued by try_connect/connect_blocking, plain connect against a full "
             "accept queue while a helper accepts. order: step lists of connect/accept/close (k connects before the first accept, "
             "libc listeners with backlog 0..2, accept with nothing pending, tiny-std on either or both ends), then a token each way "
             "pairs every accepted connection with exactly one client. fdpass: 0..32 descriptors of distinct files via "
             "sendmsg/recvmsg SCM_RIGHTS, control buffer of size 0 / < / == / > CMSG_SPACE (by 1..64) ending at a guard page, "
             "pre-filled with zeroes/0xff/a stale message/noise, MsgHdrBorrow on the stack or boxed; oracle: control_messages() "
             "yields exactly what an independent cmsghdr walk over the raw control bytes finds, every descriptor fstat-identical to "
             "the one sent, none lost without MSG_CTRUNC, never fewer delivered than min(sent, (buffer length - 16) / 4) - what the kernel hands over when it is offered the whole supplied buffer -, a fault (child killed 3/3 times inside the iterator) is a violation. "
             "Non-trivial = a transfer in which the tiny-std side really went through EAGAIN->ppoll->retry (from the E2 log), an "
             "injected EINTR that was served, a call that timed out, a traced try-call, an order case with at least one connection, "
             "an fd transfer with a control buffer other than the tests' zeroed 64 bytes; distinct by hash of the serialised case."),
    "assumptions": ["x86_64 Linux, loopback only; no network faults",
                    "delays inside cases are scheduling hints for the peer thread; whether a wait happened is read from the interposer log, never inferred from time",
                    "peer-side libc calls carry a 30 s safety timeout; a case that hits it is counted as inconclusive, never as a violation",
                    "a Unix listener's queue holds backlog+1 un-accepted connections; a TCP listener with a full accept queue drops SYNs (tcp_abort_on_overflow=0)",
                    "control buffers start 8-byte aligned (as cmsg users must), so buffers whose length is not a multiple of 8 end up to 7 bytes before the guard page",
                    "the descriptor of a tiny-std listener (no AsRawFd) is taken from the interposer log of bind"],
    "required_classes": ["stream:writer-blocked", "stream:write!-blocked-on-a-full-buffer", "stream:write_all-blocked-on-a-full-buffer", "stream:reader-blocked-mid-stream", "stream:eof-only-after-close", "stream:payload>=1MiB",
                         "stream:payload~sndbuf", "stream:tcp", "stream:unix",
                         "eintr:eintr-in-ppoll", "eintr:eintr-in-ppoll-after-real-wait", "eintr:eintr-in-read", "eintr:eintr-in-write",
                         "timeouts:unix-accept", "timeouts:tcp-accept", "timeouts:tcp-connect", "timeouts:tcp-read", "timeouts:eintr-after-wait",
                         "try:try-accept-some", "try:try-accept-none", "try:try-connect-some", "try:try-connect-none-backlog-full",
                         "try:tcp-try-connect-in-progress",
                         "inprogress:plain-blocking-connect",
                         "order:accept-blocked", "order:k>=2-connects-before-first-accept", "order:backlog-0", "order:eof-on-accepted",
                         "fdpass:exact-fit-control-buffer", "fdpass:truncated-MSG_CTRUNC", "fdpass:larger-control-buffer",
                         "fdpass:smaller-control-buffer", "fdpass:zero-control-buffer"],
    "level_text": "exploration: seeded random sampling of a large case space; nothing is enumerated exhaustively",
    "level_note": ("schedules are explored only through generated stalls of the peer thread (the kernel decides the real interleaving); "
                   "the E2 log proves per case whether the EAGAIN->ppoll->retry path ran"),
    "timeout_quick": 600, "timeout_thorough": 3600,
}
