ID = "C03"
CFG = {
    "fuzz": [("alloc_ops", 600)],
    "level": "exploration",
    "engine": "E1 vh + E2 sc shim",
    "package": "c03", "bin": "c03",
    "profiles": ["dev", "release"], "workers": 8,
    "technique": "stateful property-based testing (proptest histories with injected mmap/mremap refusals and steered segment placement) against a shadow map of live blocks with fill patterns",
    "rule": ("Generated histories (<=250 ops) of malloc/calloc/realloc/free over a private Dlmalloc with boundary-biased sizes (every small-bin "
             "edge, tree-bin edges 2^k and 1.5*2^k +-{0,1,8,16}, around the 64 KiB granularity, top_foot_size and the 2 MiB trim threshold, MiB "
             "scale to 32 MiB, absurd sizes up to usize::MAX) and alignments 1..8192; fault plan = positions among the history's MMAP/MREMAP calls "
             "that the interposer answers with -ENOMEM without executing; placement plan = address hints that put new segments directly above / "
             "below the previous one. Oracle after every call: alignment, disjointness from every live block (interval map), calloc zero, fill "
             "pattern of every live block re-verified before free/realloc and every 16 ops, realloc preserves the common prefix, null only when "
             "the OS refused inside that call (or the size is unrepresentable) and then the same request without a fault succeeds; in the dev "
             "profile the port's own check_malloc_state debug assertions run on every call. Non-trivial = history with a free followed by an "
             "allocation that reuses freed memory, or with an injected refusal; distinct by hash of the serialised case."),
    "assumptions": ["x86_64 only", "blocks above 256 KiB are pattern-checked on their first/last 4 KiB, one byte per page (~512 pages above 2 MiB) and 8 interior windows",
                    "a forced -ENOMEM is what the kernel may answer to any mmap/mremap"],
    "required_classes": ["history:oom-null", "history:realloc-oom-null", "history:oversize-null", "history:reuse-of-freed-memory", "history:new-segment",
                         "history:trim-or-release-munmap", "history:realloc-in-place-grow", "history:realloc-moved", "history:placement-above", "history:placement-below",
                         "history:retry-after-oom-succeeded", "single-fault:oom-null"],
    "timeout_quick": 900, "timeout_thorough": 7200,
}
