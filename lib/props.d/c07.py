import os, subprocess, sys


def _pre(tier):
    # rebuild the no-libc probe from the repository's current tree in all six link modes
    lib = os.path.dirname(os.path.dirname(os.path.abspath(__file__)))
    return subprocess.call([sys.executable, os.path.join(lib, "build_probes.py"), "probe-env"], stdout=subprocess.DEVNULL)


ID = "C07"
CFG = {
    "level": "exploration",
    "engine": "E4 probes (no-libc executable probe-env in 3 link modes x debug/release + static PIE with REL relocations, launched with posix_spawn)",
    "package": "c07", "bin": "c07",
    "pre": _pre,
    # the code under test lives in the probe builds (debug and release of each link mode); the std driver's own
    # profile changes nothing, so one driver profile is run
    "profiles": ["release"], "workers": 8,
    "technique": "property-based testing (proptest) of a real no-libc executable: generated argv/envp/keys handed raw to posix_spawn, probe echo compared with an explicit model",
    "rule": ("Sub-check startup: argv = generated argv[0] + 0..40 arguments of 0..300 bytes (alphabet biased to A B = / - space 0x80 0xff plus "
             "random non-NUL bytes, multi-byte UTF-8 strings, empty strings, ~1 case in 13 with one argument of 64 KiB-1 / 64 KiB / 64 KiB+1 / "
             "131071 bytes = the kernel's maximum); envp = 0..40 raw entries over a pool of 20 names in which names are proper prefixes of "
             "other names (A/AB/ABC, HO/HOME/HOMEDIR, \\xc3 / \\xc3\\xa9), as name=value, name=, name (no '='), =value, empty string, name==value, raw "
             "bytes; 1..8 lookup keys (pool names or names of the case's entries, extended by 1..3 bytes, cut to a proper prefix, or absent; "
             "non-empty, no '=', no NUL). Each case runs on 3 of the 6 probe builds (chosen by the case; thorough: all 6). Oracle per build: "
             "args_os().len() == argc, yielded count == argc, every element byte-identical; args() Ok(str) iff the argument is UTF-8, same bytes; "
             "var_unix(k)/var(k) == value of the FIRST entry whose bytes before its first '=' equal k, Missing otherwise, NotUnicode (var) iff that "
             "value is not UTF-8; get_uid/get_gid == AT_UID/AT_GID of /proc/self/auxv read by the probe (and the driver's real ids), get_random == "
             "the 16 bytes at the AT_RANDOM address, get_exec_fn == string at AT_EXECFN == executed path (when the driver is root, 3 cases in 4 start the "
             "probe through fork+setgid+setuid+execve under generated ids so that AT_UID != AT_GID != 0); MonotonicInstant::now() lies between "
             "two clock_gettime(CLOCK_MONOTONIC) system calls issued before and after it; static-PIE builds: the driver reads the executable's "
             "R_X86_64_RELATIVE table and the probe echoes the word at every slot, each slot in the RELRO part (and the compiler's DW.ref.* "
             "pointers) must hold load base + addend; a probe killed by a signal / exiting non-zero / "
             "truncating its output fails the case with the build mode in the signature. Sub-checks lookup-var and lookup-var-unix: 1..5 entries, "
             "1..3 keys derived from those entries, one build, only that function's results judged (they run first; a proper-prefix mismatch "
             "they report or that is a known finding is counted, not re-reported, by startup so that the search continues behind it). "
             "Non-trivial = a key that is a proper prefix or proper extension of a present name, or a key whose name occurs twice, or a "
             "non-UTF-8 argument; distinct by hash of (argv, envp, keys)."),
    "assumptions": [
        "x86_64 Linux; the kernel copies argv/envp strings unchanged and /proc/self/auxv is the vector it put on the stack",
        "argc >= 1: an empty argv is replaced by the kernel ([\"\"]) and is therefore not generated",
        "keys are non-empty and contain neither '=' nor NUL (the domain std::env::var accepts without error)",
        "var_unix on a non-UTF-8 value of the right entry may return the bytes or NotUnicode (its doc comment is shared with var)",
        "a probe that exceeds 20 s is killed and counted inconclusive, never a violation",
        "relocation slots outside PT_GNU_RELRO (other than DW.ref.*) may be reassigned by the program and are not judged",
        "uid/gid other than the driver's own are only exercised when the driver runs as root",
    ],
    "required_classes": [
        "startup:key-is-proper-extension-of-a-name", "startup:key-is-proper-prefix-of-a-name", "startup:duplicate-name",
        "startup:entry-without-equals", "startup:empty-value", "startup:value-with-equals", "startup:non-utf8-argument",
        "startup:empty-argument", "startup:long-argument", "startup:non-utf8-value", "startup:empty-environment",
        "startup:build-dyn-debug", "startup:build-dyn-release", "startup:build-static-debug", "startup:build-static-release",
        "startup:build-pie-debug", "startup:build-pie-release", "startup:build-pierel-debug", "startup:build-minimal-features-debug", "startup:build-minimal-features-release", "startup:relocation-slots-inspected", "startup:many-arguments", "startup:large-environment",
        "lookup-var:key-is-proper-extension-of-a-name", "lookup-var-unix:key-is-proper-extension-of-a-name",
    ],
    "level_text": "exploration: seeded random sampling of (argv, envp, keys, build); no exhaustive sub-domain",
    "level_note": "every case is a real execve of the shipped start-up path; link modes and debug/release are the six probe builds, not driver profiles",
    "timeout_quick": 600, "timeout_thorough": 3600,
}
