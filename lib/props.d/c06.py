import os, subprocess, sys


def _pre(tier):
    # rebuild the no-libc probe in all six link modes from the repository's current tree
    lib = os.path.dirname(os.path.dirname(os.path.abspath(__file__)))
    return subprocess.call([sys.executable, os.path.join(lib, "build_probes.py"), "probe-threads"], stdout=subprocess.DEVNULL)


ID = "C06"
CFG = {
    "level": "exploration",
    "engine": "E4 probes (probe-threads with a counting global allocator around the repository's Dlmalloc, 3 link modes x debug/release) + E5 strace log",
    "package": "c05", "bin": "c05",
    "pre": _pre,
    "profiles": ["release"], "workers": 12,   # the driver only orchestrates; the code under test lives in the six probe builds
    "technique": ("property-based testing of a no-libc probe process: generated histories of thread batches over every (return|panic) x disposition ordering, "
                  "judged by a counting allocator (exactly-once free, layouts, who freed), per-thread stack canaries, /proc/self mapped-memory figures and a "
                  "per-tid reading of the strace log (munmap of the own stack, set_tid_address)"),
    "rule": ("A case = one probe process (quick tier: 3 of the 6 link modes by seed) fed a history of 1..5 batches of 1..64 thread specs (result type from a family "
             "of 9 incl. over-aligned and heap-owning, return|panic, delays in {0, spin 10^3..10^6, sleep <= 2 ms}, disposition join | drop now | drop after delay | "
             "drop while finishing (equal delays +- jitter) | keep until the end then join). After every batch, once /proc/self/status shows one thread: (2) no double "
             "free / free of a non-live pointer / layout mismatch / free of a baseline block, no byte of a freed block written before the last thread is gone (frees of a batch are quarantined and poisoned, the poison is verified after the drain: catches the kernel's clear-tid write and a result published into a freed join state), blocks of the batch still live = at most one block <= closure size + 16 "
             "per panicked thread out of its own spawn call; (4) the word each thread wrote on its own stack must not be readable with its value any more, VmSize and the "
             "sum of /proc/self/maps equal the baseline taken after the allocator reserve; (5) no crash, no main-thread abort, no definitive deadlock. Sub-checks fixed / fixed-min run the complete (9 result types x return|panic x 5 dispositions) matrix with and without strace and the two one-thread histories 'Vec<u8> result, handle dropped' (one per flag-race outcome). Sub-check "
             "release-strace additionally reads the strace log per tid: (1) every cloned thread unmaps exactly its own 2 MiB stack exactly once, nobody else does; "
             "(3) set_tid_address(0) is called by exactly the threads that freed their own join state (the block containing child_tidptr). "
             "Non-trivial = batch in which both outcomes of the flag race occurred (some join states freed by the handle side, some by the thread); distinct by hash of the case."),
    "assumptions": ["x86_64 only", "schedules are sampled (delays bias the exit/drop race), not owned",
                    "the allocator's own footprint is frozen by a 6 MiB free chunk pinned below a live block before the baseline is taken; growth of allocator segments "
                    "after that would be reported as mapped memory above baseline (the literal statement)",
                    "threads whose creation failed are outside the quantifier (no fault injection here)",
                    "the thread unmapping its own stack is the documented design (__clone doc comment); a munmap of a stack by another thread is reported"],
    "required_classes": ["reuse:join-state-reusable-while-the-dropped-thread-is-finishing", "release:spurious-wake-delivered-to-parked-joiner", "spurious:spurious-wake-delivered-to-parked-joiner", "release:return x join", "release:return x drop-now", "release:return x drop-after-delay", "release:return x drop-while-finishing",
                         "release:panic x join", "release:panic-with-a-message-that-cannot-be-rendered", "release:panic x drop-now", "release:panic x drop-after-delay", "release:panic x drop-while-finishing",
                         "release:both-flag-outcomes-in-one-batch", "release:panicked-thread-left-its-closure", "release:history-of-3-or-more-batches",
                         "release-strace:strace-log-judged", "release-strace:set_tid_address(0) by the thread that lost the flag race",
                         "release-strace:no set_tid_address for a thread whose handle side frees", "release-strace:stack munmaps == threads created", "fixed:strace-log-judged", "fixed:both-flag-outcomes-in-one-batch",
                         "fixed-min:flag-race: handle dropped first, thread frees the join state", "fixed-min:flag-race: thread finished first, handle frees the join state"],
    "timeout_quick": 600, "timeout_thorough": 7200,
}
