import os, subprocess

def _pre(tier):
    # the spawn scenarios execute the helper binary built by the c13 package
    h = os.path.join(os.path.dirname(os.path.dirname(os.path.dirname(os.path.abspath(__file__)))), "harness")
    env = dict(os.environ); env["CARGO_NET_OFFLINE"] = "true"
    for prof in ([], ["--release"]):
        rc = subprocess.call(["cargo", "build", "--offline", "-q", "-p", "c13", "--bin", "dumpenv"] + prof, cwd=h, env=env)
        if rc != 0:
            return rc
    return 0

ID = "C12"
CFG = {
    "level": "fault_enumeration",
    "engine": "E1 vh + E2 sc shim",
    "package": "c12", "bin": "c12",
    "pre": _pre,
    "profiles": ["dev", "release"], "workers": 8,
    "technique": "syscall fault enumeration over generated API scenarios with a descriptor-table differential oracle (/proc/self/fd before / after / after drop) and a close-log check",
    "rule": ("43 scenarios over the public descriptor-creating API (File/OpenOptions flag mixes, fs::read/read_to_string/write/copy_file, Directory open+iterate, "
             "DirEntry::open_file/open_dir, remove_dir_all, create_dir_all, UnixStream connect/try_connect, UnixListener bind/accept/try_accept/accept_with_timeout, "
             "TcpStream connect/try_connect/connect_with_timeout + TcpStreamInProgress, TcpListener bind/accept variants, Command::spawn for stdio mode mixes + wait, "
             "EpollDriver, getpwuid_r, openpty, system_random, setup_io_uring+drop, pipe/pipe2, host_name; invalid arguments: over-long and non-ASCII socket paths, "
             "missing files, missing binary). A dry run records each scenario's syscall sequence; then EVERY index j of it is forced to fail (without executing) with "
             "plausible errnos of that call (quick: first two, thorough: all); spawn scenarios additionally get child-side faults (dup3 x3, chdir, execve) inherited "
             "through fork. close/munmap are never made to fail WITHOUT executing (that would manufacture a leak); instead every close - including those issued when the returned value is dropped - is executed and then answered EINTR/EIO, as Linux may do after releasing the number: the operation must not close that number again. Oracle: descriptors open after the call minus before == those owned by the returned value; after "
             "dropping it the table is identical to before (numbers and device/inode identities); no close of a pre-existing descriptor, no close returning EBADF. "
             "Non-trivial = fault at index j >= 1 (something was already opened) or a child-side fault; distinct by (scenario, j, errno)."),
    "assumptions": ["one worker thread per process, every descriptor the harness keeps is opened before the snapshot",
                    "Stdio::RawFd ownership is undocumented: closed by spawn or left open are both accepted",
                    "errnos come from per-syscall plausible sets; a defect reachable only through another errno is missed"],
    "required_classes": ["fd-table:no-fault", "fd-table:parent-fault", "fd-table:child-fault", "fd-table:returned-descriptors", "fd-table:closed-on-the-way"],
    "timeout_quick": 900, "timeout_thorough": 3600,
}
