ID = "C19"
CFG = {
    "level": "exploration",
    "engine": "E1 vh (sc interposer used for its nanosleep call log only; nothing is forced)",
    "package": "c19", "bin": "c19",
    "profiles": ["dev", "release"], "workers": 8,
    "rule": ("Generated: (a) the full cross product of boundary values — time seconds {0,1,2,1e9,i64::MAX-2..i64::MAX}, "
             "Duration seconds {0,1,2,1e9,i64::MAX-2..i64::MAX+2,u64::MAX-2..u64::MAX}, every nanosecond field in "
             "{0,1,2,999999998,999999999} — as triples (a,b,d) for Instant and for SystemTime (exhaustive, 73500 triples "
             "each), and with a.s in {i64::MIN..i64::MIN+2,-1e9,-2,-1} for the SystemTime panic-freedom domain (117000 "
             "triples); (b) proptest triples, 2/8 independent boundary-biased, 6/8 relational (d placed so that a+d or a-d "
             "lands within 2 s of the edge, b within 2 s of a, nanoseconds summing to exactly 1 s / cancelling exactly); "
             "(c) per worker rounds of 10^4 successive MonotonicInstant::now() readings plus elapsed() brackets; (d) "
             "thread::sleep(d), d <= 30 ms, with 0..20 SIGUSR1 (handler without SA_RESTART) sent by pthread_kill to the "
             "sleeping thread at generated offsets. Values are built through the public API only "
             "(MonotonicInstant::ZERO.as_instant()+d, SystemTime::from(TimeSpec)). Oracle: exact i128 nanosecond "
             "arithmetic for t+d, t-d, t-u, duration_since, duration_since_unix_time, cmp/eq/lt, and the round trips "
             "(t+d)-d, (t+d)-t, (t-d)+d, u+(t-u), t-(t-u); every call under catch_unwind; for negative seconds only "
             "panic-freedom; for sleep only Ok and elapsed >= d (std Instant started before, stopped after the call). "
             "Non-trivial = an operation with a carry/borrow in the nanoseconds or an exact result within 2 s of a "
             "representability edge (0, i64::MAX s; i64::MIN s in the panic-freedom domain); a clock round with at least "
             "one strict increase; a sleep whose nanosleep failed with EINTR at least once (from the syscall log). "
             "Distinct by hash of the serialised case."),
    "assumptions": [
        "x86_64 Linux; relative nanosleep and std::time::Instant both run on CLOCK_MONOTONIC",
        "nanosecond fields of constructed values are normalised (0 <= n < 10^9): un-normalised TimeSpec inputs are outside the property's domain",
        "a result of t - d that is negative is expected to be None also for SystemTime (property text: None when the result is negative)",
        "Instant values are built with the operation under test (ZERO + d); a defect in that construction is reported as a defect of Instant+Duration",
        "sleep: only the lower bound is asserted; restarting nanosleep with the original duration after EINTR is not an alarm",
        "vdso feature not enabled: the clock is read through the clock_gettime syscall wrapper",
    ],
    "required_classes": [
        "instant-exh:add-carry", "instant-exh:add-carry-to-zero-nanos", "instant-exh:add-none-only-by-carry",
        "instant-exh:add-dsecs-u64max-with-carry", "instant-exh:add-dsecs-above-i64", "instant-exh:add-exactly-max",
        "instant-exh:add-exactly-max-plus-1ns", "instant-exh:sub-borrow", "instant-exh:sub-none-only-by-borrow",
        "instant-exh:sub-dsecs-u64max-with-borrow", "instant-exh:sub-exactly-zero", "instant-exh:sub-exactly-minus-1ns",
        "instant-exh:diff-borrow", "instant-exh:diff-none-negative", "instant-exh:diff-zero", "instant-exh:diff-within-2s-of-max",
        "systime-exh:add-none-only-by-carry", "systime-exh:sub-none-only-by-borrow", "systime-exh:epoch-diff",
        "instant-rand:add-some-within-2s-of-edge", "instant-rand:add-none-within-2s-of-edge", "instant-rand:add-carry-to-zero-nanos",
        "instant-rand:sub-some-within-2s-of-edge", "instant-rand:sub-none-within-2s-of-edge", "instant-rand:diff-within-2s-of-zero",
        "instant-rand:diff-same-seconds", "instant-rand:ord-equal",
        "systime-rand:add-some-within-2s-of-edge", "systime-rand:sub-none-within-2s-of-edge", "systime-rand:diff-borrow",
        "neg-exh:secs-i64min", "neg-exh:secs-difference-exceeds-i64", "neg-exh:secs-difference-i64min-with-borrow",
        "neg-exh:sub-below-i64min", "neg-exh:mixed-sign", "neg-exh:both-negative",
        "neg-rand:sub-within-2s-of-i64min", "neg-rand:add-crosses-zero-within-2s", "neg-rand:secs-difference-exceeds-i64",
        "clock:strictly-increased", "clock:readings-1e4", "clock:elapsed-past-some", "clock:elapsed-future-none",
        "sleep:interrupted-once", "sleep:interrupted-repeatedly", "sleep:uninterrupted", "sleep:interrupted-sleep-5ms-or-longer",
    ],
    "technique": "property-based testing (proptest) and boundary cross-product enumeration against an exact i128 reference model; real clock and real signals for the clock/sleep clauses",
    "level_text": "exploration: boundary cross product exhaustively enumerated, the remaining 2^64 x 10^9 domain sampled with boundary-biased and relational generators, in overflow-checking (dev) and wrapping (release) builds",
    "level_note": "not exhaustive over the domain; the sleep/clock clauses are exercised on the running kernel only",
    "timeout_quick": 600, "timeout_thorough": 3600,
}
