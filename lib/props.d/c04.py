import os, subprocess

def _pre(tier):
    # the multi-thread carrier: a std binary whose global allocator is the repository's GlobalDlMalloc
    h = os.path.join(os.path.dirname(os.path.dirname(os.path.dirname(os.path.abspath(__file__)))), "harness")
    env = dict(os.environ); env["CARGO_NET_OFFLINE"] = "true"
    for prof in ([], ["--release"]):
        rc = subprocess.call(["cargo", "build", "--offline", "-q", "-p", "galloc"] + prof, cwd=h, env=env)
        if rc != 0:
            return rc
    return 0

ID = "C04"
CFG = {
    "level": "exploration",
    "engine": "E1 vh + E2 sc shim (exact mapped/unmapped byte counters); galloc carrier for the global allocator",
    "package": "c04", "bin": "c04",
    "pre": _pre,
    "profiles": ["dev", "release"], "workers": 8,
    "technique": "metamorphic property-based testing: a generated workload repeated R times must keep the OS footprint under a bound that does not depend on R",
    "rule": ("Generated workloads W (1..200 blocks: sizes 1 B..2 MiB in four classes, alignments 1..4096, interleaved early frees, final free order "
             "forward/reverse/shuffled) repeated R times on one allocator; held = bytes mapped - unmapped by the allocator's own MMAP/MREMAP/MUNMAP calls "
             "(interposer counters), sampled after every allocation. Deciding inequality per round: peakheld_i <= 4*(round_total(W) + 1 MiB), which is "
             "independent of R. R is chosen so that losing one smallest chunk per round would cross the bound (full-sensitivity), capped by an "
             "operation budget (low-sensitivity cases are labelled). Sub-check global-mt runs 1..8 std threads through the process's global allocator = the "
             "repository's GlobalDlMalloc under its futex Mutex (binary galloc), same inequality on process-wide counters plus tag-byte integrity. "
             "Non-trivial = workload with >=2 size classes and full sensitivity (single-thread) or >=2 threads (global-mt); distinct by hash of the case."),
    "assumptions": ["the constant 4 and the 1 MiB slack are empirical (calibrated ratio recorded in evidence as max_ratio_...); the statement names none",
                    "leaks on paths that no repeated round revisits are not reachable by this relation"],
    "required_classes": ["single-thread:full-sensitivity", "single-thread:all-small", "single-thread:all-large", "single-thread:mixed-size-classes",
                         "single-thread:interleaved-frees", "global-mt:multi-thread-global-allocator"],
    "timeout_quick": 1200, "timeout_thorough": 7200,
}
