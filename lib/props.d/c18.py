ID = "C18"
CFG = {
    "level": "exploration",
    "engine": "E1 vh + E2 sc shim (syscall log across setup_io_uring / drop), real kernel",
    "package": "c18", "bin": "c18",
    "profiles": ["dev", "release"], "workers": 8,
    "technique": ("differential property-based testing (proptest batches through the ring against the same operations done by direct "
                  "system calls in a twin world, shrinking to a minimal batch list) plus an exhaustive enumeration of ring sizes x set-up "
                  "flag sets for the teardown log"),
    "level_text": "exploration (differential)",
    "level_note": ("The ring and the reference run on the same real kernel; whether a failing entry of a given opcode severs an IOSQE_IO_LINK "
                   "chain is measured once per process with raw SQEs (it is not uniform across opcodes on this kernel) and recorded in "
                   "coverage.kernel_probe."),
    "rule": ("Sub-check drop (exhaustive): every ring size 1..=32 x every set-up flag combination of {CLAMP, SQE128, CQE32, SQPOLL} the kernel "
             "accepts (probed) x {fresh ring, ring used for 5 NOP batches}; the mappings are read from the interposer log of setup_io_uring "
             "(2 ranges under IORING_FEAT_SINGLE_MMAP, else 3), the log across drop(ring) must contain exactly one munmap per range with "
             "its mapped length and exactly one close of the ring descriptor, no other munmap/close. "
             "Sub-checks fs / sock (generated; preceded by ~20 hand-written one-constructor scenarios): a case is a ring configuration and "
             "1..24 (thorough 1..120) batches; a batch is 1..4 chains, each chain 1..8 entries linked with IOSQE_IO_LINK (a 1-entry chain is "
             "an independent SQE), total <= ring size, every chain in its own lane (own directory / sockets / descriptor slots / registered "
             "buffer) so that chains, which the kernel may run concurrently, are independent. fs entries: readv/writev (1..3 iovecs, 0..300 "
             "bytes), read/write_fixed (registered buffer, registered file via IOSQE_FIXED_FILE), openat (13 flag bits, modes), close, statx "
             "(mask/flag bits), mkdirat, unlinkat(+rmdir), renameat(+NOREPLACE/EXCHANGE), timeout (relative/absolute, with/without "
             "completion count), poll_add, IOSQE_ASYNC on 15%; names from a pool of 17 (existing/missing files and dirs, symlink, file used as "
             "directory, missing parent, 256-byte component, '.', empty, trailing slash), dirfd variants {absolute, lane dir, never-open "
             "descriptor, regular file}, descriptor variants {open slots, closed slot, never-open, directory, registered, registered index out "
             "of range}. sock entries: socket (domain/type/protocol incl. unsupported), connect_unix (listener / missing path / regular file), "
             "accept_unix and accept_inet (with and without sockaddr/addr_len out-parameters), sendmsg via SendDropGuard and raw MsgHdr "
             "(1..3 iovecs, optional SCM_RIGHTS), recvmsg (with/without control buffer, DONTWAIT, PEEK), poll_add, close. "
             "World B (direct libc calls) is executed first, entry by entry; world A is submitted as one batch with the same decisions; per "
             "entry exactly one CQE with its user_data (unique per case), res == direct value / -errno (descriptor results compared by "
             "fstat type/mode/size, /proc/self/fd path relative to the world, F_GETFL/F_GETFD, SO_DOMAIN/TYPE/PROTOCOL), entries after a "
             "chain-severing failure complete with -ECANCELED, read buffers / statx fields / registered buffers / accept out-parameters / "
             "received bytes, msg_flags and passed descriptors equal, closed descriptors really closed, and at the end both directory trees "
             "equal (walk with std::fs: type, mode, content, link target) and no descriptor leaked. "
             "Sub-check soak: one ring, 200..400 (thorough 1500..4000) fs batches expanded deterministically from a generated seed. "
             "Non-trivial = some batch has >=2 different opcodes or a link chain (fs/sock/soak) or any drop case; class ring-cycled-4x marks "
             "cases with >= 4 x ring-size submissions; distinct by hash of the serialised case."),
    "assumptions": [
        "x86_64, io_uring available and permitted in the sandbox (otherwise the run is inconclusive, exit 2)",
        "the equivalent of readv/writev/read_fixed/write_fixed is preadv/pwritev/pread/pwrite at offset 0 (the constructors encode off: 0); sockets are only driven with sendmsg/recvmsg",
        "which failures sever a link chain is a property of the running kernel, measured with raw SQEs independent of the constructors: on this kernel failing statx/mkdirat/unlinkat/renameat do not, everything else (and short reads/writes) does",
        "arguments the kernel rejects at submission (empty path name, out-of-range fixed buffer) take a whole chain down in a kernel-dependent way and are only generated in single-entry chains; an empty name combined with a second error source, zero-length transfers on a directory, O_CREAT|O_DIRECTORY are not generated (the ring and the system call check in different orders)",
        "no direct equivalent exists for timeout (expected -ETIME; 0 also accepted when a completion count is given), out-of-range registered buffer (-EFAULT, or -EBADF when the descriptor is bad too) and out-of-range registered file index (-EBADF): expectations from the constructor documentation / io_uring_enter(2)",
        "poll_add: io_uring always reports POLLRDHUP, poll(2) only on request — that bit is ignored; event sets that cannot become ready are completed with POLLIN/POLLOUT by the generator",
        "a socket whose peer was closed is not used again (the hang-up becomes visible asynchronously after close, for both the ring and close(2)); data is only moved over unix stream connections, inet connections are accepted and compared but not used for traffic",
        "CQE order is not compared, completions are matched by user_data; wall-clock time is never compared (a 30 s alarm only guards against a completion that never arrives)",
        "teardown is judged only in sub-check drop; the differential sub-checks drop their rings without looking",
    ],
    "required_classes": ["peek:late-operation-needed-a-wakeup-while-completions-were-held-back", 
        # (sub-check drop is an exhaustive enumeration, reported under exhaustive_subdomain; its classes stay empty
        # for as long as every ring hits the known double-munmap finding)
        "peek:completion-ring-overflowed", "sock:abstract-unix-listener", "sock:connect-to-abstract-address-through-the-ring",
        "fs:op-readv", "fs:op-writev", "fs:op-read-fixed", "fs:op-write-fixed", "fs:op-openat", "fs:op-close", "fs:op-statx", "fs:op-mkdirat",
        "fs:op-unlinkat", "fs:op-renameat", "fs:op-timeout", "fs:op-poll-add", "fs:link-chain", "fs:chain-entries-cancelled",
        "fs:failing-entry", "fs:short-transfer", "fs:descriptor-result", "fs:independent-chains",
        "fs:registered-file", "fs:registered-buffer", "fs:iosqe-async", "fs:batch-fills-ring", "fs:ring-cycled-4x", "fs:ring-size-1",
        "fs:ring-size-32", "fs:sqe128", "fs:cqe32",
        "sock:op-socket", "sock:op-accept", "sock:op-sendmsg", "sock:op-recvmsg", "sock:op-poll-add", "sock:op-close", "sock:link-chain",
        "sock:chain-entries-cancelled", "sock:bytes-transferred", "sock:descriptor-passed", "sock:connection-accepted", "sock:accept-inet",
        "soak:ring-cycled-100x",
    ],
    "timeout_quick": 600, "timeout_thorough": 3600,
}
