ID = "C14"
CFG = {
    "level": "exploration",
    "engine": "E1 vh + E2 sc shim (short copy_file_range)",
    "package": "c14", "bin": "c14",
    "profiles": ["dev", "release"], "workers": 8,
    "technique": ("model-based stateful property testing (proptest histories of tiny_std::fs operations against a model "
                  "tree with kernel-style path resolution; std::fs / raw getdents64 through libc as independent observer)"),
    "rule": ("Per case a fresh root /tmp/verif-c14-<pid>-<worker>/r (worker chdir()s into it, removed afterwards), an initial "
             "tree built with std::fs (dirs, files of 0 B..>1 page, absolute and relative symlinks to files/dirs, fifos, names "
             "of 1..255 bytes incl. non-UTF-8, generated fan-out directories of up to 300 (quick) / 3000 (thorough) entries) "
             "and a history of <=30 operations {write, read, read_to_string, copy_file, File::copy on a fresh or already-read "
             "handle (destination absent/shorter/longer, never the source itself; kernel clamped to short copy_file_range "
             "transfers through the sc interposer), create_dir, create_dir_all, remove_file, remove_dir, remove_dir_all, rename, "
             "exists, metadata, Directory::open+read()}. Paths are described relative to the state they meet: an existing entry "
             "(optionally through a symlinked directory) + 0..4 new components, relative or absolute, trailing / repeated "
             "separators, padded to 505..520 and up to 4100 bytes by new components or by separators. After every Ok the whole "
             "root is walked with std::fs and compared with the model updated per the operation's documentation; an Err when "
             "the model says every precondition holds is a spurious-failure; where preconditions do not hold only panic-freedom "
             "(and what the statement says about every Ok) is checked. Sub-checks per family (create_dir_all, copy, write-read, "
             "remove_dir_all, readdir, rename-misc), a mixed 'history', and deterministic '<family>-shapes' enumerations. "
             "Non-trivial = some executed operation addressed a path of >=2 components or met a non-empty prior destination; "
             "distinct by hash of the serialised case."),
    "assumptions": ["x86_64 Linux, /tmp on a file system that reports d_type (ext4); run as root (no permission failures)",
                    "one worker = one single-threaded process; nothing else modifies the case root",
                    "remove_dir_all on a path whose last component is a symlink is undocumented and excluded",
                    "operations that would open a fifo (and block) are skipped; fifos occur as directory entries and inside removed trees",
                    "create_dir_all on a path that already exists completely may answer Ok or Err; only Ok is judged",
                    "permission bits / timestamps are not compared (contents, types and link targets are)"],
    "required_classes": ["create_dir_all-shapes:parent-exists", "create_dir_all-shapes:single-component", "create_dir_all-shapes:must-succeed-len>512",
                         "create_dir_all-shapes:len-510..516", "create_dir_all-shapes:len>=4000",
                         "copy-shapes:longer-destination", "copy-shapes:shorter-destination", "copy-shapes:absent-destination",
                         "copy-shapes:handle-already-read", "copy-shapes:short-copies-forced",
                         "remove_dir_all-shapes:symlink-inside-removed-tree", "remove_dir_all-shapes:fifo-inside-removed-tree",
                         "readdir-shapes:multi-buffer", "readdir-shapes:name-255", "readdir-shapes:non-utf8-name",
                         "create_dir_all:parent-exists", "create_dir_all:len>512", "copy:longer-destination", "copy:short-copies-forced",
                         "remove_dir_all:symlink-inside-removed-tree", "readdir:multi-buffer", "history:must-succeed",
                         "rename-misc:rename-non-empty-directory", "rename-misc:rename-replaces", "rename-misc:remove_file-symlink",
                         "rename-misc:remove_dir", "rename-misc:create_dir", "rename-misc:exists-false", "rename-misc:metadata-existing",
                         "write-read:write-overwrites", "write-read:read>1page", "history:symlink-inside-removed-tree", "history:multi-buffer"],
    "level_text": "exploration (model-based)",
    "level_note": "random histories + deterministic shape enumerations; not exhaustive over trees or histories",
    "timeout_quick": 600, "timeout_thorough": 3600,
}
