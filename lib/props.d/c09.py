ID = "C09"
CFG = {
    "level": "fault_enumeration",
    "engine": "E1+E2 sc shim",
    "package": "c09", "bin": "c09",
    "profiles": ["dev", "release"], "workers": 8,
    "rule": ("Enumerated, not sampled: a table with one driver per public rusl function that issues a system call "
             "(82 drivers over 81 functions; kept in sync by a source scan that lists every `pub fn` containing "
             "`syscall!` - directly or through a same-file helper - that has no driver under `uncovered_wrappers`) x "
             "forced kernel results: every errno 1..=4095 as -errno, and per result kind the success classes "
             "unit {0}, count {0,1,16,4095,4096,2^64-4097,2^63-1}, descriptor/pid {0,1,2,every 3..=133,2^31-1,2^31}, "
             "uid {..,2^32-2}, offset {0,1,16,4095,2^31,2^62}, address {0x1000,0x7fff_ffff_f000}, plus the boundary "
             "-4096 for every wrapper (execve: errors only, it never returns on success). The sc interposer serves "
             "the value without executing the call (pipe/stat*/uname/tcgetattr execute harmlessly once in the success "
             "direction so the kernel fills the memory they read back). Oracle: Err(code) iff value in [-4095,-1] and "
             "code == +errno; otherwise Ok carrying the value unchanged under the wrapper's return type (direction "
             "only where the value does not fit that type); exactly one call issued (dup2/dup3 under -EBUSY: the "
             "answers are -EBUSY x3 then 5, and either one call + Err(EBUSY) or a retry that stops at the first "
             "non-EBUSY answer is accepted); a forced value served more than 64 times is a retry-forever failure; no "
             "panic. A case is {wrapper, value}; all pairs are distinct; non-trivial = value is an error or a "
             "success value in 0..=4095 (the band that can be confused with an errno)."),
    "assumptions": [
        "x86_64 only (fork is the FORK variant; the aarch64 CLONE variant is not compiled)",
        "only calls issued through sc's syscall! macro are interposed; rusl has no other syscall path in the wrappers covered here",
        "arguments are fixed per wrapper: decoding of the return register does not depend on them in any wrapper (read from the sources)",
        "values outside the wrapper's Rust return type (descriptor 2^31, -4096) are checked for direction only",
        "exit (-> !), get_pid, clock_get_real_time, clock_get_monotonic_time (no Result) and the composite setup_io_uring (not a raw wrapper) are outside the property's domain; they are listed under table_summary.excluded",
    ],
    "required_classes": ["table:errno", "table:errno-unassigned", "table:success-zero", "table:success-confusable",
                         "table:success-large", "table:success-high-unsigned", "table:boundary-4096",
                         "table:value-compared", "table:direction-only", "table:kernel-side-effect-executed", "table:dup-ebusy"],
    "technique": "exhaustive fault enumeration: forced system-call results through the sc interposer against the decoding rule of the property",
    "level_text": "every (wrapper, kernel result) pair of the stated table is executed; the table is exhaustive over errno 1..=4095 and over the listed success classes, not over all 2^64 register values",
    "level_note": "thorough tier additionally enumerates every success value 0..=4096 and 2^k-1,2^k,2^k+1 for every non-unit wrapper, and 0..=65536 plus the unsigned values -8192..=-4096 for count/offset wrappers",
    "timeout_quick": 300, "timeout_thorough": 1800,
}
