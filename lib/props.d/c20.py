import os, subprocess, sys

def _pre(tier):
    # carrier of the real entry point: a no-libc program that calls parse_cli_args
    lib = os.path.dirname(os.path.dirname(os.path.abspath(__file__)))
    return subprocess.call([sys.executable, os.path.join(lib, "build_probes.py"), "probe-cli", "dyn-debug", "pie-release"], stdout=subprocess.DEVNULL)

ID = "C20"
CFG = {
    "fuzz": [("cli_args", 300)],
    "level": "exploration",
    "engine": "E1 vh",
    "package": "c20", "bin": "c20",
    "pre": _pre,
    "profiles": ["dev", "release"], "workers": 8,
    "rule": ("Family of 19 derived shapes (ReqOpt, Aliases, Flags, OptOpt, Rep, Mixed, Pos1, Pos2, PosOpt, Pos3, OptsAndPos, "
             "Custom, WithSub, WithOptSub, ReqWithSub, Cased, Hosty, Entry, SubMiddle; subcommand enums Cmd{Run(RunArgs),Clean,Nested(Inner{Leaf})}, "
             "Leaf{Alpha,BetaGamma(LeafOpts)}) written in the harness, derives from /repo/tiny-cli. "
             "rt: a value of the shape is generated constructively (strings with spaces, leading dashes, '=', unicode, "
             "control characters, empty, up to 10 kB; non-UTF-8 bytes for UnixStr fields; full-range integers; values equal to "
             "a word of their level's grammar are moved off it), rendered as `options positionals [command ...]` with the "
             "option occurrences in a generated permutation and a generated alias per occurrence, parsed, compared field by "
             "field. robust: valid lines with 0..3 mutations (delete/duplicate/insert/replace/swap/drop-last), help token "
             "inserted anywhere, one argument stretched to 60 B..10 kB, a valued option dangling at the end, or a soup of "
             "grammar words / near misses / numbers / random bytes; oracle: no panic, error renders as help text of a struct "
             "level on the path followed by a cause of <= 128 bytes, help request => empty cause, accept/reject and the "
             "accepted value agree with a hand-written recogniser of the declared grammar on every line that is not "
             "ambiguous under the declaration. cause-buf: every filler length 0..=200 (and 255..10000) of an echoed error "
             "text through three error sites, in 1/2/3/7 write pieces (enumerated): a cause that fits 128 bytes is reported "
             "verbatim. entry: the real entry point - a no-libc program (probes/cli, dyn-debug and pie-release) started with the "
             "generated line calls parse_cli_args::<Entry>(); differential against the in-process parse of the same struct: "
             "parsed => exit 0 and exactly that value on stdout, rejected => exit 1, nothing on stdout, stderr = the error's "
             "Display plus newline. help-text: every struct level's help names every declared word (enumerated). Arguments end at a "
             "PROT_NONE page. Non-trivial = round trip with >=2 option occurrences not in declaration order, or a rejected "
             "line whose cause overflowed the buffer, or a cause within 8 bytes of the buffer size; distinct by hash of the "
             "serialised case."),
    "assumptions": [
        "x86_64 only; the derive is exercised on the 19 shapes of the family (one compile-time instantiation each), not on generated struct declarations",
        "declared grammar = options (each single-valued option at most once, value = next argument whatever it looks like), "
        "then positionals in declaration order (an argument that is no option token and no help token fills the next free slot, "
        "also when it starts with '-': required by the round-trip clause), then at most one subcommand which owns the rest of the line",
        "lines on which readings of the declaration differ are excluded from the accept/reject comparison (still checked for "
        "panics and error rendering): a value equal to -h/--help or to an option token of its level, an option or flag given "
        "twice, an option after a positional or after a subcommand, a second subcommand, a word of an outer level inside a subcommand",
        "conversion of a field value = UTF-8 check plus core's FromStr for integers / String, the harness' own FromStr for Mode",
        "cause-buf reads 'fixed 128-byte error-cause buffer with overflow fallback' as: a cause of at most 128 bytes is "
        "reported verbatim; what replaces a longer cause is not constrained (only <= 128 bytes, renders, no panic)",
        "a non-help error inside a subcommand may carry the help of that level or of an outer level that lacks a required option",
    ],
    "required_classes": (
        ["rt:shape-" + s for s in ["ReqOpt", "Aliases", "Flags", "OptOpt", "Rep", "Mixed", "Pos1", "Pos2", "PosOpt", "Pos3",
                                   "OptsAndPos", "Custom", "WithSub", "WithOptSub", "ReqWithSub"]]
        + ["robust:shape-" + s for s in ["ReqOpt", "Aliases", "Flags", "OptOpt", "Rep", "Mixed", "Pos1", "Pos2", "PosOpt", "Pos3",
                                         "OptsAndPos", "Custom", "WithSub", "WithOptSub", "ReqWithSub"]]
        + ["rt:options-out-of-declaration-order", "rt:alias-short", "rt:alias-long", "rt:value-with-leading-dash",
           "rt:value-non-ascii", "rt:repeated-option-2+", "rt:nested-subcommand", "rt:optional-positional-absent",
           "rt:optional-positional-present", "rt:optional-subcommand-absent", "rt:long-value", "rt:empty-value",
           "robust:accepted", "robust:rejected", "robust:reference-accepts", "robust:reference-rejects",
           "robust:help-request", "robust:help-request-in-subcommand", "robust:overflow-cause",
           "robust:option-missing-value-at-end", "robust:non-utf8-arg", "robust:empty-arg", "robust:arg-1kB+",
           "robust:why-malformed-value", "robust:why-unknown-argument", "robust:why-required-missing",
           "cause-buf:exact-fit-128", "cause-buf:overflow-by-one", "cause-buf:multi-piece", "help-text:with-commands",
           "entry:entry-parsed", "entry:entry-rejected-with-help-on-stderr", "entry:build dyn-debug", "entry:build pie-release"]
    ),
    "technique": "property-based testing (proptest) against a hand-written recogniser of the declared grammar; enumerated cause-buffer boundary",
    "level_text": "exploration",
    "level_note": "sampled value assignments, permutations and argument lists over a fixed family of 15 derived shapes; the cause-buffer boundary sub-domain is enumerated",
    "timeout_quick": 600, "timeout_thorough": 3600,
}
