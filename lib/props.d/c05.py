import os, subprocess, sys


def _pre(tier):
    # rebuild the no-libc probe in all six link modes from the repository's current tree
    lib = os.path.dirname(os.path.dirname(os.path.abspath(__file__)))
    return subprocess.call([sys.executable, os.path.join(lib, "build_probes.py"), "probe-threads"], stdout=subprocess.DEVNULL)


ID = "C05"
CFG = {
    "level": "fault_enumeration",
    "engine": "E4 probes (probe-threads, 3 link modes x debug/release) + E5 strace injection",
    "package": "c05", "bin": "c05",
    "pre": _pre,
    "profiles": ["release"], "workers": 12,   # the driver only orchestrates; the code under test lives in the six probe builds
    "technique": ("property-based testing of a no-libc probe process (generated batches of thread specs, all random choices made by the driver) "
                  "against a tag-derived reference model, plus complete enumeration of single syscall failures (stack mmap, clone) by strace injection "
                  "with a definitive-deadlock watchdog"),
    "rule": ("A case = one probe process (link mode dyn|static|pie x debug|release; quick tier: 3 of the 6 by seed) fed 1..5 batches of 1..64 thread specs: "
             "result type in {(), u8, u64, [u8;3], [u8;24], [u64;512], align(64) struct, align(4096) struct, Vec<u8>}, behaviour return(tag-derived value)|panic, "
             "child pre-delay and parent pre-join delay in {0, spin 10^3..10^6, nanosleep <= 2 ms}, disposition join | keep until the end then join | drop now | "
             "drop later | drop while finishing, carried out inline or after all spawns. Oracle per spec: run counter exactly 1 once every thread is gone; "
             "join returns Some(value whose FNV-1a hash and length equal the reference for the tag) or None exactly for panicking specs; the heap buffer the "
             "closure fills hashes to the reference right after join. Sub-checks fault-min (the one-thread batch, so that its replay is minimal) and fault: on 4 fixed batches (1, 4, 6, 8 threads) every stack mmap (ENOMEM) and every "
             "clone (EAGAIN, ENOMEM) is failed once (strace -e inject=...:when=K; the log confirms which call was hit): spawn must return Err with the closure never "
             "run, or a handle whose join returns; a probe whose every thread is parked in an untimed futex(FUTEX_WAIT) twice 200 ms apart is a definitive deadlock "
             "(violation), any other overrun is inconclusive. A share of the random cases runs under strace to label join-before-finish / join-after-finish. "
             "Non-trivial = batch with >= 2 threads live at the same time and >= 1 joined non-() result; distinct by hash of the case."),
    "assumptions": ["x86_64 only (the aarch64 asm is not reachable)",
                    "a closure may use 256 KiB of stack (an eighth of the 2 MiB spawn maps per thread today; the property does not state a size): one batch of sub-check spurious does",
                    "relative timing is only biased by delays, not owned: instruction-level interleavings of the thread epilogue against join are sampled",
                    "a failing allocator mmap inside spawn is outside the quantifier (stack mmap and clone only) and is not injected",
                    "for a spawn whose creation was made to fail any Err is accepted; Ok(handle) is accepted when join returns and the closure ran at most once"],
    "required_classes": ["print-join:panicked-thread-joined-inside-a-print-statement", "reuse:join-state-reusable-while-the-dropped-thread-is-finishing", "epilogue:join-called-while-the-thread-sleeps-in-its-epilogue", "join:spurious-wake-delivered-to-parked-joiner", "spurious:spurious-wake-delivered-to-parked-joiner", "join:panic-joined-none", "join:panic-joined-none:niche-carrying-result", "join:niche-carrying-result", "join:over-aligned-result", "join:zero-sized-result", "join:4KiB-result", "join:heap-owning-result",
                         "join:two-or-more-threads-live", "join:handle-dropped", "join-strace:join-before-finish(futex wait entered)",
                         "join-strace:join-after-finish(no futex wait)", "fault:inject clone EAGAIN", "fault:inject clone ENOMEM", "fault:inject stack-mmap ENOMEM",
                         "fault:stack-mmap-failure-spawn-err", "fault:clone-failure-spawn-err", "fault-min:clone-failure-spawn-err"],
    "timeout_quick": 600, "timeout_thorough": 7200,
}
