import os, subprocess

def _pre(tier):
    # the `start` feature carrier: a no-libc probe that spawns the helper with Environment::Inherit
    v = os.path.dirname(os.path.dirname(os.path.dirname(os.path.abspath(__file__))))
    return subprocess.call([os.path.join(v, "lib", "build_probes.py"), "probe-spawn", "dyn-debug", "pie-release"], stdout=subprocess.DEVNULL)

ID = "C13"
CFG = {
    "level": "fault_enumeration",
    "engine": "E1 vh + E2 sc shim (plan inherited through fork) + helper binary dumpenv",
    "package": "c13", "bin": "c13",
    "pre": _pre,
    # same oracle source compiled against tiny-std WITHOUT the `start` feature (the property quantifies over both)
    "variants": [{"package": "c13ns", "bin": "c13ns"}],
    "profiles": ["dev", "release"], "workers": 8,
    "technique": "property-based testing with syscall fault injection on both sides of fork, differential against a helper that dumps what the child actually observes",
    "rule": ("Generated commands over the helper binary dumpenv (0..12 args incl. empty, long and non-UTF-8; environment untouched or 0..12 provided "
             "entries incl. duplicates and values with '='; cwd none/existing/missing; pgroup; uid/gid = current; stdin/stdout/stderr each in "
             "{untouched, Inherit, Null, MakePipe, RawFd}; 0..2 pre-exec closures Ok/Err(errno); program = helper / missing path / non-executable file) "
             "with one injected fault: parent side pipe2 (each of the up to 4), open(/dev/null), fork, EINTR x n or EIO on the sync-pipe read; child side "
             "(plan inherited through fork) dup2 (each), chdir, setuid, setgid, setpgid, execve, each with errnos from its plausible set. Oracle: spawn "
             "returns in exactly one process (a return in another pid writes a marker and _exits); on Ok the helper's dump equals the configuration "
             "(argv, environment block, cwd, pgid, ids, stdio identities, pipe connectivity, no descriptor beyond 0,1,2), wait = exit status, try_wait "
             "agrees; on a failing step Err carries that step's positive errno, the program did not run, no zombie and no running process is left. "
             "The same Command value is spawned a second time (when no RawFd stream and no fault is involved) and judged again; the caller's own "
             "descriptors 0/1/2 are closed around the call in a share of the cases. Non-trivial = at least one non-default knob; distinct by hash of the case."),
    "assumptions": ["uid/gid changes only to the current ids (sandbox runs as one user)", "runs twice: tiny-std with the `start` feature (binary c13) and without it (binary c13ns)", "Environment::Inherit needs the start-up code of a no-libc binary: sub-check start-probe starts the no-libc probe-spawn with a generated raw environment block and compares what the spawned helper sees",
                    "ownership of a Stdio::RawFd descriptor is undocumented: both 'closed by spawn' and 'left open' are accepted and recorded"],
    "required_classes": ["spawn:ok-dump-verified", "spawn:fail-pipe2", "spawn:fail-fork", "spawn:fail-child-dup2", "spawn:fail-child-chdir", "spawn:fail-child-closure",
                         "spawn:fail-child-execve", "spawn:sync-read-eintr", "spawn:stdio-pipe", "spawn:stdio-null", "spawn:stdio-rawfd", "spawn:env-provided", "spawn:command-reused", "spawn:command-reused-after-failed-spawn", "spawn:caller-std-fd-closed", "spawn:status-collected-by-try_wait-then-wait", "spawn:try_wait-before-wait", "start-probe:inherit-under-start", "start-probe:provided-under-start"],
    "timeout_quick": 900, "timeout_thorough": 7200,
}
