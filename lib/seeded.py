#!/usr/bin/env python3
"""Confirms a seeded property-breaking change produced by an independent sub-agent and records
whether the checks catch it.

  lib/seeded.py <PROPERTY> <name> [--checks C10,C11] [--tier quick] [--keep-worktree]

Expects /tmp/wt-<PROPERTY> (agent's worktree with the change applied) and /tmp/seed-<PROPERTY>/
{patch.diff, demo/run.sh, NOTES.md}. Steps: (1) the patch applies to /repo's HEAD in a fresh scratch
copy and builds; (2) the existing test suite passes with it; (3) the demo fails with the change and
passes without it (in the agent's worktree, via git stash); (4) each listed check is run from a scratch
copy of /verif against the patched repository copy; (5) everything is stored in
/verif/seeded/<name>/ (patch.diff, demo/, NOTES.md, meta.json). /repo itself is never touched."""
import json, os, shutil, subprocess, sys, time

VERIF = os.path.dirname(os.path.dirname(os.path.abspath(__file__)))


def sh(cmd, cwd=None, timeout=3600, env=None):
    p = subprocess.run(cmd, cwd=cwd, shell=isinstance(cmd, str), stdout=subprocess.PIPE, stderr=subprocess.STDOUT, timeout=timeout, env=env)
    return p.returncode, p.stdout.decode("utf-8", "replace")


def main():
    pid, name = sys.argv[1], sys.argv[2]
    checks = [pid]
    tier = "quick"
    keep = False
    a = sys.argv[3:]
    i = 0
    while i < len(a):
        if a[i] == "--checks":
            checks = a[i + 1].split(","); i += 1
        elif a[i] == "--tier":
            tier = a[i + 1]; i += 1
        elif a[i] == "--keep-worktree":
            keep = True
        i += 1
    recheck = "--recheck" in a
    wt, sd = f"/tmp/wt-{pid}", f"/tmp/seed-{pid}"
    if recheck:
        # only re-run the checks against the stored patch (confirmation results are kept)
        dst = os.path.join(VERIF, "seeded", name)
        meta = json.load(open(os.path.join(dst, "meta.json")))
        scratch = f"/tmp/v-seed-{name}"
        rc, out = sh([os.path.join(VERIF, "lib", "scratch.sh"), f"seed-{name}"])
        assert rc == 0, out
        rc, out = sh(f"cd {scratch}/repo && patch -p1 < {dst}/patch.diff")
        assert rc == 0, out
        for c in checks:
            t0 = time.time()
            rc, out = sh([os.path.join(scratch, "check"), c, "--tier", tier], timeout=7200)
            sigs = [l.strip()[len("signature: "):] for l in out.splitlines() if l.strip().startswith("signature:")]
            prev = meta.get("checks", {}).get(c)
            meta.setdefault("history", []).append({"check": c, "earlier_result": prev})
            meta["checks"][c] = {"exit": rc, "caught": rc == 1 and "VIOLATION property=" in out, "signatures": sigs[:6], "wall_s": round(time.time() - t0, 1), "tier": tier, "rechecked_at": time.strftime("%Y-%m-%dT%H:%M:%SZ", time.gmtime())}
            print(c, meta["checks"][c], flush=True)
        json.dump(meta, open(os.path.join(dst, "meta.json"), "w"), indent=1)
        shutil.rmtree(scratch, ignore_errors=True)
        return
    meta = {"property": pid, "name": name, "ran_at": time.strftime("%Y-%m-%dT%H:%M:%SZ", time.gmtime()), "steps": {}}
    patch = os.path.join(sd, "patch.diff")
    assert os.path.exists(patch), patch
    # (1) + (4) scratch copy with the patch applied
    scratch = f"/tmp/v-seed-{name}"
    rc, out = sh([os.path.join(VERIF, "lib", "scratch.sh"), f"seed-{name}"])
    assert rc == 0, out
    rc, out = sh(["git", "apply", "--unsafe-paths", "--directory", os.path.join(scratch, "repo"), patch], cwd="/")
    if rc != 0:
        rc, out = sh(f"cd {scratch}/repo && patch -p1 < {patch}")
    meta["steps"]["patch_applies_to_repo_head"] = rc == 0
    if rc != 0:
        print("PATCH DOES NOT APPLY", out[-2000:])
    rc, out = sh("cargo build --workspace --offline", cwd=os.path.join(scratch, "repo"))
    meta["steps"]["builds"] = rc == 0
    # (2) existing tests with the change (twice: two network tests are flaky under load)
    test_cmd = "cargo nextest run --workspace --no-fail-fast --tool-config-file pb:/w/lib/nextest.toml --profile pb --test-threads 8 --offline"
    fails = None
    for _ in range(3):
        rc, out = sh(test_cmd, cwd=os.path.join(scratch, "repo"), timeout=1800)
        fails = [l.strip() for l in out.splitlines() if l.strip().startswith(("FAIL", "TIMEOUT", "SIGABRT", "SIGSEGV"))]
        real = [f for f in fails if "send_recv_msg_with_control" not in f and "test_sleep" not in f]
        if rc == 0 or not real:
            break
    meta["steps"]["existing_tests_pass_with_change"] = (rc == 0) or not real
    meta["steps"]["existing_tests_failures_seen"] = fails
    # (3) demo with / without the change, in the agent's worktree - first moved to /repo's current HEAD so that
    # the demo is judged on the same base as the checks (fix commits may have landed since the agent started)
    head = subprocess.check_output(["git", "-C", "/repo", "rev-parse", "HEAD"]).decode().strip()
    wt_head = subprocess.check_output(["git", "-C", wt, "rev-parse", "HEAD"]).decode().strip()
    meta["steps"]["worktree_rebased_from"] = None
    # NOTE: never `git stash` here - the stash is shared by all worktrees of /repo and seeding
    # agents work in sibling worktrees concurrently. The stored patch.diff is the change.
    sh("git checkout -- .", cwd=wt)
    if head != wt_head:
        sh(["git", "checkout", "-q", "--detach", head], cwd=wt)
        meta["steps"]["worktree_rebased_from"] = wt_head[:10]
    rc, out = sh(["git", "apply", patch], cwd=wt)
    meta["steps"]["worktree_patch_applies"] = rc == 0
    demo = os.path.join(sd, "demo", "run.sh")
    if os.path.exists(demo):
        rc_with, out_with = sh(["bash", demo], cwd=os.path.join(sd, "demo"), timeout=1800)
        sh("git checkout -- .", cwd=wt)
        rc_without, out_without = sh(["bash", demo], cwd=os.path.join(sd, "demo"), timeout=1800)
        sh(["git", "apply", patch], cwd=wt)
        meta["steps"]["demo_fails_with_change"] = rc_with != 0
        meta["steps"]["demo_passes_without_change"] = rc_without == 0
        meta["steps"]["demo_tail_with_change"] = out_with[-600:]
    else:
        meta["steps"]["demo_fails_with_change"] = None
    # (4) our checks against the patched copy
    meta["checks"] = {}
    for c in checks:
        t0 = time.time()
        rc, out = sh([os.path.join(scratch, "check"), c, "--tier", tier], timeout=7200)
        sigs = [l.strip()[len("signature: "):] for l in out.splitlines() if l.strip().startswith("signature:")]
        meta["checks"][c] = {"exit": rc, "caught": rc == 1 and "VIOLATION property=" in out, "signatures": sigs[:6], "wall_s": round(time.time() - t0, 1), "tier": tier}
        print(c, meta["checks"][c], flush=True)
    # (5) store
    dst = os.path.join(VERIF, "seeded", name)
    shutil.rmtree(dst, ignore_errors=True)
    os.makedirs(dst)
    shutil.copy(patch, dst)
    if os.path.isdir(os.path.join(sd, "demo")):
        shutil.copytree(os.path.join(sd, "demo"), os.path.join(dst, "demo"), ignore=shutil.ignore_patterns("target", "*.lock~"))
    if os.path.exists(os.path.join(sd, "NOTES.md")):
        shutil.copy(os.path.join(sd, "NOTES.md"), dst)
    # build products of a demo do not belong in the repository
    for root, _dirs, files in os.walk(dst):
        for fn in files:
            fp = os.path.join(root, fn)
            if os.path.getsize(fp) > 300_000:
                os.remove(fp)
    meta["confirmed"] = all(bool(meta["steps"].get(k)) for k in ["patch_applies_to_repo_head", "builds", "existing_tests_pass_with_change", "demo_fails_with_change", "demo_passes_without_change"])
    json.dump(meta, open(os.path.join(dst, "meta.json"), "w"), indent=1)
    print("confirmed:", meta["confirmed"], {k: v for k, v in meta["steps"].items() if isinstance(v, bool)})
    shutil.rmtree(scratch, ignore_errors=True)
    if not keep:
        sh(["git", "-C", "/repo", "worktree", "remove", "--force", wt])
        shutil.rmtree(os.path.join(sd, "demo", "target"), ignore_errors=True)


if __name__ == "__main__":
    main()
