#!/bin/bash
# Sequentially confirm seeded changes: lines "<PROPERTY> <name> [extra args]" on stdin.
cd /verif || exit 2
while read -r id name rest; do
  [ -z "$id" ] && continue
  lib/seeded.py "$id" "$name" $rest > "/tmp/seeded-$id.log" 2>&1
done
