"""Per-property configuration of the orchestrator (what to build, how to fan out, what the
evidence says about generation rules). The deciding oracles live in the harness sources."""

PROPS = {}


def setup_all(build_harness):
    ok = build_harness(["dev", "release"])
    return 0 if ok else 2


PROPS["C10"] = {
    "level": "exploration",
    "profiles": ["dev", "release"],
    "workers": 8,
    "rule": ("Generated: every byte string of length 0..=5 over {NUL,/,a,b,.,0x80,0xff} through every constructor "
             "(exhaustive), every ordered pair of NUL-free strings of length 0..=3 through path_join/path_join_fmt and "
             "chained parent/file-name (exhaustive), random strings to 4 KiB, random directories of 0..40 entries with "
             "names of 1..255 bytes read back through DirEntry::file_unix_name. Oracle on raw bytes only: last byte NUL, "
             "no other NUL for NUL-free operands, len == strlen+1, fallible constructors reject exactly the "
             "unrepresentable inputs, no panic. Non-trivial = operand non-empty and representable (a value was "
             "produced); distinct by hash of the serialised case."),
    "assumptions": ["x86_64 only", "unix_lit! is compile-time: a fixed set of literals is checked, not generated"],
    "required_classes": ["one-exh:interior-nul-rejected", "one-exh:parent-root", "one-exh:trailing-separator", "dir:name-255", "dir:name-non-utf8"],
}

PROPS["C11"] = {
    "level": "exploration",
    "profiles": ["dev", "release"],
    "workers": 8,
    "rule": ("Generated: all ordered pairs of strings of length 0..=5 over {a,b,/,.} (exhaustive, 1.86M pairs per "
             "profile) through find/find_buf/match_up_to/match_up_to_str/ends_with/path_join/path_join_fmt, all strings "
             "of length 0..=7 through parent_path/path_file_name (exhaustive), random strings to 2 KiB with planted "
             "matches (middle, very end, near-miss). Operands end at a PROT_NONE page so reads past an argument fault. "
             "Oracle: naive byte-string references. Non-trivial = needle non-empty and not longer than the haystack, or "
             "a path with a separator; distinct by hash of the serialised case."),
    "assumptions": ["x86_64 only",
                    "parent_path of a path with a trailing separator / with a double slash away from the split point, and "
                    "path_file_name of a path without separator, are documented ambiguously: every documented reading is accepted"],
    "required_classes": ["pair-exh:match-at-very-end", "pair-exh:empty-needle", "pair-exh:needle-longer", "pair-rand:match-at-very-end", "path-exh:parent-is-root"],
}


# fragments: lib/props.d/<id>.py each define ID and CFG
import glob as _glob
import importlib.util as _ilu
import os as _os

for _f in sorted(_glob.glob(_os.path.join(_os.path.dirname(_os.path.abspath(__file__)), "props.d", "*.py"))):
    _spec = _ilu.spec_from_file_location("props_" + _os.path.basename(_f)[:-3], _f)
    _m = _ilu.module_from_spec(_spec)
    _spec.loader.exec_module(_m)
    PROPS[_m.ID] = _m.CFG
