"""Per-property configuration of the orchestrator (what to build, how to fan out, what the
evidence says about generation rules). The deciding oracles live in the harness sources."""

PROPS = {}


def setup_all(build_harness):
    """Build every harness package on its own (`cargo build -p <pkg>`): building the whole workspace
    in one invocation would unify cargo features across packages (galloc turns on tiny-std's
    `global-allocator`, which must not leak into the other binaries)."""
    done = set()
    for pid in sorted(PROPS):
        cfg = PROPS[pid]
        pre = cfg.get("pre")
        if pre and pre("quick") != 0:
            return 2
        pkg = cfg.get("package", "vh")
        if pkg in done:
            continue
        done.add(pkg)
        if not build_harness(cfg.get("profiles", ["dev", "release"]), pkg):
            return 2
        for v in cfg.get("variants", []):
            if not build_harness(cfg.get("profiles", ["dev", "release"]), v["package"]):
                return 2
    return 0


PROPS["C10"] = {
    "fuzz": [("unixstr_one", 240), ("unixstr_pair", 120)],
    "level": "exploration",
    "profiles": ["dev", "release"],
    "workers": 8,
    "rule": ("Generated: every byte string of length 0..=5 over {NUL,/,a,b,.,0x80,0xff} through every constructor "
             "(exhaustive), every ordered pair of NUL-free strings of length 0..=3 through path_join/path_join_fmt and "
             "chained parent/file-name, and through Clone (clone, clone_from into a longer and a shorter string, the result joined again) (exhaustive), random strings to 4 KiB, random directories of 0..40 entries with "
             "names of 1..255 bytes read back through DirEntry::file_unix_name. Oracle on raw bytes only: last byte NUL, "
             "no other NUL for NUL-free operands, len == strlen+1, fallible constructors reject exactly the "
             "unrepresentable inputs, no panic. Non-trivial = operand non-empty and representable (a value was "
             "produced); distinct by hash of the serialised case."),
    "assumptions": ["x86_64 only", "unix_lit! is compile-time: a fixed set of literals is checked, not generated"],
    "required_classes": ["one-exh:interior-nul-rejected", "one-exh:parent-root", "one-exh:trailing-separator", "dir:name-255", "dir:name-non-utf8", "two-exh:clone_from-into-a-longer-string", "two-rand:clone_from-into-a-shorter-string"],
}

PROPS["C11"] = {
    "fuzz": [("unixstr_pair", 300)],
    "level": "exploration",
    "profiles": ["dev", "release"],
    "workers": 8,
    "rule": ("Generated: all ordered pairs of strings of length 0..=5 over {a,b,/,.} (exhaustive, 1.86M pairs per "
             "profile) through find/find_buf/match_up_to/match_up_to_str/ends_with/path_join/path_join_fmt, all strings "
             "of length 0..=7 through parent_path/path_file_name (exhaustive), random strings to 2 KiB with planted "
             "matches (middle, very end, near-miss), operand pairs built around a common prefix of every length 0..=130 "
             "(exhaustive with 16 tail pairs; generated with random content and tails: equal operands, one a proper "
             "prefix of the other, a difference right at the seam). Operands end at a PROT_NONE page so reads past an argument fault. "
             "Oracle: naive byte-string references. Non-trivial = needle non-empty and not longer than the haystack, or "
             "a path with a separator; distinct by hash of the serialised case."),
    "assumptions": ["x86_64 only",
                    "parent_path of a path with a trailing separator / with a double slash away from the split point, and "
                    "path_file_name of a path without separator, are documented ambiguously: every documented reading is accepted"],
    "required_classes": ["pair-exh:match-at-very-end", "pair-exh:empty-needle", "pair-exh:needle-longer", "pair-rand:match-at-very-end", "path-exh:parent-is-root",
                         "pair-prefix:equal-operands-of-7-bytes-or-more", "pair-prefix:common-prefix-of-8-bytes-or-more", "prefix-exh:equal-operands-of-7-bytes-or-more", "pair-exh:empty-operand-made-by-from_format"],
}


PROPS["C17"] = {
    "fuzz": [("ring", 300)],
    "level": "exploration",
    "profiles": ["dev", "release"],
    "workers": 8,
    "engine": "E1 vh + hook (rusl feature verif-hooks)",
    "technique": "model-based property testing (proptest histories against a two-FIFO reference model with a simulated kernel)",
    "rule": ("Generated histories of <=200 steps interleaving application calls {get_next_sqe_slot+fill, flush_submission_queue, "
             "get_next_cqe} with simulated-kernel steps {consume k submissions through sq_array, post k completions}, SQ sizes "
             "1/2/4/8, CQ = n or 2n, SQE128/CQE32/SQPOLL variants, all four free-running counters starting at 0, 1, 2^31+-k, "
             "u32::MAX-k (k <= 2*entries+2) or random. Oracle: two FIFO queues + slot-ownership map, checked after every step "
             "(sequence stamped in user_data seen by the kernel in order without gap/duplicate; slot pointer and None<=>full; "
             "flush count and published tail; completion content, slot, head advanced by exactly one; None<=>empty). "
             "Sub-check real: the same hand-over against the REAL kernel on rings made by setup_io_uring(entries 1..9 mostly, 10..40, 64, 100; "
             "no flags): histories of <=120 steps {fill k NOPs stamped with sequence numbers, flush, io_uring_enter(everything flushed), "
             "reap k}; oracle: a slot is refused exactly when all (rounded-up) slots are in use, the kernel consumes exactly what was "
             "flushed, completions carry the sequence numbers exactly once and in order (NOPs complete inline), res 0. "
             "Sub-check real-sqpoll: SQPOLL rings (idle 5 ms) driven by the documented protocol (flush, fence, one look at needs_wakeup, "
             "enter with SQ_WAKEUP), 1-5 rounds of 1-16 stamped NOPs separated by 0-30 ms of quiet; every submission consumed and completed "
             "once, in order, within 6 s. "
             "Non-trivial = a counter crossed 2^32 or 2^31, or the completion ring was full at some step (real: more submissions than "
             "the ring has slots); distinct by hash of the case."),
    "assumptions": ["the simulated kernel follows the io_uring ABI (indices are free-running u32, masked on use)",
                    "call granularity: ring memory is not changed by the kernel side during an application call",
                    "sub-check ring: the IoUring value is built through the verif-hooks constructor, not by io_uring_setup; sub-check real: built by setup_io_uring, index wrap is out of reach there",
                    "sub-check real: NOP submissions without flags complete inline, in submission order (true of every kernel so far; observed here), so completion order shows consumption order"],
    "required_classes": ["ring:counter-crossed-2^32", "ring:counter-crossed-2^31", "ring:cq-full", "ring:sq-full-none", "ring:sqe128", "ring:cqe32", "ring:ring-size-1",
                         "real:entries-not-power-of-two", "real:sq-slots-cycled-3x", "real:sq-full-none", "real-sqpoll:round-after-15-ms-of-quiet-needed-a-wakeup"],
}


_SCHED_RULE = ("Generated: programs of 2..4 threads x 1..3 lock operations with 0..3 extra scheduling points inside the critical "
               "section, executed on a deterministic scheduler that owns every interleaving at the granularity of single atomic "
               "operations, futex calls and spin_loop hints (the lock sources are the repository's text compiled against shim "
               "atomics/futex). Schedules: random tapes, bounded preemption (<=4 forced switches, strict run-to-block otherwise), "
               "PCT-like priorities with <=3 priority drops; event tapes choose which waiter a wake picks, spurious futex returns, "
               "EINTR and spurious weak-CAS failures. Sub-check *-exh2 ENUMERATES every placement of <=2 forced preemptions for all "
               "two-thread programs with <=2 operations per thread; *-exh3 does the same for all three-thread programs with one "
               "operation per thread, with every choice of the thread switched to. Oracle: exclusion monitor, happens-before race detector on the "
               "protected value (vector clocks; release/acquire edges only as the code's orderings provide them), last-written-value "
               "model, deadlock state (no runnable thread), try-variants never park, no panic, lock free again at the end. "
               "Non-trivial = at least one futex_wait actually blocked or a context switch happened while the lock was held; "
               "distinct by hash of (program, executed trace of (thread, operation kind)).")

PROPS["C01"] = {
    "level": "exploration",
    "engine": "E3 sched (owned-schedule explorer)",
    "package": "sched", "bin": "sched",
    "profiles": ["dev", "release"],
    "workers": 8,
    "technique": "schedule-owning stateful property testing: generated programs x generated/enumerated schedules against an exclusion monitor, a vector-clock race detector and a deadlock-state check",
    "rule": _SCHED_RULE,
    "assumptions": ["values are sequentially consistent; orderings are checked through happens-before on the protected data only",
                    "the futex model follows futex(2): value check and enqueue are atomic, wake returns the number woken, spurious returns and EINTR allowed",
                    "real-thread stress (sub-check real-*) samples OS schedules only",
                    "at most 4 threads, one lock"],
    "required_classes": ["mutex:futex-wait-blocked", "mutex:unlock-woke-a-sleeper", "mutex:wake-with-nobody-asleep", "mutex:futex-wait-eagain",
                         "mutex:spurious-wake", "mutex:eintr", "mutex:wake-chose-among-several-waiters", "mutex:switch-while-held",
                         "mutex-exh2:futex-wait-blocked", "mutex:try-failed"],
    "timeout_quick": 900,
}

PROPS["C02"] = dict(PROPS["C01"])
PROPS["C02"]["required_classes"] = ["rwlock:futex-wait-blocked", "rwlock:unlock-woke-a-sleeper", "rwlock:wake-with-nobody-asleep",
                                    "rwlock:spurious-wake", "rwlock:eintr", "rwlock:weak-cas-spurious-fail",
                                    "rwlock:wake-chose-among-several-waiters", "rw-exh2:futex-wait-blocked"]


# fragments: lib/props.d/<id>.py each define ID and CFG
import glob as _glob
import importlib.util as _ilu
import os as _os

for _f in sorted(_glob.glob(_os.path.join(_os.path.dirname(_os.path.abspath(__file__)), "props.d", "*.py"))):
    _spec = _ilu.spec_from_file_location("props_" + _os.path.basename(_f)[:-3], _f)
    _m = _ilu.module_from_spec(_spec)
    _spec.loader.exec_module(_m)
    PROPS[_m.ID] = _m.CFG
