#!/bin/bash
# Creates a self-contained scratch copy for mutation experiments:
#   /tmp/v-<name>/        copy of /verif (no build output, no replays)
#   /tmp/v-<name>/repo/   copy of /repo's working tree (no build output) - mutate THIS
# All harness/probe manifests in the copy are rewritten to depend on the scratch repo.
# Usage: lib/scratch.sh <name> ; then /tmp/v-<name>/check <ID> ; finally rm -rf /tmp/v-<name>
set -e
name="$1"; [ -n "$name" ] || { echo "usage: scratch.sh <name>"; exit 2; }
dst="/tmp/v-$name"
rm -rf "$dst"; mkdir -p "$dst"
rsync -a --exclude target --exclude 'target-*' --exclude replays --exclude .git /verif/ "$dst/"
rsync -a --exclude target --exclude .git /repo/ "$dst/repo/"
grep -rl --include=Cargo.toml --include='*.py' --include=check --include='*.sh' '/repo' "$dst" --exclude-dir=repo | while read f; do
  sed -i -E "s#(^|[^A-Za-z0-9_./-])/repo([/\" ]|\$)#\\1$dst/repo\\2#g" "$f"
done
echo "$dst"
