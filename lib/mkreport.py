#!/usr/bin/env python3
"""Regenerates the machine-derived tables of DESIGN.md section 9 (between the AUTO markers) from
seeded/*/meta.json, mutants/*.results.json, known_findings.txt and evidence/*.json."""
import glob, json, os, re

V = os.path.dirname(os.path.dirname(os.path.abspath(__file__)))
out = []
out.append("### 9.3 Seeded changes (independent sub-agents, confirmed, then run against the checks)\n")
out.append("Each row: a change written by a fresh sub-agent that saw only the property text and a scratch worktree; `confirmed` = patch applies to the repository HEAD, builds, the existing suite passes with it, its demonstration fails with it and passes without it (all re-run by `lib/seeded.py`). The check was run from a scratch copy of /verif against a scratch copy of the repository with the patch applied.\n")
out.append("| seeded change | property | confirmed | caught by quick check | first signatures | wall s |")
out.append("|---|---|---|---|---|---|")
VOID = json.load(open(os.path.join(V, "seeded", "void_first_runs.json"))) if os.path.exists(os.path.join(V, "seeded", "void_first_runs.json")) else {}
NOTES = json.load(open(os.path.join(V, "seeded", "strengthening_notes.json"))) if os.path.exists(os.path.join(V, "seeded", "strengthening_notes.json")) else {}
for d in sorted(glob.glob(os.path.join(V, "seeded", "*", "meta.json"))):
    m = json.load(open(d))
    for c, r in m.get("checks", {}).items():
        sigs = "; ".join(s.replace("|", "\\|")[:70] for s in r.get("signatures", [])[:2])
        # an earlier run that ended with exit 2 (build of the snapshot failed, time limit) decided nothing
        earlier = [(h.get("earlier_result") or {}) for h in m.get("history", []) if h.get("check") == c]
        # (only the runs listed in seeded/void_first_runs.json: an exit 2 because the changed code made the check
        # hang is a miss like any other)
        void_first = m["name"] in VOID and any(e.get("exit") == 2 for e in earlier)
        missed_first = any(e.get("caught") is False and not (void_first and e.get("exit") == 2) for e in earlier)
        verdict = '**yes**' if r.get('caught') else 'no'
        if r.get('caught') and missed_first:
            verdict = '**yes** (missed by the check as it stood; strengthened, then caught)'
        if r.get('caught') and void_first and m['name'] not in NOTES:
            verdict = '**yes** (an earlier run decided nothing: its snapshot of /verif was taken during an edit and did not build)'
        if m['name'] in NOTES:
            verdict += ' - ' + NOTES[m['name']]
        out.append(f"| `{m['name']}` | {c} | {'yes' if m.get('confirmed') else 'NO (see note)'} | {verdict} | {sigs} | {r.get('wall_s')} |")
out.append("")
out.append("### 9.4 Mutant sensitivity runs (`lib/mutants.py`, quick tier, scratch copies)\n")
out.append("| property | mutant | result | first signature | expectation |")
out.append("|---|---|---|---|---|")
for f in sorted(glob.glob(os.path.join(V, "mutants", "*.results.json"))):
    pid = os.path.basename(f).split(".")[0]
    for r in json.load(open(f)):
        sig = (r.get("signatures") or [""])[0].replace("signature: ", "").replace("|", "\\|")[:80]
        out.append(f"| {pid} | `{r['name']}` | {r['status']} | {sig} | {r.get('expect', 'caught')[:90]} |")
out.append("")
out.append("### 9.5 Last committed evidence (quick tier on the repaired tree)\n")
out.append("| property | level | evaluations | distinct non-trivial | violations | wall s |")
out.append("|---|---|---|---|---|---|")
for f in sorted(glob.glob(os.path.join(V, "evidence", "C*.json"))):
    e = json.load(open(f))
    c = e["coverage"]
    out.append(f"| {e['property_id']} | {e['level']} | {c['evaluations']} | {c['distinct_nontrivial']} | {e.get('violations', 0)} | {e['wall_s']} |")
txt = "\n".join(out) + "\n"
p = os.path.join(V, "DESIGN.md")
s = open(p).read()
a, b = "<!-- AUTO-BEGIN -->", "<!-- AUTO-END -->"
if a in s and b in s:
    s = s[: s.index(a) + len(a)] + "\n" + txt + s[s.index(b):]
    open(p, "w").write(s)
    print("DESIGN.md section 9 tables refreshed")
else:
    print(txt)
