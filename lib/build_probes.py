#!/usr/bin/env python3
"""Builds a probe package of /verif/probes in the link modes of .github/runners.sh.

  lib/build_probes.py <package> [mode ...]      modes: dyn-debug dyn-release static-debug static-release pie-debug pie-release [pierel-debug]
Prints one line per built variant: `<mode> <absolute path of the executable>`; exit 2 on a build failure.
Each variant has its own --target-dir (/verif/probes/target-<mode>) so variants never overwrite each other.
Release builds add `-C llvm-args=-disable-loop-idiom-strlen`: with the installed rustc/LLVM the loop-idiom pass turns
rusl's strlen loop into a call to a `strlen` symbol that tiny-start does not provide (link error, outside the 20
properties); the flag changes no source and leaves the mem* idioms enabled."""
import os, subprocess, sys

PROBES = os.path.join(os.path.dirname(os.path.dirname(os.path.abspath(__file__))), "probes")
BASE = "-C panic=abort -C link-arg=-nostartfiles"
LINK = {
    "dyn": "",
    "static": " -C target-feature=+crt-static -C relocation-model=static",
    "pie": " -C target-feature=+crt-static -C relocation-model=pie",
    # static PIE whose dynamic relocations are REL (implicit addends) instead of x86_64's usual RELA; OPTIONAL: needs
    # a linker that knows `-z rel` (rust-lld does); a failed build of this mode is reported but is not an error
    "pierel": " -C target-feature=+crt-static -C relocation-model=pie -C link-arg=-Wl,-z,rel",
    # dynamic PIE of the MINIMAL feature set (probe-env only: cargo features start + symbols, no aux / vdso)
    "min": "",
}
OPTIONAL = {"pierel-debug"}
ALL = ["dyn-debug", "dyn-release", "static-debug", "static-release", "pie-debug", "pie-release"]
ALL_ENV = ALL + ["pierel-debug", "min-debug", "min-release"]  # probe-env only


def build(package, mode):
    link, prof = mode.split("-")
    flags = BASE + LINK[link]
    if prof == "release":
        flags += " -C llvm-args=-disable-loop-idiom-strlen"
    env = dict(os.environ)
    env["RUSTFLAGS"] = flags
    env["CARGO_NET_OFFLINE"] = "true"
    tdir = os.path.join(PROBES, f"target-{mode}")
    cmd = ["cargo", "build", "--offline", "-q", "-p", package, "--target", "x86_64-unknown-linux-gnu", "--target-dir", tdir]
    if prof == "release":
        cmd.append("--release")
    if link == "min":
        cmd += ["--no-default-features", "--features", "min"]
    p = subprocess.run(cmd, cwd=PROBES, env=env, stdout=subprocess.PIPE, stderr=subprocess.STDOUT)
    if p.returncode != 0:
        sys.stderr.write(p.stdout.decode("utf-8", "replace")[-4000:])
        return None
    return os.path.join(tdir, "x86_64-unknown-linux-gnu", "debug" if prof == "debug" else "release", package)


def main():
    package = sys.argv[1]
    modes = sys.argv[2:] or (ALL_ENV if package == "probe-env" else ALL)
    ok = True
    for m in modes:
        path = build(package, m)
        if path is None:
            if m not in OPTIONAL:
                ok = False
            print(f"{m} BUILD-FAILED")
        else:
            print(f"{m} {path}")
    return 0 if ok else 2


if __name__ == "__main__":
    sys.exit(main())
