#!/usr/bin/env python3
"""Helper for writing mutant lists: turns (file, line number, replacement for that line) into a
{"old","new"} pair whose "old" is extended upwards until it is unique in the file.
usage as module: unique_edit(path_in_repo, lineno, new_line_or_None)"""
import sys
def unique_edit(rel, lineno, new_line):
    s = open('/repo/' + rel).read()
    lines = s.split('\n')
    i = lineno - 1
    stmt = lines[i] + '\n'
    old = stmt
    k = i
    while s.count(old) != 1 and k > 0:
        k -= 1
        old = lines[k] + '\n' + old
    assert s.count(old) == 1, (rel, lineno)
    prefix = old[:len(old) - len(stmt)]
    new = prefix + ('' if new_line is None else new_line + '\n')
    return old, new
