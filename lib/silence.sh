#!/bin/bash
# Multi-seed silence pass on the unchanged tree: every check, seeds given as arguments (default 2 3 4 5),
# then seed 1 again so the committed evidence is the seed-1 run. Prints one line per run; non-zero exits are flagged.
cd "$(dirname "$0")/.." || exit 2
seeds="${@:-2 3 4 5}"
for s in $seeds 1; do
  for id in C01 C02 C03 C04 C05 C06 C07 C08 C09 C10 C11 C12 C13 C14 C15 C16 C17 C18 C19 C20; do
    out=$(VERIF_SEED=$s ./check $id 2>&1); rc=$?
    echo "seed=$s $id exit=$rc $(echo "$out" | grep -E "\[check\] $id quick" | sed 's/.*evaluations/evaluations/' | cut -c1-90)"
    if [ $rc -ne 0 ]; then echo "$out" | grep -E "VIOLATION|signature|what:|timed out|killed" | head -8; fi
  done
done
