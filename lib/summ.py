#!/usr/bin/env python3
"""Summarise a worker output (stdin or file): counts, classes, failures - no samples."""
import json, sys
d = json.load(open(sys.argv[1]) if len(sys.argv) > 1 else sys.stdin)
print("evaluations", d["evaluations"], "nontrivial", d["nontrivial_hashes"] if isinstance(d["nontrivial_hashes"], int) else len(d["nontrivial_hashes"]), "inconclusive", d.get("inconclusive"))
for k, v in sorted(d["classes"].items()):
    print("  ", k, v)
for e in d.get("exhaustive", []):
    print("  EXH", e)
for f in d["failures"]:
    print("FAIL", f["signature"], "|", f["what"][:300], "|", f["replay"])
print("known_hits", d.get("known_hits"), "extra", {k: (v if not isinstance(v, (list, dict)) else "...") for k, v in d.get("extra", {}).items()})
