#!/usr/bin/env python3
"""Fill `breaks_property` / `needs_to_manifest` in seeded/*/meta.json from the seeding agent's NOTES.md
(sections are located by their headings; nothing is invented: when a section cannot be found the field
points at NOTES.md)."""
import json, os, re, glob
V = os.path.dirname(os.path.dirname(os.path.abspath(__file__)))
def section(txt, words):
    # split on markdown headings or bold lead-ins
    parts = re.split(r'\n(?=#{1,4} |\*\*[^*\n]{3,80}\*\*)', '\n' + txt)
    for p in parts:
        head = p.strip().split('\n', 1)[0].lower()
        if any(w in head for w in words):
            body = p.strip()
            body = re.sub(r'^#{1,4} *', '', body)
            return re.sub(r'\s+', ' ', body)[:900]
    return None
for d in sorted(glob.glob(os.path.join(V, 'seeded', '*'))):
    mp, np_ = os.path.join(d, 'meta.json'), os.path.join(d, 'NOTES.md')
    if not os.path.exists(mp):
        continue
    m = json.load(open(mp))
    if m.get('needs_to_manifest') and m.get('breaks_property') and not m.get('_auto'):
        continue
    txt = open(np_).read() if os.path.exists(np_) else ''
    m['breaks_property'] = section(txt, ['why it breaks', 'why this breaks', 'breaks the property', 'why it violates']) or 'see NOTES.md'
    m['needs_to_manifest'] = section(txt, ['needs to manifest', 'needs in order', 'what it needs', 'to manifest', 'trigger']) or 'see NOTES.md'
    m['what_i_ran'] = 'lib/seeded.py: git apply on a copy of the repository HEAD, cargo build --workspace, the pinned nextest suite, the agent\'s demo with and without the patch, then ./check %s (tier %s) from a scratch copy of /verif against the patched copy' % (m['property'], list(m.get('checks', {}).values())[0].get('tier', 'quick') if m.get('checks') else 'quick')
    m['_auto'] = True
    json.dump(m, open(mp, 'w'), indent=1)
    print(os.path.basename(d), '|', m['needs_to_manifest'][:90])
