#!/usr/bin/env python3
"""Regenerates /verif/MANIFEST.json from lib/props.py (run after editing props)."""
import json
import os
import sys

HERE = os.path.dirname(os.path.abspath(__file__))
sys.path.insert(0, HERE)
from props import PROPS  # noqa: E402

VERIF = os.path.dirname(HERE)
ids = [json.loads(l)["id"] for l in open(os.path.join(VERIF, "properties.jsonl"))]

BASELINE = ("cd /repo && cargo nextest run --workspace --no-fail-fast --tool-config-file pb:/w/lib/nextest.toml "
            "--profile pb --test-threads 8 --offline || cargo test --workspace --no-fail-fast --offline")

checks = []
na = []
for pid in ids:
    cfg = PROPS.get(pid)
    if not cfg or cfg.get("disabled"):
        na.append({"property_id": pid, "reason": (cfg or {}).get("na_reason", "check not built yet in this revision of /verif (work in progress, see DESIGN.md section 8)")})
        continue
    checks.append({
        "property_id": pid,
        "quick_cmd": f"./check {pid} --tier quick",
        "thorough_cmd": f"./check {pid} --tier thorough",
        "evidence_file": f"/verif/evidence/{pid}.json",
        "replay_cmd_template": f"./check {pid} --replay {{path}}",
        "engine": cfg.get("engine", "E1 vh"),
        "level_claimed": {
            "category": cfg["level"],
            "text": cfg.get("level_text", "Generated-input search against an explicit oracle; holds on everything generated, absence is not shown."),
            "design_ref": f"DESIGN.md section 4, {pid}",
        },
        "level_note": cfg.get("level_note", "Trusts the harness oracle (reference model) and the generators' coverage as reported in the evidence; x86_64 only."),
        "technique": cfg.get("technique", "property-based testing (proptest) with reference-model oracle"),
    })

manifest = {
    "version": 1,
    "setup_cmd": "./check setup",
    "hooks": {
        "guard": "cargo feature `verif-hooks` on rusl",
        "enable": "harness crates depend on rusl with features=[\"verif-hooks\"] (cargo path dependency on /repo)",
        "baseline_off_cmd": BASELINE,
        "source_commits": json.load(open(os.path.join(VERIF, "lib", "hook_commits.json"))) if os.path.exists(os.path.join(VERIF, "lib", "hook_commits.json")) else [],
        "add_only": True,
    },
    "engines": [
        {"name": "E1 vh", "path": "harness/vh", "serves_properties": [p for p in ids if p in PROPS and PROPS[p].get("engine", "E1 vh").startswith("E1")], "kind_free_text": "in-process proptest harness calling rusl/tiny-std/tiny-cli compiled from /repo"},
        {"name": "E2 sc shim", "path": "shims/sc", "serves_properties": [p for p in ids if p in PROPS and "E2" in PROPS[p].get("engine", "")], "kind_free_text": "[patch.crates-io] replacement of the sc crate: logs, forces or clamps every syscall issued through syscall!"},
    ],
    "checks": checks,
    "not_applicable": na,
    "notes": "All checks rebuild the harness from /repo's working tree (cargo path dependencies) on every invocation. VERIF_SEED / VERIF_TIER / VERIF_SCALE are honoured. Exit 2 = inconclusive/infrastructure, never a violation.",
}
json.dump(manifest, open(os.path.join(VERIF, "MANIFEST.json"), "w"), indent=1)
print("wrote MANIFEST.json with", len(checks), "checks,", len(na), "not_applicable")
