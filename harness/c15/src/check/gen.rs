//! Case types, proptest strategies and the deterministic grids.
use proptest::prelude::*;
use serde::{Deserialize, Serialize};
use vh::runner::pick_idx;
use vh::util::BStr;

use super::script::{script_stream, ROp, WOp, EK};

// ------------------------------------------------------------------------------------- cases

/// `read_to_end` / `read_to_string` case.
#[derive(Debug, Clone, Serialize, Deserialize)]
pub struct ReadCase {
    /// initial contents of the Vec / String (for String: valid UTF-8, else converted lossily)
    pub init: BStr,
    /// requested capacity = init.len() + cap_extra
    pub cap_extra: u32,
    /// the reader overwrites the part of the lent buffer it did not fill
    pub scribble: bool,
    pub script: Vec<ROp>,
}

/// `read_exact` case.
#[derive(Debug, Clone, Serialize, Deserialize)]
pub struct ExactCase {
    pub n: u32,
    pub scribble: bool,
    pub script: Vec<ROp>,
}

/// `write_all` case.
#[derive(Debug, Clone, Serialize, Deserialize)]
pub struct WriteCase {
    pub data: BStr,
    pub script: Vec<WOp>,
}

#[derive(Debug, Clone, Serialize, Deserialize)]
pub enum Piece {
    S(String),
    I(i64),
    Pad(String, u8),
    Hex(u32),
    Dbg(String),
}

pub struct Pieces<'a>(pub &'a [Piece]);

impl std::fmt::Display for Pieces<'_> {
    fn fmt(&self, f: &mut std::fmt::Formatter<'_>) -> std::fmt::Result {
        for p in self.0 {
            match p {
                Piece::S(s) => f.write_str(s)?,
                Piece::I(i) => write!(f, "{}", i)?,
                Piece::Pad(s, w) => write!(f, "{:>w$}", s, w = *w as usize)?,
                Piece::Hex(x) => write!(f, "{:#010x}", x)?,
                Piece::Dbg(s) => write!(f, "{:?}", s)?,
            }
        }
        Ok(())
    }
}

/// The same pieces through a formatting impl that does not stop at the first error: it remembers it,
/// goes on with the remaining pieces ("always emit the closing bracket") and reports the error at
/// the end. Legal for a `Display` impl; the writer's error must still be what `write_fmt` returns.
pub struct Stubborn<'a>(pub &'a [Piece]);

impl std::fmt::Display for Stubborn<'_> {
    fn fmt(&self, f: &mut std::fmt::Formatter<'_>) -> std::fmt::Result {
        let mut first = Ok(());
        for p in self.0 {
            let r = match p {
                Piece::S(s) => f.write_str(s),
                Piece::I(i) => write!(f, "{}", i),
                Piece::Pad(s, w) => write!(f, "{:>w$}", s, w = *w as usize),
                Piece::Hex(x) => write!(f, "{:#010x}", x),
                Piece::Dbg(s) => write!(f, "{:?}", s),
            };
            if first.is_ok() {
                first = r;
            }
        }
        first
    }
}

/// `write_fmt` case: `template` false ⇒ `format_args!("{}", Pieces)`, true ⇒ a fixed
/// multi-argument template around the first pieces.
#[derive(Debug, Clone, Serialize, Deserialize)]
pub struct FmtCase {
    pub pieces: Vec<Piece>,
    pub template: bool,
    pub script: Vec<WOp>,
    /// 0 = a format string with run-time arguments (see `template`); k > 0 = the k-th of the
    /// fixed argument-free format strings (`Arguments::as_str()` is `Some` for those: a writer
    /// may be tempted to treat them differently)
    #[serde(default)]
    pub literal: u8,
    /// the pieces are formatted by `Stubborn` (keeps writing after an error) instead of `Pieces`
    #[serde(default)]
    pub stubborn: bool,
}

#[derive(Debug, Clone, Copy, PartialEq, Eq, Serialize, Deserialize)]
pub enum PrintKind {
    Print,
    Println,
    PrintlnBare,
    Eprint,
    Eprintln,
    EprintlnBare,
}

/// `print!`-family case under clamped `write(2)` lengths.
#[derive(Debug, Clone, Serialize, Deserialize)]
pub struct PrintCase {
    pub kind: PrintKind,
    pub pieces: Vec<Piece>,
    pub template: bool,
    /// clamp of the i-th write(2) issued by the macro (each ≥ 1)
    pub clamps: Vec<u16>,
    /// clamp of all later writes (None = unclamped)
    pub rest: Option<u16>,
}

// --------------------------------------------------------------------------------- strategies

pub const CODES: [i32; 7] = [5 /*EIO*/, 9 /*EBADF*/, 11 /*EAGAIN*/, 12 /*ENOMEM*/, 28 /*ENOSPC*/, 32 /*EPIPE*/, 104 /*ECONNRESET*/];

pub fn ek() -> impl Strategy<Value = EK> {
    prop_oneof![
        6 => prop::sample::select(CODES.to_vec()).prop_map(EK::Os),
        1 => Just(EK::Uncat),
        1 => Just(EK::Timeout),
    ]
}

/// Stream sizes concentrated at the 32-byte reserve/probe thresholds.
pub fn size() -> impl Strategy<Value = usize> {
    prop_oneof![
        12 => prop::sample::select(vec![0usize, 1, 31, 32, 33, 63, 64, 65]),
        6 => 0usize..=300,
        3 => prop::sample::select(vec![2usize, 30, 34, 62, 66, 95, 96, 97, 127, 128, 129, 255, 256, 257]),
        1 => 1024usize..=6000,
    ]
}

fn bytes_stream() -> impl Strategy<Value = Vec<u8>> {
    size().prop_flat_map(|n| prop::collection::vec(any::<u8>(), n))
}

fn scalar() -> impl Strategy<Value = char> {
    prop_oneof![
        3 => 0x20u32..0x7f,
        2 => 0x80u32..0x800,
        2 => prop_oneof![0x800u32..0xD800, 0xE000u32..0x1_0000],
        2 => 0x1_0000u32..0x11_0000,
    ]
    .prop_map(|c| char::from_u32(c).unwrap_or('?'))
}

/// Valid UTF-8 of exactly `n` bytes built from 1–4-byte scalars (padded with ASCII).
fn utf8_exact(n: usize) -> impl Strategy<Value = Vec<u8>> {
    prop::collection::vec(scalar(), n.div_ceil(2).min(n)).prop_map(move |cs| {
        let mut out = Vec::with_capacity(n);
        for c in cs {
            let mut b = [0u8; 4];
            let e = c.encode_utf8(&mut b).as_bytes();
            if out.len() + e.len() > n {
                break;
            }
            out.extend_from_slice(e);
        }
        while out.len() < n {
            out.push(b'a' + (out.len() % 26) as u8);
        }
        out
    })
}

const BAD: [&[u8]; 9] = [&[0x80], &[0xFF], &[0xC0, 0x80], &[0xE2, 0x82], &[0xED, 0xA0, 0x80], &[0xF5, 0x80, 0x80, 0x80], &[0xF0, 0x9F, 0x98], &[0xC3], &[0xF4, 0x90, 0x80, 0x80]];

/// UTF-8 stream, with probability ~1/3 made invalid at a generated offset.
fn utf8_stream() -> impl Strategy<Value = Vec<u8>> {
    let inj = prop_oneof![
        6 => Just(None),
        // insert / overwrite at an arbitrary byte offset (possibly inside a scalar)
        2 => (any::<u16>(), 0usize..BAD.len(), any::<bool>()).prop_map(|(o, b, ow)| Some((Some(o), b, ow))),
        // at the very end (truncated final scalar and friends)
        1 => (0usize..BAD.len()).prop_map(|b| Some((None, b, false))),
    ];
    (size().prop_flat_map(utf8_exact), inj).prop_map(|(mut s, inj)| {
        if let Some((off, b, overwrite)) = inj {
            let bad = BAD[b];
            let at = match off {
                Some(o) => pick_idx(o, s.len() + 1),
                None => s.len(),
            };
            if overwrite && at < s.len() {
                s[at] = bad[0];
            } else {
                let tail = s.split_off(at);
                s.extend_from_slice(bad);
                s.extend_from_slice(&tail);
            }
        }
        s
    })
}

#[derive(Debug, Clone, Copy)]
enum Term {
    Eof,
    Err(EK),
}

fn term() -> impl Strategy<Value = Option<(u16, Term)>> {
    prop_oneof![
        5 => Just(None),
        1 => any::<u16>().prop_map(|p| Some((p, Term::Eof))),
        3 => (any::<u16>(), ek()).prop_map(|(p, k)| Some((p, Term::Err(k)))),
    ]
}

fn chunks() -> impl Strategy<Value = Vec<(usize, u8)>> {
    let sz = prop_oneof![
        4 => 1usize..=4,
        3 => prop::sample::select(vec![7usize, 16, 31, 32, 33, 64, 100]),
        1 => Just(100_000usize),
    ];
    let ei = prop_oneof![6 => Just(0u8), 2 => Just(1u8), 1 => Just(2u8)];
    prop_oneof![
        1 => Just(vec![(1usize, 0u8)]), // byte by byte: every split point of every scalar
        8 => prop::collection::vec((sz, ei), 0..12),
    ]
}

/// Cut `stream` into Data ops of the (cyclically repeated) chunk sizes, each preceded by its
/// number of Eintr ops; then `tail_eintr` Eintr ops (they hit the final EOF probe); then the
/// terminal op inserted at a generated op index (what follows it is unreachable data).
fn build_script(stream: &[u8], chunks: &[(usize, u8)], tail_eintr: u8, term: Option<(u16, Term)>) -> Vec<ROp> {
    let mut ops = Vec::new();
    let mut i = 0;
    let mut ci = 0;
    while i < stream.len() {
        let (sz, ei) = if chunks.is_empty() { (stream.len(), 0) } else { chunks[ci % chunks.len()] };
        ci += 1;
        for _ in 0..ei {
            ops.push(ROp::Eintr);
        }
        let end = (i + sz.max(1)).min(stream.len());
        ops.push(ROp::Data(BStr(stream[i..end].to_vec())));
        i = end;
    }
    for _ in 0..tail_eintr {
        ops.push(ROp::Eintr);
    }
    if let Some((p, t)) = term {
        let at = pick_idx(p, ops.len() + 1);
        ops.insert(at, match t {
            Term::Eof => ROp::Eof,
            Term::Err(k) => ROp::Err(k),
        });
    }
    ops
}

fn script(utf8: bool) -> impl Strategy<Value = Vec<ROp>> {
    let stream = if utf8 { utf8_stream().boxed() } else { bytes_stream().boxed() };
    (stream, chunks(), prop_oneof![5 => Just(0u8), 2 => Just(1u8), 1 => Just(2u8)], term()).prop_map(|(s, c, te, t)| build_script(&s, &c, te, t))
}

fn cap_extra(choice: u8, fit: usize) -> u32 {
    (match choice {
        0 => 0,
        1 => 1,
        2 => 31,
        3 => 32,
        4 => 33,
        5 | 6 | 7 => fit,
        8 => fit + 1,
        _ => fit.saturating_sub(1),
    }) as u32
}

pub fn read_case(utf8: bool) -> impl Strategy<Value = ReadCase> {
    let init = if utf8 {
        (0usize..=40).prop_flat_map(utf8_exact).boxed()
    } else {
        prop::collection::vec(any::<u8>(), 0..=40).boxed()
    };
    (init, 0u8..10, any::<bool>(), script(utf8)).prop_map(|(init, cc, scribble, script)| {
        let fit = script_stream(&script).len();
        ReadCase { init: BStr(init), cap_extra: cap_extra(cc, fit), scribble, script }
    })
}

/// Large transfers in the rhythm of a pipe or socket producer: a burst that fills whatever window the helper
/// offers (tens of KiB in one op: every call gets as much as it has room for), then a trickle of short pieces, then
/// maybe another burst - into a destination that is empty or has tens of KiB of spare capacity.
pub fn burst_case(utf8: bool) -> impl Strategy<Value = ReadCase> {
    let byte = move |i: usize| if utf8 { b'a' + (i % 26) as u8 } else { (i * 7 + 3) as u8 };
    let burst = prop_oneof![3 => 9_000usize..70_000, 1 => 70_000usize..200_000];
    let trickle = prop::collection::vec(prop_oneof![4 => 1usize..300, 1 => 300usize..3000], 1..8);
    (burst, trickle, prop::option::weighted(0.4, 9_000usize..50_000), prop::sample::select(vec![0u32, 0, 33, 20_000, 50_000, 150_000]), any::<bool>(), 0u8..4, 0u8..41).prop_map(move |(b1, tr, b2, cap_extra, scribble, eintr_at, init_len)| {
        let mut script = Vec::new();
        let mut pos = 0usize;
        let mut push = |n: usize, script: &mut Vec<ROp>| {
            script.push(ROp::Data(BStr((pos..pos + n).map(byte).collect())));
            pos += n;
        };
        push(b1, &mut script);
        for (k, t) in tr.iter().enumerate() {
            if k as u8 == eintr_at {
                script.push(ROp::Eintr);
            }
            push(*t, &mut script);
        }
        if let Some(b2) = b2 {
            push(b2, &mut script);
        }
        script.push(ROp::Eof);
        ReadCase { init: BStr((0..init_len as usize).map(|i| b'A' + (i % 26) as u8).collect()), cap_extra, scribble, script }
    })
}

pub fn exact_case() -> impl Strategy<Value = ExactCase> {
    // target length relative to the stream: well below, just below, equal, just above
    (script(false), 0u8..8, any::<u16>(), any::<bool>()).prop_map(|(script, mode, r, scribble)| {
        let have = script_stream(&script).len();
        let n = match mode {
            0 | 1 => have,
            2 => have + 1,
            3 => have.saturating_sub(1),
            4 => have + 1 + pick_idx(r, 64),
            _ => pick_idx(r, have + 1),
        };
        ExactCase { n: n as u32, scribble, script }
    })
}

fn wscript() -> impl Strategy<Value = Vec<WOp>> {
    let k = prop_oneof![
        4 => 1u32..=4,
        3 => prop::sample::select(vec![7u32, 16, 31, 32, 33, 64, 100]),
        1 => Just(1_000_000u32),
    ];
    let op = prop_oneof![
        10 => k.prop_map(WOp::Accept),
        3 => Just(WOp::Eintr),
    ];
    let stop = prop_oneof![
        5 => Just(None),
        1 => any::<u16>().prop_map(|p| Some((p, WOp::Zero))),
        3 => (any::<u16>(), ek()).prop_map(|(p, k)| Some((p, WOp::Err(k)))),
    ];
    (prop::collection::vec(op, 0..24), stop).prop_map(|(mut ops, stop)| {
        if let Some((p, s)) = stop {
            let at = pick_idx(p, ops.len() + 1);
            ops.insert(at, s);
        }
        ops
    })
}

pub fn write_case() -> impl Strategy<Value = WriteCase> {
    (bytes_stream(), wscript()).prop_map(|(d, script)| WriteCase { data: BStr(d), script })
}

fn text(max: usize) -> impl Strategy<Value = String> {
    prop::collection::vec(scalar(), 0..=max).prop_map(|v| v.into_iter().collect())
}

fn piece() -> impl Strategy<Value = Piece> {
    prop_oneof![
        4 => text(40).prop_map(Piece::S),
        1 => text(400).prop_map(Piece::S),
        2 => any::<i64>().prop_map(Piece::I),
        2 => (text(6), 0u8..=70).prop_map(|(s, w)| Piece::Pad(s, w)),
        1 => any::<u32>().prop_map(Piece::Hex),
        1 => text(20).prop_map(Piece::Dbg),
    ]
}

pub fn fmt_case() -> impl Strategy<Value = FmtCase> {
    (prop::collection::vec(piece(), 0..8), prop::bool::weighted(0.25), wscript(), prop_oneof![3 => Just(0u8), 1 => 1u8..=super::N_LITERALS]).prop_map(|(pieces, template, script, literal)| FmtCase { pieces, template, script, literal, stubborn: false })
        .prop_flat_map(|c| (Just(c), prop::bool::weighted(0.25)))
        .prop_map(|(mut c, stubborn)| {
            c.stubborn = stubborn && c.literal == 0;
            c
        })
}

pub fn print_case() -> impl Strategy<Value = PrintCase> {
    let kind = prop::sample::select(vec![
        PrintKind::Print,
        PrintKind::Print,
        PrintKind::Println,
        PrintKind::Println,
        PrintKind::PrintlnBare,
        PrintKind::Eprint,
        PrintKind::Eprintln,
        PrintKind::EprintlnBare,
    ]);
    let clamp = prop_oneof![4 => 1u16..=4, 3 => prop::sample::select(vec![7u16, 31, 32, 33, 64]), 1 => 200u16..2000, 1 => prop::sample::select(vec![4095u16, 4096, 4097, 8192])];
    let rest = prop_oneof![2 => Just(None), 3 => clamp.clone().prop_map(Some)];
    // now and then one long piece (several pages of text), so that a write can be short by pages
    let pieces = (prop::collection::vec(piece(), 0..6), prop::option::weighted(0.12, (text(4).prop_map(|t| if t.is_empty() { "x".to_string() } else { t }), 300usize..1400))).prop_map(|(mut ps, long)| {
        if let Some((unit, reps)) = long {
            let at = ps.len() / 2;
            ps.insert(at, Piece::S(unit.repeat(reps)));
        }
        ps
    });
    (kind, pieces, prop::bool::weighted(0.25), prop::collection::vec(clamp, 0..10), rest)
        .prop_map(|(kind, pieces, template, clamps, rest)| PrintCase { kind, pieces, template, clamps, rest })
}

// -------------------------------------------------------------------------------------- grids

fn pattern(n: usize) -> Vec<u8> {
    // never zero, never the poison / scribble values' neighbourhood by accident only
    (0..n).map(|i| ((i * 7 + 13) % 251 + 1) as u8).collect()
}

#[derive(Clone, Copy)]
enum Disturb {
    None,
    EintrAt(u8),
    ErrAt(u8),
    EofAt(u8),
}

/// position selector 0 = before everything, 1 = middle, 2 = after all data
fn at(sel: u8, len: usize) -> usize {
    match sel {
        0 => 0,
        1 => len / 2,
        _ => len,
    }
}

fn grid_script(stream: &[u8], chunk: usize, d: Disturb) -> Vec<ROp> {
    let mut ops: Vec<ROp> = if chunk == 0 {
        if stream.is_empty() { vec![] } else { vec![ROp::Data(BStr(stream.to_vec()))] }
    } else {
        stream.chunks(chunk).map(|c| ROp::Data(BStr(c.to_vec()))).collect()
    };
    let l = ops.len();
    match d {
        Disturb::None => {}
        Disturb::EintrAt(s) => ops.insert(at(s, l), ROp::Eintr),
        Disturb::ErrAt(s) => ops.insert(at(s, l), ROp::Err(EK::Os(5))),
        Disturb::EofAt(s) => ops.insert(at(s, l), ROp::Eof),
    }
    ops
}

const DISTURB: [Disturb; 8] = [
    Disturb::None,
    Disturb::EintrAt(0),
    Disturb::EintrAt(1),
    Disturb::EintrAt(2),
    Disturb::ErrAt(0),
    Disturb::ErrAt(1),
    Disturb::ErrAt(2),
    Disturb::EofAt(1),
];

pub fn rte_grid() -> Vec<ReadCase> {
    let mut out = Vec::new();
    for &size in &[0usize, 1, 2, 31, 32, 33, 63, 64, 65, 96, 97] {
        let stream = pattern(size);
        for &il in &[0usize, 5, 40] {
            let init: Vec<u8> = (0..il).map(|i| 0xC0 | (i as u8 & 0x3f)).collect();
            for &chunk in &[0usize, 1, 7, 32] {
                for d in DISTURB {
                    let script = grid_script(&stream, chunk, d);
                    let fit = script_stream(&script).len();
                    let mut caps = vec![0usize, 1, 31, 32, 33, fit, fit + 1, fit.saturating_sub(1)];
                    caps.sort_unstable();
                    caps.dedup();
                    for cap in caps {
                        out.push(ReadCase { init: BStr(init.clone()), cap_extra: cap as u32, scribble: (size + il + chunk + cap) % 2 == 1, script: script.clone() });
                    }
                }
            }
        }
    }
    out
}

#[allow(clippy::vec_init_then_push)]
pub fn rts_grid() -> Vec<ReadCase> {
    let base = "a\u{e9}\u{20ac}\u{1F600}z".as_bytes().to_vec(); // 1+2+3+4+1 bytes
    let mut out = Vec::new();
    for k in 0..=base.len() {
        for eintr in [false, true] {
            for variant in 0..4 {
                let mut ops = Vec::new();
                if k > 0 {
                    ops.push(ROp::Data(BStr(base[..k].to_vec())));
                }
                if eintr {
                    ops.push(ROp::Eintr);
                }
                match variant {
                    0 => ops.push(ROp::Data(BStr(base[k..].to_vec()))), // complete, valid
                    1 => ops.push(ROp::Eof),                            // truncated at k
                    2 => {
                        ops.push(ROp::Data(BStr(vec![0xFF]))); // invalid byte at k
                        ops.push(ROp::Data(BStr(base[k..].to_vec())));
                    }
                    _ => ops.push(ROp::Err(EK::Os(5))), // error after k bytes
                }
                ops.retain(|o| !matches!(o, ROp::Data(b) if b.0.is_empty()));
                let fit = script_stream(&ops).len();
                for init in ["", "\u{fc}x"] {
                    for cap in [0usize, 1, fit, 32] {
                        out.push(ReadCase { init: BStr(init.as_bytes().to_vec()), cap_extra: cap as u32, scribble: (k + cap) % 2 == 0, script: ops.clone() });
                    }
                }
            }
        }
    }
    out
}

pub fn rex_grid() -> Vec<ExactCase> {
    let mut out = Vec::new();
    for &n in &[0usize, 1, 2, 31, 32, 33, 64] {
        for have in [n.saturating_sub(1), n, n + 1] {
            let stream = pattern(have);
            for &chunk in &[0usize, 1, 7] {
                for d in DISTURB {
                    out.push(ExactCase { n: n as u32, scribble: (n + have + chunk) % 2 == 1, script: grid_script(&stream, chunk, d) });
                }
            }
        }
    }
    out
}

pub fn wal_grid() -> Vec<WriteCase> {
    let mut out = Vec::new();
    for &size in &[0usize, 1, 2, 31, 32, 33, 64, 65] {
        let data = pattern(size);
        for &k in &[0u32, 1, 7, 32] {
            let base: Vec<WOp> = if k == 0 { vec![] } else { (0..size.div_ceil(k as usize)).map(|_| WOp::Accept(k)).collect() };
            for d in 0..7 {
                let mut ops = base.clone();
                let l = ops.len();
                match d {
                    0 => {}
                    1 => ops.insert(0, WOp::Eintr),
                    2 => ops.insert(l / 2, WOp::Eintr),
                    3 => ops.insert(0, WOp::Err(EK::Os(28))),
                    4 => ops.insert(l / 2, WOp::Err(EK::Os(28))),
                    5 => ops.insert(0, WOp::Zero),
                    _ => ops.insert(l / 2, WOp::Zero),
                }
                out.push(WriteCase { data: BStr(data.clone()), script: ops });
            }
        }
    }
    out
}
