//! Scripted `tiny_std::io::Read` / `Write` implementations and the trace they leave behind.
//!
//! A script is a list of responses. The scripted reader/writer serves them in order and
//! records, per call, what it was offered and what it answered. All oracles are evaluated
//! over that *trace* (what the reader really handed out during the call under test), so they
//! do not depend on how the helper sizes its requests.
use rusl::error::Errno;
use serde::{Deserialize, Serialize};
use tiny_std::io::{Read, Write};
use tiny_std::Error as TErr;
use vh::util::BStr;

pub const EINTR: i32 = 4;

/// Serializable description of a `tiny_std::Error`.
#[derive(Debug, Clone, Copy, PartialEq, Eq, Hash, Serialize, Deserialize)]
pub enum EK {
    /// `Error::Os { code }`
    Os(i32),
    /// `Error::Uncategorized`
    Uncat,
    /// `Error::Timeout`
    Timeout,
}

impl EK {
    pub fn to_err(self) -> TErr {
        match self {
            EK::Os(c) => TErr::Os { msg: "scripted", code: Errno::new(c) },
            EK::Uncat => TErr::Uncategorized("scripted"),
            EK::Timeout => TErr::Timeout,
        }
    }
    pub fn of(e: &TErr) -> EK {
        match e {
            TErr::Os { code, .. } => EK::Os(code.raw()),
            TErr::Uncategorized(_) => EK::Uncat,
            TErr::Timeout => EK::Timeout,
        }
    }
    pub fn is_eintr(self) -> bool {
        self == EK::Os(EINTR)
    }
    pub fn label(self) -> String {
        match self {
            EK::Os(c) => format!("Os({})", c),
            EK::Uncat => "Uncategorized".into(),
            EK::Timeout => "Timeout".into(),
        }
    }
}

// ------------------------------------------------------------------------------------ reader

/// One scripted reader response.
#[derive(Debug, Clone, PartialEq, Eq, Serialize, Deserialize)]
pub enum ROp {
    /// Deliver these bytes. When the caller offers less room than the op holds, the offered
    /// amount is delivered and the rest stays pending for the following call(s): every call
    /// returns `k` with `0 < k <= offered`.
    Data(BStr),
    /// `Ok(0)`
    Eof,
    /// `Err(Os { code: EINTR })`
    Eintr,
    /// any other error
    Err(EK),
}

#[derive(Debug, Clone, Copy, PartialEq, Eq)]
pub enum REv {
    Data { offered: usize, n: usize },
    /// `Ok(0)` answered to a non-empty offer; `scripted` = an explicit Eof op (false: script ran out)
    Eof { scripted: bool },
    Eintr,
    Fatal(EK),
    /// the helper offered an empty buffer (answered `Ok(0)`, script not advanced)
    EmptyOffer,
}

pub struct ScriptedReader<'a> {
    ops: &'a [ROp],
    pos: usize,
    off: usize,
    scribble: bool,
    pub trace: Vec<REv>,
    pub delivered: Vec<u8>,
    pub calls: usize,
    budget: usize,
    /// set when the call budget was exceeded (the helper does not terminate)
    pub abused: bool,
    /// a Data op was larger than the room offered (delivered in several calls)
    pub op_split_by_offer: bool,
}

impl<'a> ScriptedReader<'a> {
    pub fn new(ops: &'a [ROp], scribble: bool) -> Self {
        let total: usize = ops.iter().map(|o| if let ROp::Data(b) = o { b.0.len() } else { 0 }).sum();
        ScriptedReader {
            ops,
            pos: 0,
            off: 0,
            scribble,
            trace: Vec::new(),
            delivered: Vec::new(),
            calls: 0,
            // every call with a non-empty offer consumes an op or at least one byte, or is an
            // end-of-script EOF; a terminating helper needs far fewer than this
            budget: ops.len() + total + 300,
            abused: false,
            op_split_by_offer: false,
        }
    }
    pub fn ops_left(&self) -> usize {
        self.ops.len() - self.pos.min(self.ops.len())
    }
}

impl Read for ScriptedReader<'_> {
    fn read(&mut self, buf: &mut [u8]) -> tiny_std::Result<usize> {
        self.calls += 1;
        if self.calls > self.budget {
            self.abused = true;
            panic!("C15 guard: scripted reader called {} times (script of {} ops): the helper does not terminate", self.calls, self.ops.len());
        }
        if buf.is_empty() {
            self.trace.push(REv::EmptyOffer);
            return Ok(0);
        }
        loop {
            let Some(op) = self.ops.get(self.pos) else {
                self.trace.push(REv::Eof { scripted: false });
                return Ok(0);
            };
            match op {
                ROp::Data(b) => {
                    let rest = &b.0[self.off..];
                    if rest.is_empty() {
                        // empty data op (only after shrinking): not a response at all
                        self.pos += 1;
                        self.off = 0;
                        continue;
                    }
                    let n = rest.len().min(buf.len());
                    buf[..n].copy_from_slice(&rest[..n]);
                    if self.scribble {
                        // a reader may use the lent buffer beyond `n` as scratch space
                        for (i, x) in buf[n..].iter_mut().enumerate() {
                            *x = 0xA5 ^ (i as u8 & 0x0f);
                        }
                    }
                    self.delivered.extend_from_slice(&rest[..n]);
                    self.trace.push(REv::Data { offered: buf.len(), n });
                    if n == rest.len() {
                        self.pos += 1;
                        self.off = 0;
                    } else {
                        self.off += n;
                        self.op_split_by_offer = true;
                    }
                    return Ok(n);
                }
                ROp::Eof => {
                    self.pos += 1;
                    self.trace.push(REv::Eof { scripted: true });
                    return Ok(0);
                }
                ROp::Eintr => {
                    self.pos += 1;
                    self.trace.push(REv::Eintr);
                    return Err(EK::Os(EINTR).to_err());
                }
                ROp::Err(k) => {
                    self.pos += 1;
                    if k.is_eintr() {
                        self.trace.push(REv::Eintr);
                    } else {
                        self.trace.push(REv::Fatal(*k));
                    }
                    return Err(k.to_err());
                }
            }
        }
    }
}

/// Facts about one reader trace.
#[derive(Debug, Default)]
pub struct RFacts {
    pub fatals: Vec<EK>,
    pub eof_seen: bool,
    pub eof_scripted: bool,
    pub eintrs: usize,
    pub short: bool,
    pub empty_offers: usize,
    pub polls_after_eof: usize,
    pub delivered_before_first_fatal: usize,
}

pub fn rfacts(trace: &[REv]) -> RFacts {
    let mut f = RFacts::default();
    let mut cum = 0usize;
    for ev in trace {
        if f.eof_seen {
            f.polls_after_eof += 1;
        }
        match *ev {
            REv::Data { offered, n } => {
                cum += n;
                if n < offered {
                    f.short = true;
                }
            }
            REv::Eof { scripted } => {
                f.eof_seen = true;
                f.eof_scripted |= scripted;
            }
            REv::Eintr => f.eintrs += 1,
            REv::Fatal(k) => {
                if f.fatals.is_empty() {
                    f.delivered_before_first_fatal = cum;
                }
                f.fatals.push(k);
            }
            REv::EmptyOffer => f.empty_offers += 1,
        }
    }
    f
}

/// A-priori view of a script (independent of the helper): bytes before the first Eof / fatal
/// error op. Used for capacity choices ("exact fit") and stream sizing only, never as oracle.
pub fn script_stream(ops: &[ROp]) -> Vec<u8> {
    let mut out = Vec::new();
    for op in ops {
        match op {
            ROp::Data(b) => out.extend_from_slice(&b.0),
            ROp::Eintr => {}
            ROp::Err(k) if k.is_eintr() => {}
            ROp::Eof | ROp::Err(_) => break,
        }
    }
    out
}

// ------------------------------------------------------------------------------------ writer

#[derive(Debug, Clone, Copy, PartialEq, Eq, Serialize, Deserialize)]
pub enum WOp {
    /// accept `min(k, offered)` bytes (k = 0 is treated as 1)
    Accept(u32),
    /// `Ok(0)` to a non-empty offer
    Zero,
    Eintr,
    Err(EK),
}

#[derive(Debug, Clone, Copy, PartialEq, Eq)]
pub enum WEv {
    Accept { offered: usize, n: usize },
    Zero,
    Eintr,
    Fatal(EK),
    EmptyOffer,
}

pub struct ScriptedWriter<'a> {
    ops: &'a [WOp],
    pos: usize,
    pub sink: Vec<u8>,
    pub trace: Vec<WEv>,
    pub calls: usize,
    pub flushes: usize,
    budget: usize,
    pub abused: bool,
}

impl<'a> ScriptedWriter<'a> {
    pub fn new(ops: &'a [WOp], data_len: usize) -> Self {
        ScriptedWriter { ops, pos: 0, sink: Vec::new(), trace: Vec::new(), calls: 0, flushes: 0, budget: ops.len() + data_len + 300, abused: false }
    }
}

impl Write for ScriptedWriter<'_> {
    fn write(&mut self, buf: &[u8]) -> tiny_std::Result<usize> {
        self.calls += 1;
        if self.calls > self.budget {
            self.abused = true;
            panic!("C15 guard: scripted writer called {} times (script of {} ops): the helper does not terminate", self.calls, self.ops.len());
        }
        if buf.is_empty() {
            self.trace.push(WEv::EmptyOffer);
            return Ok(0);
        }
        let Some(op) = self.ops.get(self.pos) else {
            // script ran out: accept everything
            self.sink.extend_from_slice(buf);
            self.trace.push(WEv::Accept { offered: buf.len(), n: buf.len() });
            return Ok(buf.len());
        };
        self.pos += 1;
        match *op {
            WOp::Accept(k) => {
                let n = (k.max(1) as usize).min(buf.len());
                self.sink.extend_from_slice(&buf[..n]);
                self.trace.push(WEv::Accept { offered: buf.len(), n });
                Ok(n)
            }
            WOp::Zero => {
                self.trace.push(WEv::Zero);
                Ok(0)
            }
            WOp::Eintr => {
                self.trace.push(WEv::Eintr);
                Err(EK::Os(EINTR).to_err())
            }
            WOp::Err(k) => {
                if k.is_eintr() {
                    self.trace.push(WEv::Eintr);
                } else {
                    self.trace.push(WEv::Fatal(k));
                }
                Err(k.to_err())
            }
        }
    }

    fn flush(&mut self) -> tiny_std::Result<()> {
        self.flushes += 1;
        Ok(())
    }
}

#[derive(Debug, Default)]
pub struct WFacts {
    pub fatals: Vec<EK>,
    pub zero_seen: bool,
    pub eintrs: usize,
    pub short: bool,
    pub accepted_before_first_stop: usize,
}

pub fn wfacts(trace: &[WEv]) -> WFacts {
    let mut f = WFacts::default();
    let mut cum = 0;
    for ev in trace {
        match *ev {
            WEv::Accept { offered, n } => {
                cum += n;
                if n < offered {
                    f.short = true;
                }
            }
            WEv::Zero => {
                if !f.zero_seen && f.fatals.is_empty() {
                    f.accepted_before_first_stop = cum;
                }
                f.zero_seen = true;
            }
            WEv::Eintr => f.eintrs += 1,
            WEv::Fatal(k) => {
                if !f.zero_seen && f.fatals.is_empty() {
                    f.accepted_before_first_stop = cum;
                }
                f.fatals.push(k);
            }
            WEv::EmptyOffer => {}
        }
    }
    f
}
