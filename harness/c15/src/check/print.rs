//! E2 part: `tiny_std::print!/println!/eprint!/eprintln!` under clamped `write(2)` lengths.
//!
//! fd 1 (or 2) is replaced by a pipe for the duration of one macro invocation; the `sc`
//! interposer clamps the length argument of `write` so that the kernel performs genuine short
//! writes. The pipe must receive exactly the formatted bytes, once and in order.
use sc::verif::{self, Action, Rule};
use serde_json::json;
use vh::runner::{no_panic, CaseReport, CaseResult, Ctx};
use vh::util::escape;
use vh::ensure;

use super::gen::{self, Piece, Pieces, PrintCase, PrintKind};

pub fn template_args(p: &[Piece]) -> (String, i64, u32) {
    let a = p.iter().find_map(|x| if let Piece::S(s) = x { Some(s.clone()) } else { None }).unwrap_or_default();
    let b = p.iter().find_map(|x| if let Piece::I(i) = x { Some(*i) } else { None }).unwrap_or(0);
    let x = p.iter().find_map(|x| if let Piece::Hex(h) = x { Some(*h) } else { None }).unwrap_or(0);
    (a, b, x)
}

pub fn template_string(p: &[Piece]) -> String {
    let (a, b, x) = template_args(p);
    format!("[{}] {:>6}={:#06x}|{}\n", a, b, x, Pieces(p))
}

/// Output larger than this is not attempted (the pipe must never fill: nobody drains it while
/// the macro runs).
const MAX_OUT: usize = 24 * 1024;

/// Run `f` with `fd` replaced by the write end of a fresh pipe; returns what the pipe received.
fn capture<R>(fd: i32, f: impl FnOnce() -> R) -> Result<(R, Vec<u8>), String> {
    unsafe {
        let mut p = [0i32; 2];
        if libc::pipe2(p.as_mut_ptr(), libc::O_CLOEXEC) != 0 {
            return Err("pipe2 failed".into());
        }
        // room for far more than any expected text, and a full pipe answers EAGAIN instead of
        // blocking: code that writes too much (duplicated text, endless re-sending) must end in a
        // wrong-output report, not in a harness that waits for itself
        libc::fcntl(p[1], libc::F_SETPIPE_SZ, 1 << 20);
        let fl = libc::fcntl(p[1], libc::F_GETFL);
        libc::fcntl(p[1], libc::F_SETFL, fl | libc::O_NONBLOCK);
        let saved = libc::fcntl(fd, libc::F_DUPFD_CLOEXEC, 800);
        if saved < 0 {
            libc::close(p[0]);
            libc::close(p[1]);
            return Err("dup of the original descriptor failed".into());
        }
        if libc::dup2(p[1], fd) < 0 {
            libc::close(p[0]);
            libc::close(p[1]);
            libc::close(saved);
            return Err("dup2 failed".into());
        }
        libc::close(p[1]);
        let r = f();
        // restore: this also closes the last write end of the pipe
        libc::dup2(saved, fd);
        libc::close(saved);
        let mut out = Vec::new();
        let mut buf = [0u8; 4096];
        loop {
            let n = libc::read(p[0], buf.as_mut_ptr().cast(), buf.len());
            if n > 0 {
                out.extend_from_slice(&buf[..n as usize]);
            } else if n == 0 {
                break;
            } else if *libc::__errno_location() != libc::EINTR {
                libc::close(p[0]);
                return Err("read from the capture pipe failed".into());
            }
        }
        libc::close(p[0]);
        Ok((r, out))
    }
}

fn invoke(c: &PrintCase) {
    let p = &c.pieces;
    if c.template && !matches!(c.kind, PrintKind::PrintlnBare | PrintKind::EprintlnBare) {
        let (a, b, x) = template_args(p);
        match c.kind {
            PrintKind::Print => tiny_std::print!("[{}] {:>6}={:#06x}|{}\n", a, b, x, Pieces(p)),
            PrintKind::Println => tiny_std::println!("[{}] {:>6}={:#06x}|{}\n", a, b, x, Pieces(p)),
            PrintKind::Eprint => tiny_std::eprint!("[{}] {:>6}={:#06x}|{}\n", a, b, x, Pieces(p)),
            PrintKind::Eprintln => tiny_std::eprintln!("[{}] {:>6}={:#06x}|{}\n", a, b, x, Pieces(p)),
            _ => unreachable!(),
        }
        return;
    }
    match c.kind {
        PrintKind::Print => tiny_std::print!("{}", Pieces(p)),
        PrintKind::Println => tiny_std::println!("{}", Pieces(p)),
        PrintKind::PrintlnBare => tiny_std::println!(),
        PrintKind::Eprint => tiny_std::eprint!("{}", Pieces(p)),
        PrintKind::Eprintln => tiny_std::eprintln!("{}", Pieces(p)),
        PrintKind::EprintlnBare => tiny_std::eprintln!(),
    }
}

fn expected(c: &PrintCase) -> String {
    let bare = matches!(c.kind, PrintKind::PrintlnBare | PrintKind::EprintlnBare);
    let mut s = if bare {
        String::new()
    } else if c.template {
        template_string(&c.pieces)
    } else {
        format!("{}", Pieces(&c.pieces))
    };
    if !matches!(c.kind, PrintKind::Print | PrintKind::Eprint) {
        s.push('\n');
    }
    s
}

fn target_fd(k: PrintKind) -> i32 {
    match k {
        PrintKind::Print | PrintKind::Println | PrintKind::PrintlnBare => 1,
        _ => 2,
    }
}

fn op_name(k: PrintKind) -> &'static str {
    match k {
        PrintKind::Print => "print!",
        PrintKind::Println | PrintKind::PrintlnBare => "println!",
        PrintKind::Eprint => "eprint!",
        PrintKind::Eprintln | PrintKind::EprintlnBare => "eprintln!",
    }
}

pub fn check_print(c: &PrintCase) -> CaseResult {
    let mut rep = CaseReport::new();
    let op = op_name(c.kind);
    let exp = expected(c);
    if exp.len() > MAX_OUT {
        rep.class("skipped-too-large");
        return Ok(rep);
    }
    let mut rules = Vec::new();
    for (i, &k) in c.clamps.iter().enumerate() {
        rules.push(Rule { nr: Some(sc::nr::WRITE), nth: Some(i), action: Action::ClampArg { idx: 2, max: (k as usize).max(1) }, times: 1 });
    }
    if let Some(k) = c.rest {
        rules.push(Rule { nr: Some(sc::nr::WRITE), nth: None, action: Action::ClampArg { idx: 2, max: (k as usize).max(1) }, times: usize::MAX });
    }
    let fd = target_fd(c.kind);
    let cap = capture(fd, || {
        verif::plan(rules);
        // every write moves at least one byte of the text: more calls than bytes is a loop
        verif::set_call_limit(exp.len() + 64);
        verif::log_begin();
        let r = no_panic(op, || invoke(c));
        let log = verif::log_end();
        verif::clear_plan();
        (r, log)
    });
    let ((r, log), got) = match cap {
        Ok(v) => v,
        Err(why) => {
            // infrastructure, not a verdict
            eprintln!("[C15:print] capture unavailable: {why}");
            rep.class("capture-unavailable");
            return Ok(rep);
        }
    };
    r?;
    let writes: Vec<_> = log.iter().filter(|c| c.nr == sc::nr::WRITE && c.args[0] == fd as usize).collect();
    let short = writes.len() >= 2 && writes.iter().any(|w| (w.ret as isize) > 0);
    // a short write happened iff some write returned less than the piece it was given; since
    // the log holds the clamped length, detect it as "more writes than write_str calls"
    let shape = if got.len() < exp.len() {
        if exp.as_bytes().starts_with(&got) { "text lost at the end" } else { "text lost or reordered" }
    } else if got.len() > exp.len() {
        "text duplicated"
    } else {
        "different bytes"
    };
    ensure!(got == exp.as_bytes(), format!("{op}|wrong-output|{shape}"), "{op} under write(2) clamps {:?}/rest {:?}: fd {fd} received \"{}\" ({} bytes) in {} write calls, expected \"{}\" ({} bytes)", c.clamps, c.rest, escape(&got[..got.len().min(200)]), got.len(), writes.len(), escape(&exp.as_bytes()[..exp.len().min(200)]), exp.len());
    let min_clamp = c.clamps.iter().copied().chain(c.rest).min();
    let any_clamped = writes.iter().enumerate().any(|(i, w)| {
        let k = c.clamps.get(i).copied().or(c.rest);
        matches!(k, Some(k) if w.args[2] == (k as usize).max(1) && (w.ret as isize) > 0)
    });
    rep.nontrivial_if(any_clamped && short);
    rep.class_if(any_clamped, "short-write-performed");
    rep.class_if(matches!(min_clamp, Some(1)), "one-byte-writes");
    rep.class_if(fd == 2, "stderr");
    rep.class_if(fd == 1, "stdout");
    rep.class_if(!matches!(c.kind, PrintKind::Print | PrintKind::Eprint), "newline-variant");
    rep.class_if(matches!(c.kind, PrintKind::PrintlnBare | PrintKind::EprintlnBare), "bare-newline");
    rep.class_if(exp.len() >= 1024, "kib-output");
    rep.class_if(writes.len() >= 10, "ten-or-more-writes");
    Ok(rep)
}

/// Observation only (outside the literal statement, which speaks about `io::Write`): what
/// happens to `print!` when `write(2)` is interrupted (EINTR) once. Recorded in the evidence
/// as counters; never a failure.
fn observe_eintr(ctx: &Ctx) {
    let text = "0123456789abcdefghijklmnopqrstuvwxyz";
    let mut lost = 0u64;
    let mut total = 0u64;
    for nth in 0..2usize {
        let cap = capture(1, || {
            verif::plan(vec![
                Rule { nr: Some(sc::nr::WRITE), nth: Some(nth), action: Action::ForceRet(verif::neg_errno(libc::EINTR)), times: 1 },
                Rule { nr: Some(sc::nr::WRITE), nth: None, action: Action::ClampArg { idx: 2, max: 10 }, times: usize::MAX },
            ]);
            let r = vh::runner::catch(|| tiny_std::print!("{}", text));
            verif::clear_plan();
            r.is_ok()
        });
        if let Ok((_, got)) = cap {
            total += 1;
            if got != text.as_bytes() {
                lost += 1;
            }
        }
    }
    ctx.extra("print_eintr_observed", json!(total));
    ctx.extra("print_eintr_text_lost", json!(lost));
}

pub fn run(ctx: &Ctx) {
    ctx.run_prop("print", ctx.cases(250, 6000), gen::print_case(), check_print);
    if !ctx.is_replay() && ctx.worker == 0 {
        observe_eintr(ctx);
    }
}
