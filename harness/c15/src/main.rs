//! Harness binary for property C15. `c15 C15 [--seed N --worker I --nworkers N --tier T --out F --replay F]`.
fn main() {
    vh::runner::main_for(|ctx| c15::check::run(ctx));
}
