//! C15 oracle as a library (used by the `c15` binary and by the libFuzzer target `io_script`).
pub mod check;
