//! C15 — Read/Write helpers are exact for any pattern of short transfers, EINTR, errors.
//!
//! `tiny_std::io::{Read, Write}` default methods (`read_to_end`, `read_to_string`,
//! `read_exact`, `write_all`, `write_fmt`) are driven by scripted readers/writers (see
//! `script.rs`). The oracle is evaluated over the trace of what the scripted peer really
//! answered during the call:
//!
//! * `read_to_end`  — `Ok(n)` only after an EOF answer and with no non-EINTR error answered;
//!   then `buf == old ++ delivered` and `n == delivered.len()`. `Err(e)` only if the reader
//!   answered a non-EINTR error `e`; then `buf == old ++ (a prefix of delivered)` (the property
//!   does not say how much of the partial data stays; it may never be anything the reader did
//!   not deliver).
//! * `read_to_string` — as above; if the delivered bytes are not UTF-8: `Err` and the String is
//!   byte-identical to before (when the stream was cut short by a reader error, old ++ a valid
//!   prefix of the delivered bytes is accepted as well - and the error returned is the reader's,
//!   not "not UTF-8": the stream failed, it did not end). The String is valid UTF-8 at every exit.
//! * `read_exact` — `Ok` iff n bytes were delivered with no EOF / error answer before; buffer
//!   equals the delivered bytes; exactly n bytes consumed. EOF before n ⇒ `Err`.
//! * `write_all` / `write_fmt` — `Ok` ⇒ sink == bytes exactly; `Err(e)` ⇒ the writer answered a
//!   non-EINTR error `e` (or `Ok(0)`: any "wrote zero" error), and the sink is a prefix of the
//!   bytes; a non-EINTR error answer is never swallowed; EINTR alone never fails the call.
//! * `print!` family (E2) — with `write(2)` lengths clamped by the `sc` interposer (real short
//!   writes into a pipe replacing fd 1/2) the pipe receives exactly the formatted bytes.
pub mod gen;
pub mod print;
pub mod script;

use serde::de::DeserializeOwned;
use serde::Serialize;
use tiny_std::io::{Read, Write};
use vh::runner::{no_panic, CaseReport, CaseResult, Ctx, Failure};
use vh::util::escape;
use vh::{ensure, fail};

use gen::{ExactCase, FmtCase, Pieces, ReadCase, Stubborn, WriteCase};
use script::{rfacts, wfacts, REv, RFacts, ScriptedReader, ScriptedWriter, WEv, EK};

const POISON: u8 = 0xEE;

fn show(b: &[u8]) -> String {
    if b.len() <= 96 {
        format!("\"{}\"", escape(b))
    } else {
        format!("\"{}\"..({} bytes)..\"{}\"", escape(&b[..40]), b.len(), escape(&b[b.len() - 24..]))
    }
}

/// How `got` differs from `old ++ delivered` (stable, small vocabulary for signatures).
fn diff_shape(got: &[u8], old: &[u8], delivered: &[u8]) -> &'static str {
    if got.len() < old.len() || got[..old.len()] != *old {
        return "existing content changed";
    }
    let tail = &got[old.len()..];
    if tail.len() > delivered.len() {
        if tail[..delivered.len()] == *delivered {
            "length ahead of delivered data"
        } else {
            "longer and different"
        }
    } else if tail.len() < delivered.len() {
        if *tail == delivered[..tail.len()] {
            "delivered bytes missing at the end"
        } else {
            "shorter and different"
        }
    } else {
        "same length, different bytes"
    }
}

fn mk_vec(init: &[u8], cap_extra: usize) -> Vec<u8> {
    let mut v: Vec<u8> = Vec::with_capacity(init.len() + cap_extra);
    v.extend_from_slice(init);
    // spare capacity holds a recognisable pattern: if the helper's length ever runs ahead of
    // what the reader delivered, the exposed bytes are not the expected data
    for b in v.spare_capacity_mut() {
        b.write(POISON);
    }
    v
}

/// Which internal path of the copied std algorithm the trace went through (labels only).
fn read_path_classes(rep: &mut CaseReport, trace: &[REv], spare0: usize, grew: bool) {
    rep.class_if(spare0 == 0, "cap==len");
    rep.class_if(grew, "growth");
    if spare0 > 0 {
        let mut cum = 0;
        let mut probe_from = None;
        for (i, ev) in trace.iter().enumerate() {
            if let REv::Data { n, .. } = ev {
                cum += n;
                if cum == spare0 {
                    probe_from = Some(i + 1);
                    break;
                }
                if cum > spare0 {
                    break;
                }
            }
        }
        if let Some(from) = probe_from {
            let mut eintr = false;
            for ev in &trace[from..] {
                match ev {
                    REv::Eintr => eintr = true,
                    REv::Eof { .. } => {
                        rep.class("exact-fit-probe-eof");
                        rep.class_if(!grew, "exact-fit-capacity-kept");
                        break;
                    }
                    REv::Data { .. } => {
                        rep.class("probe-got-data");
                        break;
                    }
                    REv::Fatal(_) => {
                        rep.class("probe-got-error");
                        break;
                    }
                    REv::EmptyOffer => {}
                }
            }
            rep.class_if(eintr, "eintr-at-probe");
        }
    }
}

fn common_read_classes(rep: &mut CaseReport, f: &RFacts, rd: &ScriptedReader, scribble: bool) {
    rep.nontrivial_if(f.short && f.eintrs >= 1);
    rep.class_if(f.short, "short-transfer");
    rep.class_if(f.eintrs >= 1, "eintr");
    rep.class_if(matches!(rd.trace.first(), Some(REv::Eintr)), "eintr-first-call");
    rep.class_if(!f.fatals.is_empty() && f.delivered_before_first_fatal > 0, "error-mid-stream");
    rep.class_if(!f.fatals.is_empty() && f.delivered_before_first_fatal == 0, "error-first");
    rep.class_if(f.eof_scripted && rd.ops_left() > 0, "eof-op-before-more-script");
    rep.class_if(rd.delivered.is_empty(), "empty-stream");
    rep.class_if(rd.delivered.len() >= 1024, "kib-stream");
    rep.class_if(rd.op_split_by_offer, "data-op-larger-than-offer");
    rep.class_if(scribble, "reader-scribbles-unfilled");
    rep.class_if(f.polls_after_eof > 0, "polled-again-after-eof");
}

/// Map a panic of the helper: the termination guard of the scripted peer gets its own signature.
fn guard<R>(op: &str, abused: bool, r: Result<R, Failure>) -> Result<R, Failure> {
    match r {
        Ok(v) => Ok(v),
        Err(f) if abused => Err(Failure::new(format!("{op}|no-termination|peer polled beyond its call budget"), f.what)),
        Err(f) => Err(f),
    }
}

// --------------------------------------------------------------------------------- read_to_end

pub fn check_read_to_end(c: &ReadCase) -> CaseResult {
    let op = "read_to_end";
    let mut rep = CaseReport::new();
    let old = &c.init.0;
    let mut v = mk_vec(old, c.cap_extra as usize);
    let cap0 = v.capacity();
    let spare0 = cap0 - v.len();
    let mut rd = ScriptedReader::new(&c.script, c.scribble);
    let res = no_panic(op, || Read::read_to_end(&mut rd, &mut v));
    let res = guard(op, rd.abused, res)?;
    let f = rfacts(&rd.trace);
    let d = &rd.delivered;
    match res {
        Ok(n) => {
            ensure!(f.fatals.is_empty(), format!("{op}|error-swallowed"), "reader answered {} but {op} returned Ok({n})", f.fatals[0].label());
            ensure!(f.eof_seen, format!("{op}|returned-before-eof"), "{op} returned Ok({n}) although the reader never answered Ok(0) ({} ops unread)", rd.ops_left());
            let exp: Vec<u8> = [old.as_slice(), d.as_slice()].concat();
            ensure!(v == exp, format!("{op}|wrong-bytes|{}", diff_shape(&v, old, d)), "after Ok({n}): buf = {} (len {}), expected old ++ delivered = {} (len {}); capacity {}→{}", show(&v), v.len(), show(&exp), exp.len(), cap0, v.capacity());
            ensure!(n == d.len(), format!("{op}|wrong-count"), "{op} returned Ok({n}) but the reader delivered {} bytes", d.len());
        }
        Err(e) => {
            let k = EK::of(&e);
            if f.fatals.is_empty() {
                if k.is_eintr() {
                    fail!(format!("{op}|eintr-surfaced"), "{op} returned EINTR to the caller instead of retrying (reader answered only data/EINTR/EOF)");
                }
                fail!(format!("{op}|invented-error"), "{op} returned Err({e}) but the reader never answered an error");
            }
            ensure!(f.fatals.contains(&k), format!("{op}|wrong-error"), "{op} returned Err({e}), the reader answered {}", f.fatals[0].label());
            let ok = v.len() >= old.len() && v[..old.len()] == **old && d.starts_with(&v[old.len()..]);
            ensure!(ok, format!("{op}|wrong-bytes-on-error|{}", diff_shape(&v, old, d)), "after Err({e}): buf = {} which is not old ++ a prefix of the delivered bytes {}", show(&v), show(d));
            rep.class_if(v.len() == old.len() + d.len() && !d.is_empty(), "error-partial-data-kept");
        }
    }
    read_path_classes(&mut rep, &rd.trace, spare0, v.capacity() > cap0);
    common_read_classes(&mut rep, &f, &rd, c.scribble);
    Ok(rep)
}

// ------------------------------------------------------------------------------ read_to_string

pub fn check_read_to_string(c: &ReadCase) -> CaseResult {
    let op = "read_to_string";
    let mut rep = CaseReport::new();
    let old_s: String = String::from_utf8_lossy(&c.init.0).into_owned();
    let old = old_s.as_bytes();
    let mut s = String::from_utf8(mk_vec(old, c.cap_extra as usize)).expect("initial content is UTF-8");
    let cap0 = s.capacity();
    let spare0 = cap0 - s.len();
    let mut rd = ScriptedReader::new(&c.script, c.scribble);
    let res = no_panic(op, || Read::read_to_string(&mut rd, &mut s));
    let res = guard(op, rd.abused, res)?;
    let f = rfacts(&rd.trace);
    let d = &rd.delivered;
    let got = s.as_bytes();
    let d_valid = std::str::from_utf8(d).is_ok();
    // memory-safety invariant of String, at every exit
    ensure!(std::str::from_utf8(got).is_ok(), format!("{op}|string-holds-invalid-utf8"), "String contains invalid UTF-8 after the call: {}", show(got));
    match res {
        Ok(n) => {
            ensure!(d_valid, format!("{op}|invalid-utf8-accepted"), "delivered bytes {} are not UTF-8 but {op} returned Ok({n})", show(d));
            ensure!(f.fatals.is_empty(), format!("{op}|error-swallowed"), "reader answered {} but {op} returned Ok({n})", f.fatals[0].label());
            ensure!(f.eof_seen, format!("{op}|returned-before-eof"), "{op} returned Ok({n}) although the reader never answered Ok(0)");
            let exp: Vec<u8> = [old, d.as_slice()].concat();
            ensure!(got == exp, format!("{op}|wrong-bytes|{}", diff_shape(got, old, d)), "after Ok({n}): string = {} (len {}), expected {} (len {})", show(got), got.len(), show(&exp), exp.len());
            ensure!(n == d.len(), format!("{op}|wrong-count"), "{op} returned Ok({n}) but the reader delivered {} bytes", d.len());
        }
        Err(e) => {
            let k = EK::of(&e);
            if !d_valid {
                // End of file reached: the data is definitely not UTF-8 and the String must be
                // untouched. If the stream was cut short by a reader error, "the data is not
                // UTF-8" and "partial data of a failed read stays" both apply: besides
                // "unchanged", old ++ (a valid-UTF-8 prefix of the delivered bytes) is accepted
                // (validity of the whole String was checked above).
                let unchanged = got == old;
                let kept_prefix = !f.fatals.is_empty() && got.len() >= old.len() && got[..old.len()] == *old && d.starts_with(&got[old.len()..]);
                let shape = if got.len() >= old.len() && got[..old.len()] == *old { "bytes appended" } else { "existing content changed" };
                ensure!(unchanged || kept_prefix, format!("{op}|string-changed-on-invalid-utf8|{shape}"), "delivered bytes {} are not UTF-8; the String must be unchanged ({}), it is {}", show(d), show(old), show(got));
                // the stream did not end, it failed: that error is the one to surface (the bytes so far not being
                // UTF-8 - perhaps only because the failure fell inside a scalar - does not replace it)
                if !f.fatals.is_empty() {
                    ensure!(f.fatals.contains(&k), format!("{op}|reader-error-replaced|by the not-UTF-8 error"), "the reader answered {} after delivering {} (not UTF-8 as it stands); {op} returned Err({e}) instead of the reader's error", f.fatals[0].label(), show(d));
                }
                rep.class("invalid-utf8-rejected");
                rep.class_if(!f.fatals.is_empty(), "invalid-utf8-and-error");
            } else {
                if f.fatals.is_empty() {
                    if k.is_eintr() {
                        fail!(format!("{op}|eintr-surfaced"), "{op} returned EINTR to the caller instead of retrying");
                    }
                    fail!(format!("{op}|invented-error"), "{op} returned Err({e}) for a valid UTF-8 stream {} from a reader that never answered an error", show(d));
                }
                ensure!(f.fatals.contains(&k), format!("{op}|wrong-error"), "{op} returned Err({e}), the reader answered {}", f.fatals[0].label());
                let ok = got.len() >= old.len() && got[..old.len()] == *old && d.starts_with(&got[old.len()..]);
                ensure!(ok, format!("{op}|wrong-bytes-on-error|{}", diff_shape(got, old, d)), "after Err({e}): string = {} which is not old ++ a prefix of the delivered bytes {}", show(got), show(d));
                rep.class_if(got.len() == old.len() + d.len() && !d.is_empty(), "error-partial-data-kept");
            }
        }
    }
    // a delivery boundary inside a multi-byte scalar
    if d_valid {
        let ds = std::str::from_utf8(d).unwrap();
        let mut cum = 0;
        let mut split = false;
        for ev in &rd.trace {
            if let REv::Data { n, .. } = ev {
                cum += n;
                if cum < d.len() && !ds.is_char_boundary(cum) {
                    split = true;
                }
            }
        }
        rep.class_if(split, "split-utf8-scalar");
        rep.class_if(ds.chars().any(|c| c.len_utf8() == 4), "four-byte-scalar");
    }
    read_path_classes(&mut rep, &rd.trace, spare0, s.capacity() > cap0);
    common_read_classes(&mut rep, &f, &rd, c.scribble);
    Ok(rep)
}

// ---------------------------------------------------------------------------------- read_exact

pub fn check_read_exact(c: &ExactCase) -> CaseResult {
    let op = "read_exact";
    let mut rep = CaseReport::new();
    let n = c.n as usize;
    let mut buf = vec![POISON; n];
    let mut rd = ScriptedReader::new(&c.script, c.scribble);
    let res = no_panic(op, || Read::read_exact(&mut rd, &mut buf));
    let res = guard(op, rd.abused, res)?;
    let f = rfacts(&rd.trace);
    let d = &rd.delivered;
    match res {
        Ok(()) => {
            ensure!(f.fatals.is_empty(), format!("{op}|error-swallowed"), "reader answered {} but {op} returned Ok", f.fatals[0].label());
            ensure!(!f.eof_seen, format!("{op}|ok-after-eof"), "reader answered Ok(0) before {n} bytes were delivered but {op} returned Ok (it read on past the end of file)");
            ensure!(d.len() == n, format!("{op}|wrong-amount-consumed"), "{op}({n}) returned Ok after consuming {} bytes from the reader", d.len());
            ensure!(buf == *d, format!("{op}|wrong-bytes"), "{op}({n}): buffer = {}, delivered = {}", show(&buf), show(d));
            rep.class("filled");
            rep.class_if(rd.ops_left() > 0 || script::script_stream(&c.script).len() > n, "reader-has-more");
        }
        Err(e) => {
            let k = EK::of(&e);
            if !f.fatals.is_empty() {
                ensure!(f.fatals.contains(&k), format!("{op}|wrong-error"), "{op} returned Err({e}), the reader answered {}", f.fatals[0].label());
            } else if f.eof_seen {
                ensure!(!k.is_eintr(), format!("{op}|eintr-surfaced"), "{op} returned EINTR");
                rep.class("eof-before-full");
                rep.class_if(d.len() + 1 == n, "one-byte-short");
            } else if k.is_eintr() {
                fail!(format!("{op}|eintr-surfaced"), "{op} returned EINTR to the caller instead of retrying");
            } else {
                fail!(format!("{op}|invented-error"), "{op}({n}) returned Err({e}) although the reader answered neither EOF nor an error ({} bytes delivered)", d.len());
            }
        }
    }
    rep.class_if(n == 0, "zero-length");
    common_read_classes(&mut rep, &f, &rd, c.scribble);
    Ok(rep)
}

// ------------------------------------------------------------------------- write_all/write_fmt

fn sink_shape(sink: &[u8], data: &[u8]) -> &'static str {
    if sink.len() > data.len() {
        if sink[..data.len()] == *data { "extra bytes after the data (duplicate delivery)" } else { "longer and different (duplicate or reordered)" }
    } else if data.starts_with(sink) {
        "bytes missing at the end"
    } else {
        "different bytes (skipped or reordered)"
    }
}

fn judge_write(op: &str, res: tiny_std::Result<()>, w: &ScriptedWriter, data: &[u8], prefix_required: bool, rep: &mut CaseReport) -> Result<(), Failure> {
    let f = wfacts(&w.trace);
    match res {
        Ok(()) => {
            ensure!(f.fatals.is_empty(), format!("{op}|error-swallowed"), "writer answered {} but {op} returned Ok", f.fatals[0].label());
            ensure!(w.sink == data, format!("{op}|wrong-bytes|{}", sink_shape(&w.sink, data)), "{op} returned Ok: sink = {} (len {}), expected {} (len {})", show(&w.sink), w.sink.len(), show(data), data.len());
            rep.class("complete");
        }
        Err(e) => {
            let k = EK::of(&e);
            if f.fatals.is_empty() && !f.zero_seen {
                if k.is_eintr() {
                    fail!(format!("{op}|eintr-surfaced"), "{op} returned EINTR to the caller instead of retrying (writer answered only accept/EINTR)");
                }
                fail!(format!("{op}|invented-error"), "{op} returned Err({e}) but the writer never answered an error or Ok(0)");
            }
            if !f.zero_seen {
                ensure!(f.fatals.contains(&k), format!("{op}|wrong-error"), "{op} returned Err({e}), the writer answered {}", f.fatals[0].label());
            } else {
                ensure!(!k.is_eintr(), format!("{op}|eintr-surfaced"), "{op} returned EINTR");
            }
            ensure!(!prefix_required || data.starts_with(&w.sink), format!("{op}|wrong-bytes-on-error|{}", sink_shape(&w.sink, data)), "{op} returned Err({e}): sink = {} is not a prefix of {}", show(&w.sink), show(data));
            rep.class_if(!f.fatals.is_empty() && f.accepted_before_first_stop > 0, "error-mid-stream");
            rep.class_if(!f.fatals.is_empty() && f.accepted_before_first_stop == 0, "error-first");
            rep.class_if(f.zero_seen, "wrote-zero");
        }
    }
    rep.nontrivial_if(f.short && f.eintrs >= 1);
    rep.class_if(f.short, "short-transfer");
    rep.class_if(f.eintrs >= 1, "eintr");
    rep.class_if(matches!(w.trace.first(), Some(WEv::Eintr)), "eintr-first-call");
    rep.class_if(data.is_empty(), "empty-data");
    rep.class_if(data.len() >= 1024, "kib-data");
    Ok(())
}

pub fn check_write_all(c: &WriteCase) -> CaseResult {
    let op = "write_all";
    let mut rep = CaseReport::new();
    let data = &c.data.0;
    let mut w = ScriptedWriter::new(&c.script, data.len());
    let res = no_panic(op, || Write::write_all(&mut w, data));
    let res = guard(op, w.abused, res)?;
    judge_write(op, res, &w, data, true, &mut rep)?;
    Ok(rep)
}

/// Argument-free format strings (the text a `write!(w, "...")` without arguments passes): the list
/// and the call sites are generated together because `format_args!` needs the literal itself.
macro_rules! literal_formats {
    ($($lit:literal),* $(,)?) => {
        pub const LITERALS: &[&str] = &[$($lit),*];
        fn write_literal<W: Write>(w: &mut W, k: usize) -> tiny_std::Result<()> {
            let mut i = 0usize;
            $(
                if k == i {
                    return Write::write_fmt(w, format_args!($lit));
                }
                i += 1;
            )*
            let _ = i;
            Ok(())
        }
    };
}
literal_formats!(
    "",
    "x",
    "a pla",
    "0123456789abcdef0123456789abcde",
    "0123456789abcdef0123456789abcdef",
    "0123456789abcdef0123456789abcdef0",
    "gr\u{fc}\u{df}e \u{2192} \u{1d11e} tab\tnewline\nquote\" end",
    "Lorem ipsum dolor sit amet, consectetur adipiscing elit, sed do eiusmod tempor incididunt ut labore et dolore magna aliqua. Ut enim ad minim veniam, quis nostrud exercitation ullamco laboris nisi ut aliquip ex ea commodo consequat. Duis aute irure dolor in reprehenderit in voluptate velit esse cillum dolore eu fugiat nulla pariatur.",
);
pub const N_LITERALS: u8 = 8;

pub fn check_write_fmt(c: &FmtCase) -> CaseResult {
    let op = "write_fmt";
    let mut rep = CaseReport::new();
    let p = &c.pieces;
    let lit = (c.literal as usize).min(LITERALS.len());
    let expected: String = if lit > 0 { LITERALS[lit - 1].to_string() } else if c.template { print::template_string(p) } else { format!("{}", Pieces(p)) };
    let data = expected.as_bytes();
    let mut w = ScriptedWriter::new(&c.script, data.len());
    let res = no_panic(op, || {
        if lit > 0 {
            write_literal(&mut w, lit - 1)
        } else if c.template {
            let (a, b, x) = print::template_args(p);
            if c.stubborn {
                Write::write_fmt(&mut w, format_args!("[{}] {:>6}={:#06x}|{}\n", a, b, x, Stubborn(p)))
            } else {
                Write::write_fmt(&mut w, format_args!("[{}] {:>6}={:#06x}|{}\n", a, b, x, Pieces(p)))
            }
        } else if c.stubborn {
            Write::write_fmt(&mut w, format_args!("{}", Stubborn(p)))
        } else {
            Write::write_fmt(&mut w, format_args!("{}", Pieces(p)))
        }
    });
    let res = guard(op, w.abused, res)?;
    // (a formatting impl that keeps writing after an error leaves a gap in the sink: its doing, not the helper's)
    judge_write(op, res, &w, data, !c.stubborn, &mut rep)?;
    let had_error_then_success = {
        let first_err = w.trace.iter().position(|e| matches!(e, WEv::Fatal(_)));
        matches!(first_err, Some(i) if w.trace[i + 1..].iter().any(|e| matches!(e, WEv::Accept { n, .. } if *n > 0)))
    };
    rep.class_if(c.stubborn, "formatting-impl-keeps-writing-after-an-error");
    rep.class_if(c.stubborn && had_error_then_success, "writer-error-followed-by-accepted-piece");
    rep.class_if(c.template && lit == 0, "template");
    rep.class_if(lit > 0, "argument-free-format-string");
    rep.class_if(w.calls >= 3, "several-write-str-calls");
    Ok(rep)
}

// ----------------------------------------------------------------------------------------- run

fn grid<C: Serialize + DeserializeOwned>(ctx: &Ctx, name: &str, what: &str, cases: impl FnOnce() -> Vec<C>, f: impl Fn(&C) -> CaseResult) {
    if ctx.is_replay() {
        if let Some(c) = ctx.replay_case::<C>(name) {
            ctx.run_one(name, &c, || f(&c));
        }
        return;
    }
    let cases = cases();
    let mut ok = true;
    for (i, c) in cases.iter().enumerate() {
        if i % ctx.nworkers as usize != ctx.worker as usize {
            continue;
        }
        ok = ctx.run_one(name, c, || f(c));
        if !ok {
            break;
        }
    }
    if ok {
        ctx.note_exhaustive(format!("{name}: all {} cases of the grid {what}", cases.len()));
    }
}

pub fn run(ctx: &Ctx) {
    // Safety net for the machine, not an oracle: a helper whose buffer growth runs away (each
    // read doubling the Vec) must fail fast (allocation failure -> abort -> crash policy of the
    // orchestrator) instead of zero-filling tens of GiB. Nothing here needs more than this.
    unsafe {
        let lim = libc::rlimit { rlim_cur: 3 << 30, rlim_max: 3 << 30 };
        libc::setrlimit(libc::RLIMIT_AS, &lim);
    }
    grid(ctx, "rte-grid", "stream size {0,1,2,31,32,33,63,64,65,96,97} x initial length {0,5,40} x chunking {whole,1,7,32} x {undisturbed, EINTR/EIO at start/middle/end, EOF in the middle} x capacity {len, +1, +31, +32, +33, fit-1, fit, fit+1}", gen::rte_grid, check_read_to_end);
    grid(ctx, "rts-grid", "\"a\\u{e9}\\u{20ac}\\u{1F600}z\" cut at every byte offset x {EINTR at the cut or not} x {complete, truncated, 0xFF inserted, EIO at the cut} x initial {\"\", \"\\u{fc}x\"} x capacity {len, +1, fit, +32}", gen::rts_grid, check_read_to_string);
    grid(ctx, "rex-grid", "n {0,1,2,31,32,33,64} x stream {n-1,n,n+1} x chunking {whole,1,7} x {undisturbed, EINTR/EIO at start/middle/end, EOF in the middle}", gen::rex_grid, check_read_exact);
    grid(ctx, "wal-grid", "size {0,1,2,31,32,33,64,65} x accept {all,1,7,32} x {undisturbed, EINTR/ENOSPC/Ok(0) at start/middle}", gen::wal_grid, check_write_all);

    ctx.run_prop("read-to-end", ctx.cases(4000, 150_000), gen::read_case(false), check_read_to_end);
    ctx.run_prop("read-to-string", ctx.cases(4000, 150_000), gen::read_case(true), check_read_to_string);
    ctx.run_prop("read-to-end-bursts", ctx.cases(250, 8_000), gen::burst_case(false), check_read_to_end);
    ctx.run_prop("read-to-string-bursts", ctx.cases(150, 5_000), gen::burst_case(true), check_read_to_string);
    ctx.run_prop("read-exact", ctx.cases(2500, 100_000), gen::exact_case(), check_read_exact);
    ctx.run_prop("write-all", ctx.cases(2500, 100_000), gen::write_case(), check_write_all);
    ctx.run_prop("write-fmt", ctx.cases(1500, 60_000), gen::fmt_case(), check_write_fmt);

    print::run(ctx);
}
