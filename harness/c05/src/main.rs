//! Driver (std) for the no-libc probes of this property family.
mod check;

fn main() {
    vh::runner::main_for(|ctx| check::run(ctx));
}
