//! C05 — threads: closure runs once; join awaits exit and returns its value, None on panic; spawn errors.
//! C06 — threads: stack, TLS block and join state released exactly once in every exit/drop order.
//!
//! One driver for both (ctx.prop decides). Engine E4 (no-libc probe `probe-threads`, six link modes) + E5
//! (strace: per-thread syscall log and fault injection into the hand-written `clone` and the stack `mmap`).
//! A case = one probe process fed 1..n generated batches of thread specs (+ optionally one injected fault).
use std::cell::{Cell, RefCell};
use std::collections::{BTreeMap, BTreeSet};
use std::time::Duration;

use proptest::prelude::*;
use serde::{Deserialize, Serialize};
use vh::runner::{CaseReport, CaseResult, Ctx, Failure};

mod probe;
mod strace;
mod wire;

use probe::{Exit, Injection, Probe, Rec, MODES};
use wire::*;

#[derive(Debug, Clone, Serialize, Deserialize, PartialEq, Eq, Hash)]
pub struct Fault {
    /// "stack-mmap" (the 2 MiB PROT_READ|PROT_WRITE MAP_PRIVATE|MAP_ANONYMOUS mmap of spawn) or "clone"
    pub target: String,
    /// 0-based index among the calls of that kind made by the probe run (= index of the spawn call over all batches)
    pub index: u32,
    /// "ENOMEM" | "EAGAIN"
    pub errno: String,
    /// the call fails this time and every time after (strace `when=K+`): a limit that does not go away
    #[serde(default)]
    pub persistent: bool,
}

#[derive(Debug, Clone, Serialize, Deserialize, PartialEq, Eq, Hash)]
pub struct Case {
    /// link mode of the probe: dyn|static|pie x debug|release
    pub build: String,
    pub strace: bool,
    pub fault: Option<Fault>,
    pub batches: Vec<Batch>,
}

pub const SIG_CLONE: &str = "spawn|clone failed|join never returns";
pub const SIG_RESULT_LEAK: &str = "drop handle|result value never dropped|Vec<u8> buffer stays allocated";

// ------------------------------------------------------------------------------------------------
// environment shared by the sub-checks of one worker
// ------------------------------------------------------------------------------------------------

struct Env<'a> {
    ctx: &'a Ctx,
    c06: bool,
    /// number of mmap calls the main thread of a build makes before its first batch (for `when=K`)
    startup_mmaps: RefCell<BTreeMap<String, Option<u32>>>,
    threads: Cell<u64>,
    batches: Cell<u64>,
    probe_runs: Cell<u64>,
    strace_runs: Cell<u64>,
    max_alive: Cell<u64>,
    /// an unknown failure was seen in the current sub-check: what follows are shrink candidates and the final
    /// re-run, which are given up to three executions to fail again (failures here depend on OS scheduling)
    shrinking: Cell<bool>,
}

impl<'a> Env<'a> {
    /// `run_case` for the proptest-driven sub-checks and for replays.
    fn attempt(&self, case: &Case) -> CaseResult {
        let tries = if self.ctx.is_replay() { 5 } else if self.shrinking.get() { 3 } else { 1 };
        let mut r = run_case(self, case);
        for _ in 1..tries {
            if r.is_err() {
                break;
            }
            r = run_case(self, case);
        }
        if let Err(x) = &r {
            if !self.known(&x.sig) {
                self.shrinking.set(true);
            }
        }
        r
    }

    fn known(&self, sig: &str) -> bool {
        self.ctx.known.iter().any(|k| sig == k.signature || (k.signature.ends_with('*') && sig.starts_with(&k.signature[..k.signature.len() - 1])))
    }

    fn startup_mmaps(&self, build: &str) -> Option<u32> {
        if let Some(v) = self.startup_mmaps.borrow().get(build) {
            return *v;
        }
        let v = (|| {
            let mut p = Probe::start(build, true, None).ok()?;
            p.close_stdin();
            if p.wait_exit() != Exit::Code(0) {
                return None;
            }
            let log = strace::parse(&p.strace_text()?);
            let evs = log.per_tid.get(&log.first_tid)?;
            Some(evs.iter().filter(|e| e.name == "mmap").count() as u32)
        })();
        self.startup_mmaps.borrow_mut().insert(build.to_string(), v);
        v
    }
}

// ------------------------------------------------------------------------------------------------
// running a case
// ------------------------------------------------------------------------------------------------

enum End {
    Clean,
    Died { exit: Exit, stderr: String, batch: usize },
    Deadlock { desc: String, batch: usize },
    Timeout,
    Infra(String),
}

struct Outcome {
    hello: Hello,
    reports: Vec<BatchReport>,
    end: End,
    log: Option<strace::Log>,
}

fn errno_name(s: &str) -> &'static str {
    match s {
        "EAGAIN" => "EAGAIN",
        _ => "ENOMEM",
    }
}

fn execute(env: &Env, case: &Case) -> Outcome {
    let mut inj = None;
    if let Some(f) = &case.fault {
        let when = if f.target == "clone" {
            Some(f.index + 1)
        } else {
            env.startup_mmaps(&case.build).map(|s| s + f.index + 1)
        };
        match when {
            Some(w) => inj = Some(Injection { syscall: if f.target == "clone" { "clone" } else { "mmap" }, errno: errno_name(&f.errno), when: w, persistent: f.persistent }),
            None => return Outcome { hello: Hello::default(), reports: vec![], end: End::Infra("dry strace run failed".into()), log: None },
        }
    }
    let mut p = match Probe::start(&case.build, case.strace, inj.as_ref()) {
        Ok(p) => p,
        Err(e) => return Outcome { hello: Hello::default(), reports: vec![], end: End::Infra(e), log: None },
    };
    env.probe_runs.set(env.probe_runs.get() + 1);
    if p.strace_log.is_some() {
        env.strace_runs.set(env.strace_runs.get() + 1);
    }
    let hello = p.hello.clone();
    let mut reports = Vec::new();
    let mut end = End::Clean;
    for (bi, b) in case.batches.iter().enumerate() {
        if b.specs.is_empty() || b.specs.len() > 64 {
            end = End::Infra("batch size outside 1..=64".into());
            break;
        }
        vh::runner::journal_flush();
        if !p.send(&encode_batch(b)) {
            let exit = p.wait_exit();
            end = End::Died { exit, stderr: p.stderr_text(), batch: bi };
            break;
        }
        // a failure that stays: nothing in the batch can take long (no thread gets created from the failing spawn on)
        let limit = if case.fault.as_ref().map(|f| f.persistent).unwrap_or(false) { 12 } else { 60 };
        match p.read_record(Duration::from_secs(limit)) {
            Rec::Data(d) => match parse_report(&d) {
                Some(r) if r.n == b.specs.len() => reports.push(r),
                _ => {
                    end = End::Infra("malformed batch report".into());
                    break;
                }
            },
            Rec::Eof => {
                let exit = p.wait_exit();
                end = End::Died { exit, stderr: p.stderr_text(), batch: bi };
                break;
            }
            Rec::Deadlock(desc) => {
                p.kill();
                end = End::Deadlock { desc, batch: bi };
                break;
            }
            Rec::Timeout => {
                p.kill();
                end = End::Timeout;
                break;
            }
        }
    }
    if matches!(end, End::Clean) {
        p.close_stdin();
        let exit = p.wait_exit();
        if exit != Exit::Code(0) {
            end = End::Died { exit, stderr: p.stderr_text(), batch: case.batches.len() };
        }
    }
    let log = p.strace_text().map(|t| strace::parse(&t));
    Outcome { hello, reports, end, log }
}

fn f(sig: impl Into<String>, what: String) -> Failure {
    Failure::new(sig, what)
}

/// What the strace log says about the injected call. Ok(None): nothing was injected (index beyond the calls made).
/// Err: the injection hit something else than intended (then the run is not judged).
fn injected_call(log: &strace::Log, fault: &Fault) -> Result<Option<u32>, String> {
    let mut hits = Vec::new();
    for (tid, evs) in &log.per_tid {
        let mut stack_mmaps = 0u32;
        let mut clones = 0u32;
        for e in evs {
            let is_stack = e.name == "mmap" && e.pos_num(1) == Some(strace::STACK_SZ);
            if e.injected() {
                let ord = if e.name == "mmap" { stack_mmaps } else { clones };
                hits.push((*tid, e.name.clone(), is_stack, ord));
            }
            if is_stack {
                stack_mmaps += 1;
            }
            if e.name == "clone" {
                clones += 1;
            }
        }
    }
    if hits.is_empty() {
        return Ok(None);
    }
    if hits.len() > 1 && !fault.persistent {
        return Err(format!("{} calls injected", hits.len()));
    }
    if fault.persistent {
        // all on the main thread, all of the intended kind, the first at the intended index
        hits.sort_by_key(|h| h.3);
        if hits.iter().any(|h| h.0 != log.first_tid || if fault.target == "clone" { h.1 != "clone" } else { !(h.1 == "mmap" && h.2) }) {
            return Err("persistent injection hit something else than intended".into());
        }
    }
    let (tid, name, is_stack, ord) = hits.remove(0);
    if tid != log.first_tid {
        return Err("injection hit a thread other than main".into());
    }
    let ok = if fault.target == "clone" { name == "clone" } else { name == "mmap" && is_stack };
    if !ok {
        return Err(format!("injection hit {name} (not a {})", fault.target));
    }
    if ord != fault.index {
        return Err(format!("injection hit {} #{ord}, wanted #{}", fault.target, fault.index));
    }
    Ok(Some(ord))
}

// ------------------------------------------------------------------------------------------------
// oracles
// ------------------------------------------------------------------------------------------------

fn spec_text(s: &Spec) -> String {
    format!("{} {}{} {}", TY_NAMES[(s.ty.min(NTY - 1)) as usize], if s.panic { "panic" } else { "return" }, if s.spurious { " after a spurious wake-up on its exit futex" } else if s.signal_joiner { " after interrupting the joiner with a signal (no SA_RESTART)" } else if s.stall_k > 0 { " with stalled epilogue" } else { "" }, DISP_NAMES[s.disp.min(4) as usize])
}

/// Outcome-independent part: crash / deadlock / infrastructure. Returns false when the reports must not be judged.
fn judge_end(env: &Env, case: &Case, out: &Outcome, injected: Option<u32>, fails: &mut Vec<Failure>, rep: &mut CaseReport) -> bool {
    match &out.end {
        End::Clean => true,
        End::Infra(e) => {
            eprintln!("[{}] infrastructure: {e}", env.ctx.prop);
            env.ctx.inconclusive();
            rep.class("inconclusive-infrastructure");
            false
        }
        End::Timeout if persistent_clone_storm(case, out).is_some() => {
            let (n, fl) = (persistent_clone_storm(case, out).unwrap(), case.fault.as_ref().unwrap());
            let specs: usize = case.batches.iter().map(|b| b.specs.len()).sum();
            fails.push(f("spawn|never returns|keeps calling clone while clone keeps failing", format!("clone made to fail with {} from call #{} on (strace injection `when={}+`, a limit that does not go away) on {}: the probe did not come back from a batch of spawns within 12 s and called clone {n} times for {specs} spawn calls in all -- spawn neither returns an error nor a handle; expected: Err from every spawn from #{} on", fl.errno, fl.index, fl.index + 1, case.build, fl.index)));
            true
        }
        End::Timeout => {
            env.ctx.inconclusive();
            rep.class("inconclusive-time-limit");
            false
        }
        End::Deadlock { desc, batch } => {
            if injected.is_some() && case.fault.as_ref().map(|x| x.target == "clone").unwrap_or(false) {
                let fl = case.fault.as_ref().unwrap();
                fails.push(f(SIG_CLONE, format!("clone #{} made to fail with {} (strace injection): spawn returned Ok(handle) and the probe never came back from batch {batch}: {desc} -- definitive deadlock (no thread exists that could clear the exit futex); expected: spawn returns Err (tiny-std/src/thread/spawn.rs:345-359 ignores __clone's return value)", fl.index, fl.errno)));
            } else {
                fails.push(f("batch|deadlock|every thread parked in an untimed futex wait", format!("batch {batch} ({} threads) never finished: {desc}", case.batches.get(*batch).map(|b| b.specs.len()).unwrap_or(0))));
            }
            true
        }
        End::Died { exit, stderr, batch } => {
            match exit {
                Exit::Signal(s) => fails.push(f(format!("batch|probe crashed|signal {s}"), format!("probe ({}) killed by signal {s} in batch {batch}; stderr: {stderr}", case.build))),
                Exit::Code(1) => fails.push(f("batch|probe aborted|main thread panicked", format!("probe ({}) exited 1 in batch {batch}; stderr: {stderr}", case.build))),
                other => {
                    eprintln!("[{}] probe ended with {other:?} in batch {batch}: {stderr}", env.ctx.prop);
                    env.ctx.inconclusive();
                    rep.class("inconclusive-infrastructure");
                    return false;
                }
            }
            true
        }
    }
}

/// Some(number of failed clone calls) when the run timed out under a persistent clone failure and the strace log
/// shows far more injected clone failures than there are spawn calls in the whole case: spawn is looping on clone.
fn persistent_clone_storm(case: &Case, out: &Outcome) -> Option<usize> {
    let fl = case.fault.as_ref()?;
    if !(fl.persistent && fl.target == "clone") {
        return None;
    }
    let log = out.log.as_ref()?;
    let n = log.per_tid.get(&log.first_tid)?.iter().filter(|e| e.name == "clone" && e.injected()).count();
    let specs: usize = case.batches.iter().map(|b| b.specs.len()).sum();
    (n > specs * 3 + 20).then_some(n)
}

fn judge_c05(env: &Env, case: &Case, out: &Outcome, injected: Option<u32>, fails: &mut Vec<Failure>, rep: &mut CaseReport) {
    let mut spawn_no = 0u32; // index of the spawn call over the whole run
    let mut joined_tids: Vec<u32> = Vec::new();
    for (bi, (b, r)) in case.batches.iter().zip(out.reports.iter()).enumerate() {
        if !r.drained {
            env.ctx.inconclusive();
            rep.class("inconclusive-threads-never-drained");
            return;
        }
        let mut nonunit_joined = false;
        for (i, (s, sr)) in b.specs.iter().zip(r.specs.iter()).enumerate() {
            let persistent = case.fault.as_ref().map(|x| x.persistent).unwrap_or(false);
            let faulted = injected == Some(spawn_no) || (persistent && injected.map(|k| spawn_no > k).unwrap_or(false));
            spawn_no += 1;
            let ctxt = format!("batch {bi} spec {i} ({}) on {}", spec_text(s), case.build);
            if faulted {
                let fl = case.fault.as_ref().unwrap();
                rep.class_if(persistent, "failure-that-stays");
                if sr.spawn_errno != 0 {
                    rep.class(if fl.target == "clone" { "clone-failure-spawn-err" } else { "stack-mmap-failure-spawn-err" });
                    if sr.run != 0 {
                        fails.push(f("spawn|returned Err but the closure ran|injected failure", format!("{ctxt}: spawn returned Err({}) under injected {} failure, run counter {}", sr.spawn_errno, fl.target, sr.run)));
                    }
                } else {
                    rep.class(if s.joined() { "injected-failure-spawn-ok-join-returned" } else { "injected-failure-spawn-ok-handle-dropped" });
                    if sr.run > 1 {
                        fails.push(f("spawn|closure ran more than once|injected failure", format!("{ctxt}: run counter {}", sr.run)));
                    }
                }
                continue;
            }
            if sr.spawn_errno != 0 {
                // no fault injected for this spawn: the environment refused (e.g. real ENOMEM) - not judged
                env.ctx.inconclusive();
                rep.class("inconclusive-spawn-failed-without-injection");
                continue;
            }
            if sr.run != 1 {
                fails.push(f(format!("spawn|closure ran {} times|{}", sr.run, if s.joined() { "joined" } else { "handle dropped" }), format!("{ctxt}: run counter {} after all threads of the batch were gone", sr.run)));
                continue;
            }
            let want_buf = expected_buf(s.tag, s.buflen as usize);
            if s.nested != 0 && !s.panic && !s.spurious {
                match (s.nested, sr.woke) {
                    (1, 0x11) => rep.class("spawned-thread-joined-a-thread-of-its-own"),
                    (2, 0x14) => rep.class("spawned-thread-dropped-the-handle-of-a-finished-thread-of-its-own"),
                    (_, 0x13) | (_, 0x15) => {
                        env.ctx.inconclusive();
                        rep.class("inconclusive-inner-thread");
                    }
                    (_, w) => fails.push(f("join|inner thread joined by a spawned thread returned a wrong value|u64", format!("{ctxt}: the closure spawned a thread returning a u64 and joined it; the join did not return that value (probe code {w:#x})"))),
                }
            }
            rep.class_if(s.join_in_print && s.panic, "panicked-thread-joined-inside-a-print-statement");
            rep.class_if(s.panic && s.tag % 3 == 0, "panic-with-a-message-that-cannot-be-rendered");
            rep.class_if(s.join_in_print && !s.panic, "joined-inside-a-print-statement");
            if s.stall_k > 0 {
                rep.class_if(sr.stall_obs & 1 != 0 && s.joined(), "join-called-while-the-thread-sleeps-in-its-epilogue");
                rep.class_if(sr.stall_obs & 1 != 0 && !s.joined(), "handle-dropped-while-the-thread-sleeps-in-its-epilogue");
                rep.class_if(s.reuse && sr.stall_obs & 1 != 0 && !s.joined(), "join-state-reusable-while-the-dropped-thread-is-finishing");
                if sr.stall_obs & 2 != 0 {
                    fails.push(f(format!("join|returned while the thread was still running its epilogue|{}", if s.panic { "panicked" } else { "returned" }), format!("{ctxt}: join came back while the thread was still asleep inside a free of its epilogue (stalled free #{} of {} ns): join must block until the thread has finished", sr.stall_obs >> 4, s.stall_ns)));
                }
            }
            rep.class_if(s.signal_joiner, "joiner-interrupted-by-a-signal-while-parked");
            rep.class_if(s.deep, "closure-uses-256-KiB-of-stack");
            if s.spurious {
                rep.class_if(sr.woke == 1, "spurious-wake-delivered-to-parked-joiner");
                rep.class_if(sr.woke == 2, "spurious-wake-found-nobody-parked");
                rep.class_if(sr.woke == 3, "inconclusive-exit-futex-address-unavailable");
            }
            if s.joined() {
                let (wh, wl) = expected_value(s.ty, s.tag);
                match (sr.join_class, s.panic) {
                    (1, true) => {
                        rep.class("panic-joined-none");
                        rep.class_if((9..=12).contains(&s.ty), "panic-joined-none:niche-carrying-result");
                    }
                    (2, false) => {
                        if sr.vhash != wh || sr.vlen != wl {
                            fails.push(f(format!("join|Some(wrong value)|{}", TY_NAMES[(s.ty.min(NTY - 1)) as usize]), format!("{ctxt}: join returned Some(v) with {} bytes hashing to {:#x}, the closure returned {} bytes hashing to {:#x}", sr.vlen, sr.vhash, wl, wh)));
                        }
                        rep.class_if(s.ty == 6 || s.ty == 7, "over-aligned-result");
                        rep.class_if(s.ty == 0, "zero-sized-result");
                        rep.class_if(s.ty == 5, "4KiB-result");
                        rep.class_if(s.ty == TY_VEC, "heap-owning-result");
                        rep.class_if((9..=12).contains(&s.ty), "niche-carrying-result");
                        rep.class_if(s.ty == 13, "align-16-result");
                        if s.ty != 0 {
                            nonunit_joined = true;
                        }
                    }
                    (1, false) => fails.push(f(format!("join|None although the closure returned|{}", TY_NAMES[(s.ty.min(NTY - 1)) as usize]), format!("{ctxt}: join returned None, the closure does not panic"))),
                    (2, true) => fails.push(f("join|Some although the closure panicked|", format!("{ctxt}: join returned Some({} bytes hashing to {:#x}) of type {}, the closure panics", sr.vlen, sr.vhash, TY_NAMES[(s.ty.min(NTY - 1)) as usize]))),
                    (c, _) => fails.push(f("join|no result reported|", format!("{ctxt}: join class {c}"))),
                }
                if sr.buf_join != want_buf {
                    fails.push(f(format!("join|memory effects not visible after join|{}", if s.panic { "panicked" } else { "returned" }), format!("{ctxt}: the {} byte buffer written by the closure hashed to {:#x} right after join returned, expected {:#x}", s.buflen, sr.buf_join, want_buf)));
                }
                joined_tids.push(sr.tid);
            } else {
                rep.class("handle-dropped");
                if sr.buf_drain != want_buf {
                    fails.push(f("spawn|closure effects missing after the thread was gone|handle dropped", format!("{ctxt}: buffer hashed to {:#x}, expected {:#x}", sr.buf_drain, want_buf)));
                }
            }
            rep.class_if(matches!(s.child_delay, Delay::Sleep(_)) && s.joined(), "child-sleeps-then-joined");
        }
        env.max_alive.set(env.max_alive.get().max(r.max_alive as u64));
        rep.class_if(r.max_alive >= 2, "two-or-more-threads-live");
        rep.class_if(r.max_alive >= 16, "sixteen-or-more-threads-live");
        rep.nontrivial_if(r.max_alive >= 2 && nonunit_joined);
    }
    // classes that need the log: did the joining side actually enter the futex wait?
    if let (Some(log), End::Clean) = (&out.log, &out.end) {
        let th = strace::threads(log);
        let main = log.per_tid.get(&log.first_tid);
        let waited: BTreeSet<u64> = main.map(|evs| evs.iter().filter(|e| e.name == "futex" && e.pos(1).map(|p| p.trim().starts_with("FUTEX_WAIT")).unwrap_or(false)).filter_map(|e| e.pos_num(0)).collect()).unwrap_or_default();
        for tid in joined_tids.iter() {
            if let Some(c) = th.cloned.iter().find(|c| c.tid == *tid) {
                if waited.contains(&c.tidptr) {
                    rep.class("join-before-finish(futex wait entered)");
                } else {
                    rep.class("join-after-finish(no futex wait)");
                }
            }
        }
    }
}

fn judge_c06(env: &Env, case: &Case, out: &Outcome, fails: &mut Vec<Failure>, late: &mut Vec<Failure>, rep: &mut CaseReport) {
    let base = &out.hello;
    // tid -> (batch, spec index)
    let mut by_tid: BTreeMap<u32, (usize, usize)> = BTreeMap::new();
    for (bi, (b, r)) in case.batches.iter().zip(out.reports.iter()).enumerate() {
        if !r.drained {
            env.ctx.inconclusive();
            rep.class("inconclusive-threads-never-drained");
            return;
        }
        if r.log_overflow != 0 || r.table_overflow != 0 || r.null_allocs != 0 || r.alloc_dup_live != 0 {
            // bookkeeping capacity / the allocator itself (C03's subject): not judged here
            env.ctx.inconclusive();
            rep.class("inconclusive-allocator-bookkeeping");
            return;
        }
        let on = format!("batch {bi} ({} threads) on {}", b.specs.len(), case.build);
        // (2) counting allocator flags
        if r.double_free != 0 {
            fails.push(f("batch|double free|counting allocator", format!("{on}: {} deallocations of an already freed block", r.double_free)));
        }
        if r.nonlive_free != 0 {
            fails.push(f("batch|free of a non-live pointer|counting allocator", format!("{on}: {} deallocations of pointers that are not live allocations", r.nonlive_free)));
        }
        if r.layout_mismatch != 0 {
            let d = r.log.iter().find(|l| l.mismatch != 0).map(|l| format!("allocated ({}, align {}) freed as ({}, align {})", l.size, l.align, l.d_size, l.d_align)).unwrap_or_default();
            fails.push(f("batch|dealloc layout differs from alloc layout|counting allocator", format!("{on}: {} mismatching deallocations; {d}", r.layout_mismatch)));
        }
        if r.uaf_writes != 0 {
            let d = r
                .log
                .iter()
                .filter(|l| l.damage_off != 0)
                .map(|l| {
                    let owner = if l.spec != 0 { format!("allocated inside the spawn call of spec {} ({})", l.spec - 1, spec_text(&b.specs[l.spec as usize - 1])) } else { format!("allocated by tid {}", l.alloc_tid) };
                    let party = if l.free_tid == base.main_tid { "the main thread (handle side)".to_string() } else { format!("thread {}", l.free_tid) };
                    format!("block of {} bytes (align {}) {owner}, freed by {party}: {} byte(s) from offset {} were written after the free (offset 4..8 of a join state is the exit futex the kernel clears at thread exit, offsets >= 24 the result slot)", l.size, l.align, l.damage_n, l.damage_off - 1)
                })
                .collect::<Vec<_>>();
            let shape = r.log.iter().find(|l| l.damage_off != 0).map(|l| if l.damage_off - 1 < 8 { "exit futex / flag word" } else { "beyond the header" }).unwrap_or("block of an earlier batch");
            fails.push(f(format!("batch|write into freed memory|{shape}"), format!("{on}: {} freed blocks were written to before every thread of the batch was gone: {}", r.uaf_writes, d.join("; "))));
        }
        if r.old_freed != 0 {
            fails.push(f("batch|block of the baseline freed during the batch|counting allocator", format!("{on}: {} blocks that were live before the batch were freed during it", r.old_freed)));
        }
        // live set after the batch == baseline + allowed leftovers
        let mut leftover_of_spec: BTreeMap<usize, Vec<&LogRec>> = BTreeMap::new();
        let mut result_leaks = Vec::new();
        let tid_of: BTreeMap<u32, usize> = r.specs.iter().enumerate().filter(|(_, s)| s.tid != 0).map(|(i, s)| (s.tid, i)).collect();
        let mut nleft = 0u64;
        for l in r.log.iter().filter(|l| l.free_tid == 0) {
            nleft += 1;
            if l.spec != 0 {
                leftover_of_spec.entry(l.spec as usize - 1).or_default().push(l);
            } else if let Some(&i) = tid_of.get(&l.alloc_tid) {
                let s = &b.specs[i];
                if s.ty == TY_VEC && !s.panic && !s.joined() && l.align == 1 && l.size as usize == value_len(s.ty, s.tag) {
                    result_leaks.push((i, l.size));
                } else {
                    fails.push(f("batch|heap block leaked|allocated by a spawned thread", format!("{on}: {} bytes (align {}) allocated by the thread of spec {i} ({}) are still live after every thread is gone", l.size, l.align, spec_text(s))));
                }
            } else {
                fails.push(f("batch|heap block leaked|allocated outside spawn", format!("{on}: {} bytes (align {}) allocated by tid {} still live after the batch", l.size, l.align, l.alloc_tid)));
            }
        }
        for (i, ls) in &leftover_of_spec {
            let s = &b.specs[*i];
            let sr = &r.specs[*i];
            let sizes: Vec<u64> = ls.iter().map(|l| l.size).collect();
            if sr.spawn_errno != 0 {
                // the thread never came to be: everything spawn had set up for it (join state, thread-local
                // block, the boxed closure) has no other owner and is released by spawn's error path
                fails.push(f("spawn failure|block allocated by the failed spawn call never freed|heap", format!("{on}: spec {i} ({}): spawn returned an error (errno {}), blocks of sizes {sizes:?} allocated inside that call are still live afterwards (thread-local block is 40 bytes, join state >= 32 bytes)", spec_text(s), sr.spawn_errno)));
                continue;
            }
            // (a result nobody joins is disposed of by the thread if the handle went first; when that destructor panics
            // the thread has panicked - in its epilogue - and may leave its closure behind like any panicking thread)
            let may_have_panicked = s.panic || (s.ty == TY_BOMB && !s.joined());
            if !may_have_panicked {
                fails.push(f(format!("thread exit|block allocated by spawn never freed|{} {}", if s.panic { "panic" } else { "return" }, DISP_NAMES[s.disp.min(4) as usize]), format!("{on}: spec {i} ({}): blocks of sizes {sizes:?} allocated inside its spawn call are still live after the thread is gone (thread-local block is 40 bytes, join state >= 32 bytes)", spec_text(s))));
            } else if ls.len() > 1 || ls[0].size > sr.closure_size as u64 + 16 {
                fails.push(f(format!("thread exit|panicked thread left more than its closure|{}", DISP_NAMES[s.disp.min(4) as usize]), format!("{on}: spec {i} ({}): live blocks of sizes {sizes:?} from its spawn call; allowed: one block <= {} bytes (the closure)", spec_text(s), sr.closure_size + 16)));
            } else {
                rep.class("panicked-thread-left-its-closure");
            }
        }
        if r.live_count_after != r.live_count_before + nleft {
            fails.push(f("batch|live allocation count inconsistent with the batch log|counting allocator", format!("{on}: live {} -> {}, log shows {nleft} blocks of this batch still live", r.live_count_before, r.live_count_after)));
        }
        for (i, sz) in result_leaks {
            let s = &b.specs[i];
            let fl = f(SIG_RESULT_LEAK, format!("{on}: spec {i} ({}): the thread returned a Vec<u8> of {sz} bytes, the handle was dropped instead of joined, and the vector's buffer is still allocated after the thread and the handle are gone (JoinHandle::drop / the thread epilogue free the join state without dropping the value in it: tiny-std/src/thread/spawn.rs:46-63, 285-299): heap usage does not return to its baseline", spec_text(s)));
            if env.known(SIG_RESULT_LEAK) && !(case.batches.len() == 1 && b.specs.len() == 1) {
                rep.class("known:result-value-never-dropped(tolerated)");
            } else {
                late.push(fl);
            }
        }
        // (4) mapped memory back at the baseline
        for (i, sr) in r.specs.iter().enumerate() {
            if sr.canary == 2 {
                fails.push(f(format!("thread exit|stack still mapped after the thread is gone|{}", if b.specs[i].panic { "panic" } else { "return" }), format!("{on}: spec {i} ({}): the word the thread wrote on its own stack at {:#x} is still readable with its value after every thread of the batch exited (a re-mapped page would read 0)", spec_text(&b.specs[i]), sr.canary_addr)));
            }
        }
        if !base.reserve_ok {
            rep.class("mapped-memory-not-judged(allocator reserve did not hold)");
        } else if r.vm_pages != base.vm_pages || r.total != base.total {
            fails.push(f("batch|mapped memory not back at baseline|VmSize", format!("{on}: VmSize {} pages, /proc/self/maps total {} bytes in {} lines after the batch; baseline {} pages, {} bytes, {} lines ({:+} KiB = {:+.2} thread stacks)", r.vm_pages, r.total, r.lines, base.vm_pages, base.total, base.lines, (r.total as i64 - base.total as i64) / 1024, (r.total as i64 - base.total as i64) as f64 / strace::STACK_SZ as f64)));
        }
        // classes: the 2 x 4(+1) matrix and the flag race
        let mut handle_side = false;
        let mut thread_side = false;
        for (i, (s, sr)) in b.specs.iter().zip(r.specs.iter()).enumerate() {
            if sr.spawn_errno != 0 {
                continue;
            }
            by_tid.insert(sr.tid, (bi, i));
            rep.class(match (s.panic, s.disp) {
                (false, 0) => "return x join",
                (false, 1) => "return x drop-now",
                (false, 2) => "return x drop-after-delay",
                (false, 3) => "return x keep-until-end-then-join",
                (false, _) => "return x drop-while-finishing",
                (true, 0) => "panic x join",
                (true, 1) => "panic x drop-now",
                (true, 2) => "panic x drop-after-delay",
                (true, 3) => "panic x keep-until-end-then-join",
                (true, _) => "panic x drop-while-finishing",
            });
            if !s.joined() {
                // which side freed the blocks of this spawn call: the first one is the join state
                let mine: Vec<&LogRec> = r.log.iter().filter(|l| l.spec as usize == i + 1).collect();
                if let Some(js) = mine.first() {
                    if js.free_tid == sr.tid && sr.tid != 0 {
                        thread_side = true;
                        rep.class("flag-race: handle dropped first, thread frees the join state");
                    } else if js.free_tid == base.main_tid {
                        handle_side = true;
                        rep.class("flag-race: thread finished first, handle frees the join state");
                    }
                }
            }
            rep.class_if(s.ty == 7, "align-4096-join-state");
            rep.class_if(s.ty == TY_VEC && s.joined() && !s.panic, "heap-owning-result-joined");
            rep.class_if(s.panic && s.tag % 3 == 0, "panic-with-a-message-that-cannot-be-rendered");
            rep.class_if(s.spurious && sr.woke == 1, "spurious-wake-delivered-to-parked-joiner");
            rep.class_if(s.signal_joiner, "joiner-interrupted-by-a-signal-while-parked");
            rep.class_if(s.deep, "closure-uses-256-KiB-of-stack");
            rep.class_if(s.stall_k > 0 && s.reuse && sr.stall_obs & 1 != 0 && !s.joined(), "join-state-reusable-while-the-dropped-thread-is-finishing");
        }
        rep.nontrivial_if(handle_side && thread_side);
        rep.class_if(handle_side && thread_side, "both-flag-outcomes-in-one-batch");
        rep.class_if(b.specs.len() >= 32, "batch-of-32-or-more");
    }
    rep.class_if(case.batches.len() >= 3, "history-of-3-or-more-batches");

    // (1) + (3): the syscall log, judged per tid
    let (Some(log), End::Clean) = (&out.log, &out.end) else { return };
    rep.class("strace-log-judged");
    let th = strace::threads(log);
    let main_tid = log.first_tid;
    let stack_ranges: Vec<(u64, u64)> = th.cloned.iter().filter_map(|c| c.stack).collect();
    let overlaps = |a: u64, l: u64, (sa, sl): (u64, u64)| a < sa + sl && sa < a + l;
    let mut own_unmaps = 0usize;
    for c in &th.cloned {
        let Some((sa, sl)) = c.stack else {
            rep.class("inconclusive-stack-not-associated");
            continue;
        };
        if !log.exited.contains_key(&c.tid) {
            rep.class("inconclusive-thread-exit-not-logged");
            continue;
        }
        let who = by_tid.get(&c.tid).map(|(bi, i)| format!("batch {bi} spec {i} ({})", spec_text(&case.batches[*bi].specs[*i]))).unwrap_or_else(|| format!("tid {}", c.tid));
        let kind = by_tid.get(&c.tid).map(|(bi, i)| if case.batches[*bi].specs[*i].panic { "panic" } else { "return" }).unwrap_or("?");
        let evs = log.per_tid.get(&c.tid).map(|v| v.as_slice()).unwrap_or(&[]);
        let mut own = 0;
        for (k, e) in evs.iter().enumerate() {
            if e.name != "munmap" {
                continue;
            }
            let (Some(a), Some(l)) = (e.pos_num(0), e.pos_num(1)) else { continue };
            if a == sa && l == sl {
                if e.ret_num() == Some(0) {
                    own += 1;
                    let last_but_one = k + 2 == evs.len() && evs[k + 1].name == "exit";
                    rep.class_if(last_but_one, "own stack unmapped as the last call before exit");
                }
            } else if overlaps(a, l, (sa, sl)) {
                fails.push(f(format!("thread exit|munmap of own stack with a wrong range|{kind}"), format!("{who} on {}: stack mapping ({sa:#x}, {sl}) but the thread called munmap({a:#x}, {l})", case.build)));
            } else if stack_ranges.iter().any(|r| overlaps(a, l, *r) && (r.0, r.1) == (a, l)) {
                fails.push(f(format!("thread exit|thread unmapped another thread's stack|{kind}"), format!("{who} on {}: own stack ({sa:#x}, {sl}), called munmap({a:#x}, {l}) which is the stack of another thread of the run", case.build)));
            }
        }
        own_unmaps += own;
        if own == 0 {
            fails.push(f(format!("thread exit|stack never unmapped|{kind}"), format!("{who} on {}: thread {} exited without munmap({sa:#x}, {sl}) of its own stack (syscalls: {:?})", case.build, c.tid, evs.iter().map(|e| e.name.as_str()).collect::<Vec<_>>())));
        } else if own > 1 {
            fails.push(f(format!("thread exit|stack unmapped twice|{kind}"), format!("{who} on {}: thread {} called munmap({sa:#x}, {sl}) {own} times", case.build, c.tid)));
        }
        // (3) set_tid_address(0) <=> the thread itself freed the join state (the block holding child_tidptr)
        let sta = evs.iter().filter(|e| e.name == "set_tid_address" && e.pos_num(0) == Some(0)).count();
        if let Some((bi, i)) = by_tid.get(&c.tid) {
            let r = &out.reports[*bi];
            let js = r.log.iter().find(|l| l.spec as usize == *i + 1 && l.ptr <= c.tidptr && c.tidptr < l.ptr + l.size);
            match js {
                None => rep.class("inconclusive-join-state-block-not-identified"),
                Some(js) => {
                    let by_thread = js.free_tid == c.tid;
                    let disp = DISP_NAMES[case.batches[*bi].specs[*i].disp.min(4) as usize];
                    if by_thread && sta == 0 {
                        fails.push(f(format!("thread exit|join state freed by the thread without resetting its clear-tid address|{kind}"), format!("{who} on {}: the block holding child_tidptr {:#x} was freed by thread {} itself, but the thread never called set_tid_address(0): the kernel writes 0 into freed memory at thread exit", case.build, c.tidptr, c.tid)));
                    } else if !by_thread && sta > 0 {
                        fails.push(f(format!("thread exit|clear-tid address reset although the handle side frees the join state|{kind} {disp}"), format!("{who} on {}: set_tid_address(0) called {sta}x by thread {}, join state freed by tid {}", case.build, c.tid, js.free_tid)));
                    } else if sta > 1 {
                        // resetting the clear-tid address twice releases nothing twice (the call is idempotent): a
                        // thread whose result's destructor panics in the epilogue does it - once in the epilogue, once
                        // on the panic path. Counted, not judged (the property is about the resources).
                        rep.class("clear-tid-address-reset-twice-by-one-thread");
                    } else if by_thread {
                        rep.class("set_tid_address(0) by the thread that lost the flag race");
                    } else {
                        rep.class("no set_tid_address for a thread whose handle side frees");
                    }
                }
            }
        }
    }
    // the main thread (and any thread) must not unmap the stack of a thread it does not own
    if let Some(evs) = log.per_tid.get(&main_tid) {
        // mappings the main thread owns at this point of its own call sequence: what it mapped and has not handed
        // to a thread - a stack mapped for a clone that then FAILED stays the main thread's to unmap
        let mut own_maps: Vec<(u64, u64)> = Vec::new();
        let mut pending_stack: Option<(u64, u64)> = None;
        for e in evs {
            if e.name == "mmap" {
                if let (Some(a), Some(l)) = (e.ret_num(), e.pos_num(1)) {
                    if a > 0 && strace::is_stack_shaped(e) {
                        pending_stack = Some((a as u64, l));
                    } else if a > 0 {
                        own_maps.push((a as u64, l));
                    }
                }
            } else if e.name == "clone" || e.name == "clone3" {
                match (e.ret_num(), pending_stack.take()) {
                    (Some(r), Some(_)) if r > 0 => {} // now the new thread's
                    (_, Some(p)) => own_maps.push(p),
                    _ => {}
                }
            } else if e.name == "munmap" {
                let (Some(a), Some(l)) = (e.pos_num(0), e.pos_num(1)) else { continue };
                if let Some(k) = own_maps.iter().position(|(ma, ml)| a == *ma && l == *ml) {
                    own_maps.swap_remove(k); // gone: a later mapping at the same address is a different one
                    continue;
                }
                let explained = own_maps.iter().any(|(ma, ml)| a >= *ma && a + l <= *ma + *ml) || pending_stack.is_some_and(|(ma, ml)| a >= ma && a + l <= ma + ml);
                if !explained && stack_ranges.iter().any(|r| overlaps(a, l, *r)) {
                    fails.push(f("main thread|unmapped a spawned thread's stack|", format!("on {}: main thread called munmap({a:#x}, {l}) overlapping a thread stack", case.build)));
                }
            }
        }
    }
    let exited_with_stack = th.cloned.iter().filter(|c| c.stack.is_some() && log.exited.contains_key(&c.tid)).count();
    rep.class_if(exited_with_stack > 0 && own_unmaps == exited_with_stack, "stack munmaps == threads created");
}

fn run_case(env: &Env, case: &Case) -> CaseResult {
    let mut rep = CaseReport::new();
    if !MODES.contains(&case.build.as_str()) {
        return Ok(rep);
    }
    let out = execute(env, case);
    env.batches.set(env.batches.get() + out.reports.len() as u64);
    env.threads.set(env.threads.get() + out.reports.iter().map(|r| r.specs.iter().filter(|s| s.spawn_errno == 0).count() as u64).sum::<u64>());
    let mut fails = Vec::new();
    let mut late = Vec::new();
    // what did the injection hit?
    let mut injected = None;
    if let Some(fl) = &case.fault {
        match out.log.as_ref().map(|l| injected_call(l, fl)) {
            Some(Ok(Some(ord))) => {
                injected = Some(ord);
                rep.class(match (fl.target.as_str(), errno_name(&fl.errno)) {
                    ("clone", "EAGAIN") => "inject clone EAGAIN",
                    ("clone", _) => "inject clone ENOMEM",
                    (_, _) => "inject stack-mmap ENOMEM",
                });
            }
            Some(Ok(None)) => rep.class("fault-index-beyond-the-calls-made"),
            Some(Err(e)) => {
                eprintln!("[{}] injection not as intended: {e}", env.ctx.prop);
                env.ctx.inconclusive();
                rep.class("inconclusive-injection-hit-another-call");
                return Ok(rep);
            }
            None => {
                if !matches!(out.end, End::Infra(_)) {
                    env.ctx.inconclusive();
                    return Ok(rep);
                }
            }
        }
    }
    let judge = judge_end(env, case, &out, injected, &mut fails, &mut rep);
    if judge {
        if env.c06 {
            judge_c06(env, case, &out, &mut fails, &mut late, &mut rep);
        } else {
            judge_c05(env, case, &out, injected, &mut fails, &mut rep);
        }
    }
    rep.class(match case.build.as_str() {
        "dyn-debug" => "build dyn-debug",
        "dyn-release" => "build dyn-release",
        "static-debug" => "build static-debug",
        "static-release" => "build static-release",
        "pie-debug" => "build pie-debug",
        _ => "build pie-release",
    });
    if std::env::var_os("C05_DEBUG").is_some() {
        for x in fails.iter().chain(late.iter()) {
            eprintln!("[debug] {} :: {}", x.sig, x.what);
        }
    }
    // unknown failures first, so that a recorded finding never masks a different violation
    if let Some(x) = fails.iter().find(|x| !env.known(&x.sig)) {
        return Err(x.clone());
    }
    if let Some(x) = late.iter().find(|x| !env.known(&x.sig)) {
        return Err(x.clone());
    }
    if let Some(x) = fails.into_iter().chain(late).next() {
        // every failure of this case is a recorded finding: the minimal dedicated cases report the hit, the
        // other cases go on being counted (the search continues behind the finding)
        let dedicated = case.batches.len() == 1 && case.batches[0].specs.len() == 1;
        if dedicated {
            return Err(x);
        }
        rep.class("known-finding(tolerated in a larger case)");
    }
    Ok(rep)
}

// ------------------------------------------------------------------------------------------------
// generators
// ------------------------------------------------------------------------------------------------

fn spin_strategy() -> impl Strategy<Value = u32> {
    // log-uniform 10^3 .. 10^6
    (0u32..=3000).prop_map(|x| 10f64.powf(3.0 + x as f64 / 1000.0) as u32)
}

fn delay_strategy() -> impl Strategy<Value = Delay> {
    prop_oneof![
        3 => Just(Delay::None),
        4 => spin_strategy().prop_map(Delay::Spin),
        1 => (0u32..=50_000).prop_map(Delay::Sleep),
        1 => (0u32..=2_000_000).prop_map(Delay::Sleep),
    ]
}

fn disp_strategy(c06: bool) -> impl Strategy<Value = u8> {
    if c06 {
        prop_oneof![3 => Just(DISP_JOIN), 3 => Just(DISP_DROP_NOW), 3 => Just(DISP_DROP_LATER), 2 => Just(DISP_KEEP_END), 4 => Just(DISP_DROP_FINISHING)].boxed()
    } else {
        prop_oneof![8 => Just(DISP_JOIN), 1 => Just(DISP_DROP_NOW), 1 => Just(DISP_DROP_LATER), 4 => Just(DISP_KEEP_END), 1 => Just(DISP_DROP_FINISHING)].boxed()
    }
}

fn spec_strategy(c06: bool) -> impl Strategy<Value = Spec> {
    (
        0u8..NTY,
        prop::bool::weighted(0.25),
        disp_strategy(c06),
        prop::bool::weighted(0.3),
        delay_strategy(),
        delay_strategy(),
        prop_oneof![2 => Just(0u16), 3 => 1u16..64, 1 => 64u16..4096],
        any::<u64>(),
        (-40_000i64..200_000, prop::bool::weighted(0.12), 200_000u32..1_500_000, prop::bool::weighted(0.10), 1u8..=2, 200_000u32..700_000),
    )
        .prop_map(|(ty, panic, disp, inline, cd, pd, buflen, tag, (jitter, spurious, sp_delay, stall, stall_k, stall_ns))| {
            let mut s = Spec { ty, panic, disp, inline, child_delay: cd, parent_delay: pd, buflen, tag, spurious: false, stall_ns: 0, stall_k: 0, reuse: false, join_in_print: false, nested: 0, drop_first: false, signal_joiner: false, deep: false };
            if spurious && !panic && (disp == DISP_JOIN || disp == DISP_KEEP_END) {
                // the thread sleeps first so that the joiner is parked when the spurious wake-up arrives
                s.spurious = true;
                s.child_delay = Delay::Sleep(sp_delay);
                if disp == DISP_JOIN {
                    s.parent_delay = Delay::None;
                }
            }
            if stall && !s.spurious && disp != DISP_DROP_NOW && disp != DISP_KEEP_END {
                // the parent acts exactly while the thread sleeps in its epilogue
                s.stall_ns = stall_ns;
                s.stall_k = stall_k;
                s.parent_delay = Delay::None;
            }
            if disp == DISP_DROP_FINISHING {
                // "while finishing": the parent's delay equals the child's, plus or minus jitter; carried out at once
                s.inline = true;
                s.parent_delay = match cd {
                    Delay::None => Delay::Spin(jitter.max(0) as u32),
                    Delay::Spin(n) => Delay::Spin((n as i64 + jitter).max(0) as u32),
                    Delay::Sleep(n) => Delay::Sleep((n as i64 + jitter).clamp(0, 2_000_000) as u32),
                };
            }
            s
        })
}

fn batch_strategy(c06: bool) -> impl Strategy<Value = Batch> {
    prop_oneof![
        3 => prop::collection::vec(spec_strategy(c06), 1..=6),
        2 => prop::collection::vec(spec_strategy(c06), 7..=24),
        1 => prop::collection::vec(spec_strategy(c06), 25..=64),
        // crowd: every thread sleeps 1-2 ms and no disposition is carried out before all are spawned, so that
        // tens of threads are live at the same time
        1 => prop::collection::vec((spec_strategy(c06), 1_000_000u32..=2_000_000), 16..=64).prop_map(|v| {
            v.into_iter()
                .map(|(mut s, ns)| {
                    s.child_delay = Delay::Sleep(ns);
                    if s.disp == DISP_DROP_FINISHING {
                        s.disp = DISP_DROP_LATER;
                    }
                    s.inline = false;
                    s
                })
                .collect()
        }),
    ]
    .prop_map(|specs| Batch { specs })
}

fn case_strategy(c06: bool, builds: Vec<&'static str>, strace: bool, max_batches: usize) -> impl Strategy<Value = Case> {
    let nb = builds.len();
    (0..nb, prop::collection::vec(batch_strategy(c06), 1..=max_batches)).prop_map(move |(bi, batches)| Case { build: builds[bi].to_string(), strace, fault: None, batches })
}

fn fault_case_strategy(builds: Vec<&'static str>) -> impl Strategy<Value = Case> {
    let nb = builds.len();
    (0..nb, prop::collection::vec(prop::collection::vec(spec_strategy(false), 1..=8).prop_map(|specs| Batch { specs }), 1..=2), 0u32..3, any::<u16>(), prop::bool::weighted(0.25)).prop_map(move |(bi, batches, kind, pick, persistent)| {
        let total: usize = batches.iter().map(|b| b.specs.len()).sum();
        let index = (pick as usize * total >> 16) as u32;
        let (target, errno) = match kind {
            0 => ("stack-mmap", "ENOMEM"),
            1 => ("clone", "EAGAIN"),
            _ => ("clone", "ENOMEM"),
        };
        Case { build: builds[bi].to_string(), strace: true, fault: Some(Fault { target: target.into(), index, errno: errno.into(), persistent }), batches }
    })
}

fn sp(ty: u8, panic: bool, disp: u8, inline: bool, cd: Delay, pd: Delay, buflen: u16, tag: u64) -> Spec {
    Spec { ty, panic, disp, inline, child_delay: cd, parent_delay: pd, buflen, tag, spurious: false, stall_ns: 0, stall_k: 0, reuse: false, join_in_print: false, nested: 0, drop_first: false, signal_joiner: false, deep: false }
}

/// The four fixed small batches of the fault enumeration.
fn fixed_batches() -> Vec<Batch> {
    use Delay::*;
    vec![
        // F1: the minimal one
        Batch { specs: vec![sp(2, false, DISP_JOIN, false, None, None, 16, 0x1234)] },
        // F2: joins of different result types, one panic, one kept until the end
        Batch {
            specs: vec![
                sp(0, false, DISP_JOIN, true, None, None, 0, 1),
                sp(1, true, DISP_JOIN, false, Spin(20_000), None, 8, 2),
                sp(4, false, DISP_KEEP_END, false, Sleep(200_000), None, 32, 3),
                sp(8, false, DISP_JOIN, false, None, Spin(50_000), 100, 4),
            ],
        },
        // F3: every disposition, over-aligned and 4 KiB results
        Batch {
            specs: vec![
                sp(3, false, DISP_DROP_NOW, false, Spin(10_000), None, 4, 11),
                sp(7, false, DISP_JOIN, false, None, Sleep(100_000), 64, 12),
                sp(5, false, DISP_JOIN, true, Spin(100_000), None, 512, 13),
                sp(6, true, DISP_DROP_LATER, false, None, Spin(100_000), 0, 14),
                sp(2, false, DISP_DROP_FINISHING, true, Spin(30_000), Spin(40_000), 16, 15),
                sp(1, false, DISP_KEEP_END, false, None, None, 1, 16),
            ],
        },
        // F4: eight threads live at the same time, all joined
        Batch { specs: (0..8).map(|k| sp((k % 9) as u8, k == 5, DISP_JOIN, false, Sleep(300_000), None, 24, 100 + k as u64)).collect() },
    ]
}

/// Every (result type x return|panic x disposition) combination once: 130 specs in three batches.
fn matrix_batches() -> Vec<Batch> {
    let mut specs = Vec::new();
    let mut k = 0u64;
    for ty in 0..NTY {
        for panic in [false, true] {
            for disp in 0..5u8 {
                k += 1;
                let (cd, pd, inline) = match disp {
                    DISP_DROP_FINISHING => (Delay::Spin(30_000), Delay::Spin(30_000 + (k as u32 % 7) * 10_000), true),
                    DISP_DROP_LATER => (Delay::Spin(2_000 * (k as u32 % 5)), Delay::Sleep(300_000), k % 2 == 0),
                    DISP_DROP_NOW => (Delay::Spin(50_000), Delay::None, false),
                    DISP_JOIN => (if k % 2 == 0 { Delay::Sleep(200_000) } else { Delay::None }, if k % 3 == 0 { Delay::Sleep(400_000) } else { Delay::None }, k % 4 == 0),
                    _ => (Delay::Spin(10_000), Delay::None, false),
                };
                specs.push(sp(ty, panic, disp, inline, cd, pd, (k * 37 % 300) as u16, 0xC06_0000 + k));
            }
        }
    }
    specs.chunks(45).map(|c| Batch { specs: c.to_vec() }).collect()
}

fn builds_for(ctx: &Ctx) -> Vec<&'static str> {
    if ctx.thorough() {
        MODES.to_vec()
    } else {
        // three of the six link modes, rotating with the seed (consecutive entries of MODES mix link mode and profile)
        let s = (ctx.seed / 2) as usize;
        (0..3).map(|k| MODES[(s + k) % 6]).collect()
    }
}

// ------------------------------------------------------------------------------------------------
// entry
// ------------------------------------------------------------------------------------------------

/// One batch in which every thread delivers a spurious wake-up to its parked joiner and then runs on.
fn spurious_batch() -> Batch {
    let mut specs = Vec::new();
    for (k, ty) in [2u8, 0, 8, 9, 5, 7].into_iter().enumerate() {
        let mut s = sp(ty, false, DISP_JOIN, true, Delay::Sleep(400_000 + 150_000 * k as u32), Delay::None, 32, 0x5b00 + k as u64);
        s.spurious = true;
        specs.push(s);
    }
    Batch { specs }
}

/// One batch in which every thread interrupts its parked joiner with a signal whose handler does not restart
/// system calls (the futex wait of the join returns EINTR although nothing happened to the thread) and then runs on.
fn signal_batch() -> Batch {
    let mut specs = Vec::new();
    for (k, ty) in [2u8, 0, 8, 9, 5, 13].into_iter().enumerate() {
        let mut s = sp(ty, false, DISP_JOIN, true, Delay::Sleep(500_000 + 100_000 * k as u32), Delay::None, 32, 0x5c00 + k as u64);
        s.signal_joiner = true;
        specs.push(s);
    }
    Batch { specs }
}

/// Eight threads live together (joined at the end), each with a frame of 256 KiB on its stack: an eighth of the
/// 2 MiB that spawn maps per thread today - what a closure with a scratch buffer or a by-value result of that
/// size needs. The stacks of threads spawned one after the other lie side by side.
fn deep_batch() -> Batch {
    let mut specs = Vec::new();
    for (k, ty) in [2u8, 0, 8, 9, 5, 13, 2, 8].into_iter().enumerate() {
        let mut s = sp(ty, false, DISP_KEEP_END, false, Delay::Sleep(300_000), Delay::None, 32, 0x5d00 + k as u64);
        s.deep = true;
        specs.push(s);
    }
    Batch { specs }
}

/// Threads whose epilogue is stretched (every free after the closure sleeps 0.6 ms); the parent joins,
/// or drops the handle, exactly when the k-th of those frees has begun.
fn stall_batch(k: u8, join: bool) -> Batch {
    let mut specs = Vec::new();
    for (n, ty) in [2u8, 0, 8, 9, 5, 7].into_iter().enumerate() {
        let mut s = sp(ty, n == 4, if join { DISP_JOIN } else { DISP_DROP_LATER }, true, Delay::Spin(2_000), Delay::None, 16, 0x57a0 + n as u64);
        s.stall_ns = 600_000;
        s.stall_k = k;
        specs.push(s);
    }
    Batch { specs }
}

/// Every result type x {return, panic}, each joined as an argument of `eprint!` (the joiner holds the stderr
/// print lock while it waits), half of them while the thread is still working.
fn print_join_batch() -> Batch {
    let mut specs = Vec::new();
    for ty in 0..NTY {
        for panic in [false, true] {
            let mut s = sp(ty, panic, DISP_JOIN, ty % 2 == 0, if (ty / 2) % 2 == 0 { Delay::Sleep(300_000) } else { Delay::None }, Delay::None, 16, 0x9100 + 2 * ty as u64 + panic as u64);
            s.join_in_print = true;
            specs.push(s);
        }
    }
    Batch { specs }
}

/// Threads that spawn a thread of their own and join it (or drop its handle after it has finished) before they
/// return; the outer threads are then joined / dropped by the main thread in every disposition.
fn nested_batch() -> Batch {
    let mut specs = Vec::new();
    let mut n = 0u64;
    for nested in [1u8, 2] {
        for (ty, disp, inline) in [(2u8, DISP_JOIN, false), (0, DISP_JOIN, true), (8, DISP_KEEP_END, false), (13, DISP_DROP_LATER, false), (4, DISP_DROP_NOW, false)] {
            let mut s = sp(ty, false, disp, inline, Delay::Spin(5_000), if disp == DISP_DROP_LATER { Delay::Sleep(1_500_000) } else { Delay::None }, 16, 0x6e00 + n);
            s.nested = nested;
            specs.push(s);
            n += 1;
        }
    }
    Batch { specs }
}

/// Pairs (A, B) of threads with the same result type, without the probe's quarantine: A's handle is dropped
/// exactly when the k-th stalled free of A's epilogue has begun, B is spawned right afterwards (its join state is
/// the next allocation of that size) and joined at once while it still works for 3 ms.
fn reuse_batch(k: u8) -> Batch {
    let mut specs = Vec::new();
    // (the last pair: A panics instead of returning - the panic path has an epilogue of its own)
    for (n, (ty, a_panics)) in [(2u8, false), (0, false), (8, false), (0, true)].into_iter().enumerate() {
        let mut a = sp(ty, a_panics, DISP_DROP_LATER, true, Delay::Spin(2_000), Delay::None, 16, 0x4e00 + 2 * n as u64);
        a.stall_ns = 600_000;
        a.stall_k = k;
        a.reuse = true;
        let mut b = sp(ty, false, DISP_JOIN, true, Delay::Sleep(3_000_000), Delay::None, 16, 0x4e01 + 2 * n as u64);
        b.reuse = true;
        specs.push(a);
        specs.push(b);
    }
    Batch { specs }
}

/// The other order: A's handle is dropped at once, while A still runs (so A itself releases its join state, in
/// its epilogue); B is spawned when the k-th stalled free of A's epilogue has begun - after A gave the join state
/// back, before A is gone - and joined at once while it still works for 3 ms.
fn reuse_batch_dropped_first(k: u8) -> Batch {
    let mut specs = Vec::new();
    for (n, (ty, a_panics)) in [(2u8, false), (0, false), (8, false), (0, true)].into_iter().enumerate() {
        let mut a = sp(ty, a_panics, DISP_DROP_NOW, true, Delay::Sleep(400_000), Delay::None, 16, 0x4f00 + 2 * n as u64);
        a.stall_ns = 600_000;
        a.stall_k = k;
        a.reuse = true;
        a.drop_first = true;
        let mut b = sp(ty, false, DISP_JOIN, true, Delay::Sleep(3_000_000), Delay::None, 16, 0x4f01 + 2 * n as u64);
        b.reuse = true;
        specs.push(a);
        specs.push(b);
    }
    Batch { specs }
}

pub fn run(ctx: &Ctx) {
    let c06 = ctx.prop == "C06";
    let env = Env {
        ctx,
        c06,
        startup_mmaps: RefCell::new(BTreeMap::new()),
        threads: Cell::new(0),
        batches: Cell::new(0),
        probe_runs: Cell::new(0),
        strace_runs: Cell::new(0),
        max_alive: Cell::new(0),
        shrinking: Cell::new(false),
    };
    let builds = builds_for(ctx);
    let max_b = if ctx.thorough() { 10 } else { 5 };
    // join / drop exactly while the thread is in its (stretched) epilogue
    if let Some(case) = ctx.replay_case::<Case>("epilogue") {
        ctx.run_one("epilogue", &case, || env.attempt(&case));
    } else if !ctx.is_replay() {
        for (k, build) in builds.iter().enumerate() {
            if (k as u32 + 1) % ctx.nworkers == ctx.worker {
                let case = Case { build: build.to_string(), strace: false, fault: None, batches: vec![stall_batch(1, true), stall_batch(2, true), stall_batch(3, true), stall_batch(1, false), stall_batch(2, false), stall_batch(3, false)] };
                if !ctx.run_one("epilogue", &case, || run_case(&env, &case)) {
                    break;
                }
            }
        }
    }
    // a handle dropped while its thread is finishing, the next spawn taking over the freed join state
    if let Some(case) = ctx.replay_case::<Case>("reuse") {
        ctx.run_one("reuse", &case, || env.attempt(&case));
    } else if !ctx.is_replay() {
        for (k, build) in builds.iter().enumerate() {
            if (k as u32 + 2) % ctx.nworkers == ctx.worker {
                let case = Case { build: build.to_string(), strace: false, fault: None, batches: vec![reuse_batch(1), reuse_batch(2), reuse_batch(3), reuse_batch_dropped_first(2), reuse_batch_dropped_first(3), reuse_batch_dropped_first(4), reuse_batch(1), reuse_batch(2), reuse_batch(3), reuse_batch_dropped_first(2), reuse_batch_dropped_first(3)] };
                if !ctx.run_one("reuse", &case, || run_case(&env, &case)) {
                    break;
                }
            }
        }
    }
    // threads whose closure is itself the handle side of another thread
    if let Some(case) = ctx.replay_case::<Case>("nested") {
        ctx.run_one("nested", &case, || env.attempt(&case));
    } else if !ctx.is_replay() {
        for (k, build) in builds.iter().enumerate() {
            if (k as u32 + 4) % ctx.nworkers == ctx.worker {
                let case = Case { build: build.to_string(), strace: false, fault: None, batches: vec![nested_batch(), nested_batch()] };
                if !ctx.run_one("nested", &case, || run_case(&env, &case)) {
                    break;
                }
            }
        }
    }
    // join evaluated inside a print statement (the joiner holds the stderr print lock)
    if let Some(case) = ctx.replay_case::<Case>("print-join") {
        ctx.run_one("print-join", &case, || env.attempt(&case));
    } else if !ctx.is_replay() {
        for (k, build) in builds.iter().enumerate() {
            if (k as u32 + 3) % ctx.nworkers == ctx.worker {
                let case = Case { build: build.to_string(), strace: false, fault: None, batches: vec![print_join_batch()] };
                if !ctx.run_one("print-join", &case, || run_case(&env, &case)) {
                    break;
                }
            }
        }
    }
    // a wait on the exit futex that returns without the thread having exited (spurious wake-up)
    if let Some(case) = ctx.replay_case::<Case>("spurious") {
        ctx.run_one("spurious", &case, || env.attempt(&case));
    } else if !ctx.is_replay() {
        for (k, build) in builds.iter().enumerate() {
            if k as u32 % ctx.nworkers == ctx.worker {
                let case = Case { build: build.to_string(), strace: false, fault: None, batches: vec![spurious_batch(), signal_batch(), deep_batch(), spurious_batch(), signal_batch()] };
                if !ctx.run_one("spurious", &case, || run_case(&env, &case)) {
                    break;
                }
            }
        }
    }
    if c06 {
        // fixed cases: the complete (type x return|panic x disposition) matrix under strace, and the two minimal
        // histories in which a heap-owning result meets a dropped handle (one per outcome of the flag race)
        if let Some(case) = ctx.replay_case::<Case>("fixed") {
            ctx.run_one("fixed", &case, || env.attempt(&case));
        } else if let Some(case) = ctx.replay_case::<Case>("fixed-min") {
            ctx.run_one("fixed-min", &case, || env.attempt(&case));
        } else if !ctx.is_replay() {
            let mut all = Vec::new();
            for build in &builds {
                all.push(Case { build: build.to_string(), strace: false, fault: None, batches: vec![Batch { specs: vec![sp(TY_VEC, false, DISP_DROP_NOW, false, Delay::Spin(100_000), Delay::None, 8, 77)] }] });
                all.push(Case { build: build.to_string(), strace: false, fault: None, batches: vec![Batch { specs: vec![sp(TY_VEC, false, DISP_DROP_LATER, false, Delay::None, Delay::Sleep(2_000_000), 8, 78)] }] });
            }
            for build in &builds {
                for strace in [false, true] {
                    all.push(Case { build: build.to_string(), strace, fault: None, batches: matrix_batches() });
                }
            }
            for (k, case) in all.iter().enumerate() {
                let name = if case.batches[0].specs.len() == 1 { "fixed-min" } else { "fixed" };
                if k as u32 % ctx.nworkers == ctx.worker && !ctx.run_one(name, case, || run_case(&env, case)) {
                    break;
                }
            }
        }
        ctx.run_prop_opts("release", ctx.cases(120, 1500), 150, case_strategy(true, builds.clone(), false, max_b), |c| env.attempt(c));
        env.shrinking.set(false);
        ctx.run_prop_opts("release-strace", ctx.cases(15, 120), 60, case_strategy(true, builds.clone(), true, 2), |c| env.attempt(c));
        env.shrinking.set(false);
    } else {
        ctx.run_prop_opts("join", ctx.cases(120, 1500), 150, case_strategy(false, builds.clone(), false, max_b), |c| env.attempt(c));
        env.shrinking.set(false);
        ctx.run_prop_opts("join-strace", ctx.cases(12, 100), 60, case_strategy(false, builds.clone(), true, 2), |c| env.attempt(c));
        env.shrinking.set(false);
        if ctx.thorough() {
            ctx.run_prop_opts("fault-rand", ctx.cases(0, 60), 60, fault_case_strategy(builds.clone()), |c| env.attempt(c));
        env.shrinking.set(false);
        }
    }
    // complete fault enumeration on the fixed batches: every stack mmap, every clone (x EAGAIN, ENOMEM); judged for
    // both properties (C05: spawn reports the error, the other threads are unaffected; C06: what spawn had set up
    // for the thread that never came to be is released, exactly once)
    if let Some(case) = ctx.replay_case::<Case>("fault") {
        ctx.run_one("fault", &case, || env.attempt(&case));
    } else if let Some(case) = ctx.replay_case::<Case>("fault-min") {
        ctx.run_one("fault-min", &case, || env.attempt(&case));
    } else if !ctx.is_replay() {
        let fixed = fixed_batches();
        let mut all = Vec::new();
        for build in &builds {
            for b in &fixed {
                for idx in 0..b.specs.len() as u32 {
                    for (t, e) in [("clone", "EAGAIN"), ("clone", "ENOMEM"), ("stack-mmap", "ENOMEM")] {
                        all.push(Case { build: build.to_string(), strace: true, fault: Some(Fault { target: t.into(), index: idx, errno: e.into(), persistent: false }), batches: vec![b.clone()] });
                        // the same failure, staying (a limit that does not go away): from the first spawn, from the middle one
                        if b.specs.len() <= 4 && (idx == 0 || idx == b.specs.len() as u32 / 2) {
                            all.push(Case { build: build.to_string(), strace: true, fault: Some(Fault { target: t.into(), index: idx, errno: e.into(), persistent: true }), batches: vec![b.clone()] });
                        }
                    }
                }
            }
        }
        let mut complete = true;
        for (k, case) in all.iter().enumerate() {
            if k as u32 % ctx.nworkers != ctx.worker {
                continue;
            }
            // the one-thread batch is its own sub-check so that its replay file is the minimal one
            let name = if case.batches[0].specs.len() == 1 { "fault-min" } else { "fault" };
            if !ctx.run_one(name, case, || run_case(&env, case)) {
                complete = false;
                break;
            }
        }
        if complete {
            ctx.note_exhaustive(format!("every stack mmap and every clone (EAGAIN, ENOMEM) of 4 fixed batches (1, 4, 6, 8 threads) x {} builds failed once by strace injection, and on the 1- and 4-thread batches failed for good from the first / the middle spawn on: {} cases", builds.len(), all.len()));
        }
    }
    ctx.extra("threads_created", serde_json::json!(env.threads.get()));
    ctx.extra("batches_run", serde_json::json!(env.batches.get()));
    ctx.extra("probe_runs", serde_json::json!(env.probe_runs.get()));
    ctx.extra("probe_runs_under_strace", serde_json::json!(env.strace_runs.get()));
    ctx.extra("max_threads_live_at_once", serde_json::json!(env.max_alive.get()));
    ctx.extra("builds", serde_json::json!(builds));
}
