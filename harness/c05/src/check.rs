use vh::runner::Ctx;

pub fn run(_ctx: &Ctx) {}
