//! strace log parsing. The log is judged PER TID (after merging `<unfinished ...>` / `resumed` pairs): the
//! cross-thread line order is the order of ptrace stops, not of kernel effects, and stack addresses are reused at
//! once, so no cross-thread address-lifetime reasoning is drawn from line order.
use std::collections::BTreeMap;

#[derive(Debug, Clone)]
pub struct Ev {
    pub name: String,
    pub args: String,
    /// text after " = " (e.g. "0", "0x7f..", "-1 EAGAIN (...) (INJECTED)", "?")
    pub ret: String,
}

impl Ev {
    pub fn ret_num(&self) -> Option<i64> {
        let t = self.ret.split_whitespace().next()?;
        if let Some(h) = t.strip_prefix("0x") {
            u64::from_str_radix(h, 16).ok().map(|v| v as i64)
        } else {
            t.parse().ok()
        }
    }
    pub fn injected(&self) -> bool {
        self.ret.contains("(INJECTED)")
    }
    pub fn arg_hex(&self, key: &str) -> Option<u64> {
        let i = self.args.find(key)?;
        let rest = &self.args[i + key.len()..];
        let rest = rest.strip_prefix("0x")?;
        let end = rest.find(|c: char| !c.is_ascii_hexdigit()).unwrap_or(rest.len());
        u64::from_str_radix(&rest[..end], 16).ok()
    }
    /// positional argument `i` (split on ", "; good enough for mmap/munmap/futex/set_tid_address)
    pub fn pos(&self, i: usize) -> Option<&str> {
        self.args.split(", ").nth(i)
    }
    pub fn pos_num(&self, i: usize) -> Option<u64> {
        let t = self.pos(i)?.trim();
        if let Some(h) = t.strip_prefix("0x") {
            u64::from_str_radix(h, 16).ok()
        } else if t == "NULL" {
            Some(0)
        } else {
            t.parse().ok()
        }
    }
}

#[allow(dead_code)]
#[derive(Debug, Default)]
pub struct Log {
    pub first_tid: u32,
    pub per_tid: BTreeMap<u32, Vec<Ev>>,
    /// tids with a "+++ exited with N +++" line
    pub exited: BTreeMap<u32, i32>,
    /// tids killed ("+++ killed by SIG +++")
    pub killed: BTreeMap<u32, String>,
    pub unparsed: Vec<String>,
}

pub fn parse(text: &str) -> Log {
    let mut log = Log::default();
    let mut pending: BTreeMap<u32, (String, String)> = BTreeMap::new();
    for line in text.lines() {
        let line = line.trim_end();
        if line.is_empty() {
            continue;
        }
        let Some((tid_s, rest)) = line.split_once(char::is_whitespace) else {
            log.unparsed.push(line.to_string());
            continue;
        };
        let Ok(tid) = tid_s.parse::<u32>() else {
            log.unparsed.push(line.to_string());
            continue;
        };
        if log.first_tid == 0 {
            log.first_tid = tid;
        }
        let rest = rest.trim_start();
        if let Some(r) = rest.strip_prefix("+++ exited with ") {
            let code = r.trim_end_matches(" +++").trim().parse().unwrap_or(-1);
            log.exited.insert(tid, code);
            continue;
        }
        if let Some(r) = rest.strip_prefix("+++ killed by ") {
            log.killed.insert(tid, r.trim_end_matches(" +++").to_string());
            continue;
        }
        if rest.starts_with("---") {
            // signal delivery line
            continue;
        }
        if let Some(r) = rest.strip_prefix("<... ") {
            // "<... name resumed>tail) = ret"
            let Some((name, tail)) = r.split_once(" resumed>") else {
                log.unparsed.push(line.to_string());
                continue;
            };
            let (head_name, head_args) = pending.remove(&tid).unwrap_or_else(|| (name.to_string(), String::new()));
            let (targs, ret) = split_ret(tail);
            let mut args = head_args;
            args.push_str(targs.trim_end().trim_end_matches(')'));
            let _ = head_name;
            log.per_tid.entry(tid).or_default().push(Ev { name: name.to_string(), args, ret });
            continue;
        }
        // "name(args...) = ret"   or   "name(args <unfinished ...>"
        let Some(p) = rest.find('(') else {
            log.unparsed.push(line.to_string());
            continue;
        };
        let name = rest[..p].to_string();
        let after = &rest[p + 1..];
        if let Some(a) = after.strip_suffix("<unfinished ...>") {
            pending.insert(tid, (name, a.trim_end().to_string()));
            continue;
        }
        let (args, ret) = split_ret(after);
        let args = match args.rfind(')') {
            Some(i) => args[..i].to_string(),
            None => args.to_string(),
        };
        log.per_tid.entry(tid).or_default().push(Ev { name, args, ret });
    }
    // calls that never resumed (thread exited inside exit(), or the process was killed)
    for (tid, (name, args)) in pending {
        log.per_tid.entry(tid).or_default().push(Ev { name, args, ret: "?".into() });
    }
    log
}

fn split_ret(s: &str) -> (&str, String) {
    match s.rfind(" = ") {
        Some(i) => (&s[..i], s[i + 3..].trim().to_string()),
        None => (s, "?".to_string()),
    }
}

pub const STACK_SZ: u64 = 8192 * 16 * 16;

#[allow(dead_code)]
#[derive(Debug, Clone)]
pub struct Cloned {
    pub tid: u32,
    pub spawner: u32,
    pub child_stack: u64,
    pub tls: u64,
    pub tidptr: u64,
    /// the 2 MiB mapping (made earlier by the spawner, per its own sequence) that contains child_stack
    pub stack: Option<(u64, u64)>,
}

#[allow(dead_code)]
#[derive(Debug, Default)]
pub struct Threads {
    pub cloned: Vec<Cloned>,
    /// clone calls that returned an error: (spawner, ret text, stack mapping made for it)
    pub failed_clones: Vec<(u32, String, Option<(u64, u64)>)>,
    /// mmaps by a spawner that are thread stacks (consumed by a clone, successful or not)
    pub stack_maps: Vec<(u32, u64, u64)>,
    /// mmap calls of stack shape that failed: (tid, ret text)
    pub failed_stack_mmaps: Vec<(u32, String)>,
}

pub fn is_stack_shaped(e: &Ev) -> bool {
    e.name == "mmap" && e.pos_num(1) == Some(STACK_SZ) && e.pos(2).map(|p| p.trim() == "PROT_READ|PROT_WRITE").unwrap_or(false) && e.pos(3).map(|p| p.trim() == "MAP_PRIVATE|MAP_ANONYMOUS").unwrap_or(false)
}

pub fn threads(log: &Log) -> Threads {
    let mut t = Threads::default();
    for (tid, evs) in &log.per_tid {
        let mut last_stack_map: Option<(u64, u64)> = None;
        for e in evs {
            if e.name == "mmap" {
                if is_stack_shaped(e) {
                    match e.ret_num() {
                        Some(a) if a > 0 => last_stack_map = Some((a as u64, STACK_SZ)),
                        _ => t.failed_stack_mmaps.push((*tid, e.ret.clone())),
                    }
                }
            } else if e.name == "clone" || e.name == "clone3" {
                let cs = e.arg_hex("child_stack=").unwrap_or(0);
                let stack = match last_stack_map {
                    Some((a, l)) if cs >= a && cs <= a + l => Some((a, l)),
                    _ => None,
                };
                if let Some((a, l)) = stack {
                    t.stack_maps.push((*tid, a, l));
                    last_stack_map = None;
                }
                match e.ret_num() {
                    Some(r) if r > 0 => t.cloned.push(Cloned {
                        tid: r as u32,
                        spawner: *tid,
                        child_stack: cs,
                        tls: e.arg_hex("tls=").unwrap_or(0),
                        tidptr: e.arg_hex("child_tidptr=").unwrap_or(0),
                        stack,
                    }),
                    _ => t.failed_clones.push((*tid, e.ret.clone(), stack)),
                }
            }
        }
    }
    t
}
