//! Wire format shared with /verif/probes/threads (mirror image of the probe's `Spec::parse` / report emission)
//! and the value family's reference model (what a spec's tag must produce).
use serde::{Deserialize, Serialize};

pub const TY_NAMES: [&str; 15] = ["()", "u8", "u64", "[u8;3]", "[u8;24]", "[u64;512]", "align64", "align4096", "Vec<u8>", "bool", "char", "Option<u8>", "fieldless-enum", "align16", "destructor-panics-on-the-thread"];
pub const NTY: u8 = 15;
/// a result whose destructor panics when it runs on the spawned thread (harmless on the main thread)
pub const TY_BOMB: u8 = 14;
pub const TY_VEC: u8 = 8;

pub const DISP_JOIN: u8 = 0;
pub const DISP_DROP_NOW: u8 = 1;
pub const DISP_DROP_LATER: u8 = 2;
pub const DISP_KEEP_END: u8 = 3;
pub const DISP_DROP_FINISHING: u8 = 4;
pub const DISP_NAMES: [&str; 5] = ["join", "drop-now", "drop-after-delay", "keep-until-end-then-join", "drop-while-finishing"];

#[derive(Debug, Clone, Copy, Serialize, Deserialize, PartialEq, Eq, Hash)]
pub enum Delay {
    None,
    /// busy loop of that many iterations
    Spin(u32),
    /// nanosleep of that many nanoseconds (<= 2 ms)
    Sleep(u32),
}

impl Delay {
    fn kind(&self) -> u8 {
        match self {
            Delay::None => 0,
            Delay::Spin(_) => 1,
            Delay::Sleep(_) => 2,
        }
    }
    fn amount(&self) -> u32 {
        match self {
            Delay::None => 0,
            Delay::Spin(n) => *n,
            Delay::Sleep(n) => (*n).min(2_000_000),
        }
    }
}

#[derive(Debug, Clone, Serialize, Deserialize, PartialEq, Eq, Hash)]
pub struct Spec {
    /// index into TY_NAMES
    pub ty: u8,
    pub panic: bool,
    /// index into DISP_NAMES
    pub disp: u8,
    /// the disposition is carried out before the next thread of the batch is spawned
    pub inline: bool,
    pub child_delay: Delay,
    pub parent_delay: Delay,
    pub buflen: u16,
    pub tag: u64,
    /// the closure (which returns) first delivers a spurious wake-up on its own exit futex - a FUTEX_WAKE
    /// that leaves the word unchanged, as futex(2) allows at any time - and then keeps running for 2 ms
    #[serde(default)]
    pub spurious: bool,
    /// exit stall: every free the thread makes after its closure is done sleeps this many ns first
    #[serde(default)]
    pub stall_ns: u32,
    /// the parent carries out its disposition when the k-th stalled free has begun (0 = no rendezvous)
    #[serde(default)]
    pub stall_k: u8,
    /// a batch with such a spec runs WITHOUT the probe's quarantine: freed blocks go straight back to the
    /// allocator, so that the join state of a thread can be handed to the next spawn while the kernel still
    /// owes its exit write
    #[serde(default)]
    pub reuse: bool,
    /// the join is evaluated as an argument of `eprint!`, i.e. while the joiner holds the stderr print lock
    /// (`eprintln!("{:?}", handle.join())`)
    #[serde(default)]
    pub join_in_print: bool,
    /// the closure itself spawns a thread and 1 = joins it, 2 = drops its handle once it has finished: the
    /// handle side of a thread's life runs on a spawned thread
    #[serde(default)]
    pub nested: u8,
    /// with disp "drop now" and a rendezvous: the handle goes at once (the thread still runs), the next spawn waits
    /// for the k-th stalled free of this thread's epilogue
    #[serde(default)]
    pub drop_first: bool,
    /// the thread interrupts the main thread with a signal whose handler does not restart system calls (three
    /// times, 150 us apart) before it goes on working: a join parked in its futex wait sees EINTR
    #[serde(default)]
    pub signal_joiner: bool,
    /// the closure uses a frame of 256 KiB on the thread's stack before it returns
    #[serde(default)]
    pub deep: bool,
}

impl Spec {
    pub fn joined(&self) -> bool {
        self.disp == DISP_JOIN || self.disp == DISP_KEEP_END
    }
}

#[derive(Debug, Clone, Serialize, Deserialize, PartialEq, Eq, Hash)]
pub struct Batch {
    pub specs: Vec<Spec>,
}

pub fn encode_batch(b: &Batch) -> Vec<u8> {
    let mut pl = vec![1u8, b.specs.len() as u8, 0, 0];
    for s in &b.specs {
        pl.push(s.ty);
        pl.push(if s.spurious && !s.panic { 2 } else if s.panic { 1 } else if s.nested == 1 { 3 } else if s.nested == 2 { 4 } else if s.signal_joiner { 5 } else if s.deep { 6 } else { 0 });
        pl.push(s.disp);
        pl.push(s.inline as u8);
        pl.push(s.child_delay.kind());
        pl.push(s.parent_delay.kind());
        pl.extend_from_slice(&s.buflen.to_le_bytes());
        pl.extend_from_slice(&s.child_delay.amount().to_le_bytes());
        pl.extend_from_slice(&s.parent_delay.amount().to_le_bytes());
        pl.extend_from_slice(&s.tag.to_le_bytes());
        pl.extend_from_slice(&s.stall_ns.to_le_bytes());
        pl.push(s.stall_k);
        pl.push(s.reuse as u8);
        pl.push(s.join_in_print as u8);
        pl.push(s.drop_first as u8);
    }
    let mut out = (pl.len() as u32).to_le_bytes().to_vec();
    out.extend_from_slice(&pl);
    out
}

// ------------------------------------------------------------------------------------------------
// reference model of the value family
// ------------------------------------------------------------------------------------------------

pub fn splitmix(x: u64) -> u64 {
    let x = x.wrapping_add(0x9E37_79B9_7F4A_7C15);
    let mut z = x;
    z = (z ^ (z >> 30)).wrapping_mul(0xBF58_476D_1CE4_E5B9);
    z = (z ^ (z >> 27)).wrapping_mul(0x94D0_49BB_1331_11EB);
    z ^ (z >> 31)
}

pub fn sbyte(tag: u64, k: usize) -> u8 {
    (splitmix(tag ^ ((k as u64) >> 3).wrapping_mul(0x1000_0000_01b3)) >> ((k & 7) * 8)) as u8
}

pub fn fnv(bytes: impl Iterator<Item = u8>) -> u64 {
    let mut h = 0xcbf2_9ce4_8422_2325u64;
    for b in bytes {
        h = (h ^ b as u64).wrapping_mul(0x0000_0100_0000_01b3);
    }
    h
}

/// Number of logical bytes of the value a returning closure of type `ty` with `tag` produces.
pub fn value_len(ty: u8, tag: u64) -> usize {
    match ty {
        0 => 0,
        1 => 1,
        2 => 8,
        3 => 3,
        4 => 24,
        5 => 4096,
        6 => 9,
        7 => 24,
        9 => 1,
        10 => 4,
        11 => 2,
        12 => 1,
        13 => 112,
        14 => 8,
        _ => (splitmix(tag ^ 0x0abc) % 301) as usize,
    }
}

/// (hash, len) of the value: types 0..=8 are the first `len` bytes of the tag's byte stream; the
/// niche-carrying types 9..=12 (whose `Option` keeps `None` outside the all-zero pattern) are a
/// function of its first bytes.
pub fn expected_value(ty: u8, tag: u64) -> (u64, u32) {
    let n = value_len(ty, tag);
    let b = |k: usize| sbyte(tag, k);
    let bytes: Vec<u8> = match ty {
        9 => vec![b(0) & 1],
        10 => (u32::from_le_bytes([b(0), b(1), b(2), b(3)]) % 0xD800).to_le_bytes().to_vec(),
        11 => vec![b(0) & 1, if b(0) & 1 == 1 { b(1) } else { 0 }],
        12 => vec![b(0) % 3],
        _ => (0..n).map(b).collect(),
    };
    (fnv(bytes.into_iter()), n as u32)
}

pub fn expected_buf(tag: u64, n: usize) -> u64 {
    fnv((0..n).map(|k| sbyte(tag ^ 0x5eed, k)))
}

#[allow(dead_code)]
pub fn zero_buf(n: usize) -> u64 {
    fnv((0..n).map(|_| 0u8))
}

// ------------------------------------------------------------------------------------------------
// reports
// ------------------------------------------------------------------------------------------------

pub struct Rd<'a> {
    b: &'a [u8],
    o: usize,
    pub bad: bool,
}

impl<'a> Rd<'a> {
    pub fn new(b: &'a [u8]) -> Self {
        Rd { b, o: 0, bad: false }
    }
    fn take(&mut self, n: usize) -> &'a [u8] {
        if self.o + n > self.b.len() {
            self.bad = true;
            return &[0u8; 8][..n.min(8)];
        }
        let s = &self.b[self.o..self.o + n];
        self.o += n;
        s
    }
    pub fn u8(&mut self) -> u8 {
        self.take(1)[0]
    }
    pub fn u32(&mut self) -> u32 {
        let s = self.take(4);
        u32::from_le_bytes([s[0], s[1], s[2], s[3]])
    }
    pub fn u64(&mut self) -> u64 {
        let s = self.take(8);
        u64::from_le_bytes([s[0], s[1], s[2], s[3], s[4], s[5], s[6], s[7]])
    }
}

#[allow(dead_code)]
#[derive(Debug, Clone, Default)]
pub struct Hello {
    pub main_tid: u32,
    pub pid: u32,
    pub lines: u64,
    pub anon: u64,
    pub total: u64,
    pub vm_pages: u64,
    pub live_count: u64,
    pub live_bytes: u64,
    /// the allocator reserve survived (VmSize did not move when the 6 MiB block was freed)
    pub reserve_ok: bool,
}

pub fn parse_hello(b: &[u8]) -> Option<Hello> {
    let mut r = Rd::new(b);
    if r.u8() != 0x10 {
        return None;
    }
    let h = Hello {
        main_tid: r.u32(),
        pid: r.u32(),
        lines: r.u64(),
        anon: r.u64(),
        total: r.u64(),
        vm_pages: r.u64(),
        live_count: r.u64(),
        live_bytes: r.u64(),
        reserve_ok: r.u8() == 1,
    };
    if r.bad {
        None
    } else {
        Some(h)
    }
}

#[allow(dead_code)]
#[derive(Debug, Clone, Default)]
pub struct SpecRep {
    /// 0 = spawn returned Ok
    pub spawn_errno: i32,
    /// 0 not joined, 1 join returned None, 2 join returned Some
    pub join_class: u8,
    /// 0 = the address the thread used on its own stack is unmapped, 1 = mapped with other content, 2 = still holds the thread's value
    pub canary: u8,
    /// spurious specs: 1 = the wake-up woke a parked waiter, 2 = nobody was parked, 3 = address unavailable
    pub woke: u8,
    /// bit 0: the disposition began while the thread slept in its epilogue; bit 1: join returned while it
    /// still slept there; bits 4..: stalled frees begun
    pub stall_obs: u8,
    pub run: u32,
    pub tid: u32,
    pub vhash: u64,
    pub vlen: u32,
    pub closure_size: u32,
    pub buf_join: u64,
    pub buf_drain: u64,
    pub canary_addr: u64,
}

#[allow(dead_code)]
#[derive(Debug, Clone, Default)]
pub struct LogRec {
    pub ptr: u64,
    pub size: u64,
    pub align: u32,
    pub alloc_tid: u32,
    /// 0 = live at the end of the batch
    pub free_tid: u32,
    /// i+1 when allocated by the main thread inside the spawn call of spec i
    pub spec: u8,
    pub mismatch: u8,
    pub d_size: u64,
    pub d_align: u32,
    /// 1 + offset of the first byte written after the block was freed (0 = none)
    pub damage_off: u32,
    pub damage_n: u32,
}

#[allow(dead_code)]
#[derive(Debug, Clone, Default)]
pub struct BatchReport {
    pub n: usize,
    pub drained: bool,
    pub polls: u32,
    pub threads_left: u64,
    pub max_alive: u32,
    pub lines: u64,
    pub anon: u64,
    pub total: u64,
    pub vm_pages: u64,
    pub live_count_before: u64,
    pub live_bytes_before: u64,
    pub live_count_after: u64,
    pub live_bytes_after: u64,
    pub double_free: u32,
    pub nonlive_free: u32,
    pub layout_mismatch: u32,
    pub alloc_dup_live: u32,
    pub log_overflow: u32,
    pub table_overflow: u32,
    pub old_freed: u32,
    pub null_allocs: u32,
    /// quarantined (freed, poisoned) blocks whose poison changed before every thread was gone
    pub uaf_writes: u32,
    pub quar_overflow: u32,
    pub specs: Vec<SpecRep>,
    pub log: Vec<LogRec>,
}

pub fn parse_report(b: &[u8]) -> Option<BatchReport> {
    let mut r = Rd::new(b);
    if r.u8() != 0x11 {
        return None;
    }
    let mut rep = BatchReport { n: r.u8() as usize, drained: r.u8() == 1, ..Default::default() };
    r.u8();
    rep.polls = r.u32();
    rep.threads_left = r.u64();
    rep.max_alive = r.u32();
    rep.lines = r.u64();
    rep.anon = r.u64();
    rep.total = r.u64();
    rep.vm_pages = r.u64();
    rep.live_count_before = r.u64();
    rep.live_bytes_before = r.u64();
    rep.live_count_after = r.u64();
    rep.live_bytes_after = r.u64();
    rep.double_free = r.u32();
    rep.nonlive_free = r.u32();
    rep.layout_mismatch = r.u32();
    rep.alloc_dup_live = r.u32();
    rep.log_overflow = r.u32();
    rep.table_overflow = r.u32();
    rep.old_freed = r.u32();
    rep.null_allocs = r.u32();
    rep.uaf_writes = r.u32();
    rep.quar_overflow = r.u32();
    for _ in 0..rep.n {
        let spawn_errno = r.u32() as i32;
        let join_class = r.u8();
        let canary = r.u8();
        let woke = r.u8();
        let stall_obs = r.u8();
        let run = r.u32();
        let tid = r.u32();
        let vhash = r.u64();
        let vlen = r.u32();
        let closure_size = r.u32();
        let buf_join = r.u64();
        let buf_drain = r.u64();
        let canary_addr = r.u64();
        rep.specs.push(SpecRep { spawn_errno, join_class, canary, woke, stall_obs, run, tid, vhash, vlen, closure_size, buf_join, buf_drain, canary_addr });
    }
    let nlog = r.u32() as usize;
    if nlog > 1 << 16 {
        return None;
    }
    for _ in 0..nlog {
        let ptr = r.u64();
        let size = r.u64();
        let align = r.u32();
        let alloc_tid = r.u32();
        let free_tid = r.u32();
        let spec = r.u8();
        let mismatch = r.u8();
        r.u8();
        r.u8();
        let d_size = r.u64();
        let d_align = r.u32();
        let damage_off = r.u32();
        let damage_n = r.u32();
        rep.log.push(LogRec { ptr, size, align, alloc_tid, free_tid, spec, mismatch, d_size, d_align, damage_off, damage_n });
    }
    if r.bad {
        None
    } else {
        Some(rep)
    }
}
