//! Launching probe-threads (optionally under strace), record I/O with a watchdog.
//!
//! Watchdog rule (brief, addendum): a hang is never a violation by itself. Only when EVERY thread of the probe
//! process is parked in an untimed futex(FUTEX_WAIT) in two observations 200 ms apart (same thread set) is it a
//! definitive deadlock; anything else that exceeds the time limit is inconclusive.
use std::fs::File;
use std::io::{Read, Write};
use std::os::fd::AsRawFd;
use std::path::PathBuf;
use std::process::{Child, ChildStdin, ChildStdout, Command, Stdio};
use std::time::{Duration, Instant};

use super::wire::{parse_hello, Hello};

pub const MODES: [&str; 6] = ["dyn-debug", "static-release", "pie-debug", "dyn-release", "static-debug", "pie-release"];

pub fn probe_path(mode: &str) -> PathBuf {
    let prof = if mode.ends_with("release") { "release" } else { "debug" };
    PathBuf::from(format!("{}/probes/target-{}/x86_64-unknown-linux-gnu/{}/probe-threads", vh::runner::verif_root(), mode, prof))
}

#[derive(Debug, Clone)]
pub struct Injection {
    pub syscall: &'static str,
    pub errno: &'static str,
    pub when: u32,
    /// this call and every later one
    pub persistent: bool,
}

pub enum Rec {
    Data(Vec<u8>),
    /// the probe closed its stdout (it exited or died)
    Eof,
    /// every thread parked in an untimed FUTEX_WAIT, twice 200 ms apart; the text lists the threads
    Deadlock(String),
    Timeout,
}

#[derive(Debug, Clone, PartialEq, Eq)]
pub enum Exit {
    Code(i32),
    Signal(i32),
    Unknown,
}

pub struct Probe {
    child: Child,
    stdin: Option<ChildStdin>,
    stdout: ChildStdout,
    pub hello: Hello,
    pub strace_log: Option<PathBuf>,
    pub stderr_path: PathBuf,
    pub dir: PathBuf,
}

fn scratch_dir() -> PathBuf {
    static N: std::sync::atomic::AtomicU64 = std::sync::atomic::AtomicU64::new(0);
    let n = N.fetch_add(1, std::sync::atomic::Ordering::SeqCst);
    let d = std::env::temp_dir().join(format!("verif-c05-{}-{}", std::process::id(), n));
    let _ = std::fs::create_dir_all(&d);
    d
}

pub const TRACE_SET: &str = "trace=mmap,munmap,mremap,brk,clone,clone3,exit,exit_group,set_tid_address,futex";

impl Probe {
    /// Starts the probe and reads its hello record. `Err` = infrastructure problem (text).
    pub fn start(mode: &str, strace: bool, inject: Option<&Injection>) -> Result<Probe, String> {
        let path = probe_path(mode);
        if !path.exists() {
            return Err(format!("probe binary {} missing", path.display()));
        }
        let dir = scratch_dir();
        let stderr_path = dir.join("stderr");
        let errf = File::create(&stderr_path).map_err(|e| e.to_string())?;
        let mut strace_log = None;
        let mut cmd;
        if strace || inject.is_some() {
            let log = dir.join("strace.log");
            cmd = Command::new("strace");
            cmd.arg("-f").arg("--seccomp-bpf").arg("-o").arg(&log).arg("-e").arg(TRACE_SET);
            if let Some(i) = inject {
                cmd.arg("-e").arg(format!("inject={}:error={}:when={}{}", i.syscall, i.errno, i.when, if i.persistent { "+" } else { "" }));
            }
            cmd.arg(&path);
            strace_log = Some(log);
        } else {
            cmd = Command::new(&path);
        }
        cmd.stdin(Stdio::piped()).stdout(Stdio::piped()).stderr(Stdio::from(errf));
        let mut child = cmd.spawn().map_err(|e| format!("cannot start probe: {e}"))?;
        let stdin = child.stdin.take();
        let stdout = child.stdout.take().unwrap();
        let mut p = Probe { child, stdin, stdout, hello: Hello::default(), strace_log, stderr_path, dir };
        match p.read_record(Duration::from_secs(30)) {
            Rec::Data(d) => match parse_hello(&d) {
                Some(h) => {
                    p.hello = h;
                    Ok(p)
                }
                None => {
                    p.kill();
                    Err("malformed hello record".into())
                }
            },
            Rec::Eof => {
                let e = p.wait_exit();
                Err(format!("probe exited before its hello record ({e:?}): {}", p.stderr_text()))
            }
            _ => {
                p.kill();
                Err("probe did not produce its hello record in time".into())
            }
        }
    }

    pub fn send(&mut self, bytes: &[u8]) -> bool {
        match self.stdin.as_mut() {
            Some(s) => s.write_all(bytes).and_then(|_| s.flush()).is_ok(),
            None => false,
        }
    }

    pub fn close_stdin(&mut self) {
        self.stdin = None;
    }

    fn read_n(&mut self, n: usize, deadline: Instant, watch: bool) -> Result<Vec<u8>, Rec> {
        let mut out = vec![0u8; n];
        let mut off = 0;
        let fd = self.stdout.as_raw_fd();
        let mut parked_since: Option<(Instant, Vec<u32>)> = None;
        while off < n {
            let mut pfd = libc::pollfd { fd, events: libc::POLLIN, revents: 0 };
            let rc = unsafe { libc::poll(&mut pfd, 1, 50) };
            if rc > 0 {
                match self.stdout.read(&mut out[off..]) {
                    Ok(0) => return Err(Rec::Eof),
                    Ok(k) => {
                        off += k;
                        parked_since = None;
                    }
                    Err(e) if e.kind() == std::io::ErrorKind::Interrupted => {}
                    Err(_) => return Err(Rec::Eof),
                }
                continue;
            }
            if Instant::now() > deadline {
                return Err(Rec::Timeout);
            }
            if watch && self.hello.pid != 0 {
                match all_parked(self.hello.pid) {
                    Some(tids) => match &parked_since {
                        Some((t0, tids0)) if *tids0 == tids => {
                            if t0.elapsed() >= Duration::from_millis(200) {
                                return Err(Rec::Deadlock(format!("threads {tids:?} of pid {} all parked in futex(FUTEX_WAIT, timeout=NULL)", self.hello.pid)));
                            }
                        }
                        _ => parked_since = Some((Instant::now(), tids)),
                    },
                    None => parked_since = None,
                }
            }
        }
        Ok(out)
    }

    pub fn read_record(&mut self, limit: Duration) -> Rec {
        let deadline = Instant::now() + limit;
        let watch = self.hello.pid != 0;
        let l = match self.read_n(4, deadline, watch) {
            Ok(b) => u32::from_le_bytes([b[0], b[1], b[2], b[3]]) as usize,
            Err(r) => return r,
        };
        if l > 16 << 20 {
            return Rec::Eof;
        }
        match self.read_n(l, deadline, watch) {
            Ok(b) => Rec::Data(b),
            Err(r) => r,
        }
    }

    pub fn kill(&mut self) {
        if self.hello.pid != 0 {
            unsafe {
                libc::kill(self.hello.pid as i32, libc::SIGKILL);
            }
        }
        // strace follows its tracee; give it a moment, then make sure
        let t0 = Instant::now();
        loop {
            match self.child.try_wait() {
                Ok(Some(_)) => return,
                Ok(None) => {
                    if t0.elapsed() > Duration::from_millis(500) {
                        let _ = self.child.kill();
                        let _ = self.child.wait();
                        return;
                    }
                    std::thread::sleep(Duration::from_millis(5));
                }
                Err(_) => return,
            }
        }
    }

    /// Waits (bounded) for the probe (or strace, which propagates the tracee's status) to exit.
    pub fn wait_exit(&mut self) -> Exit {
        use std::os::unix::process::ExitStatusExt;
        let t0 = Instant::now();
        loop {
            match self.child.try_wait() {
                Ok(Some(st)) => {
                    return if let Some(s) = st.signal() {
                        Exit::Signal(s)
                    } else if let Some(c) = st.code() {
                        Exit::Code(c)
                    } else {
                        Exit::Unknown
                    };
                }
                Ok(None) => {
                    if t0.elapsed() > Duration::from_secs(10) {
                        self.kill();
                        return Exit::Unknown;
                    }
                    std::thread::sleep(Duration::from_millis(2));
                }
                Err(_) => return Exit::Unknown,
            }
        }
    }

    pub fn stderr_text(&self) -> String {
        let mut s = std::fs::read_to_string(&self.stderr_path).unwrap_or_default();
        s.truncate(400);
        s.replace('\n', " / ")
    }

    pub fn strace_text(&self) -> Option<String> {
        self.strace_log.as_ref().and_then(|p| std::fs::read(p).ok()).map(|b| String::from_utf8_lossy(&b).into_owned())
    }
}

impl Drop for Probe {
    fn drop(&mut self) {
        self.stdin = None;
        if let Ok(None) = self.child.try_wait() {
            self.kill();
        }
        let _ = std::fs::remove_dir_all(&self.dir);
    }
}

/// Some(sorted tids) when every thread of `pid` is blocked in futex(FUTEX_WAIT) without a timeout.
fn all_parked(pid: u32) -> Option<Vec<u32>> {
    let rd = std::fs::read_dir(format!("/proc/{pid}/task")).ok()?;
    let mut tids = Vec::new();
    for e in rd {
        let e = e.ok()?;
        let tid: u32 = e.file_name().to_str()?.parse().ok()?;
        let txt = std::fs::read_to_string(e.path().join("syscall")).ok()?;
        // "202 0xaddr 0xop 0xval 0xtimeout 0x.. 0x.. sp pc"
        let f: Vec<&str> = txt.split_whitespace().collect();
        if f.len() < 5 || f[0] != "202" {
            return None;
        }
        let hex = |s: &str| u64::from_str_radix(s.trim_start_matches("0x"), 16).ok();
        let op = hex(f[2])?;
        let timeout = hex(f[4])?;
        if op & 0x7f != 0 || timeout != 0 {
            return None;
        }
        tids.push(tid);
    }
    if tids.is_empty() {
        return None;
    }
    tids.sort_unstable();
    Some(tids)
}
