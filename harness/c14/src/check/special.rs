//! "read-special": `fs::read` / `fs::read_to_string` of things whose size the file system does not announce
//! (`st_size` is 0 although there is content): a fifo that a writer fills and closes, and procfs files. "read
//! returns them" does not depend on what `stat` says about the length. Differential against the bytes the writer
//! sent (fifo) and against `std::fs::read` of the same procfs file (files whose content is stable).
use std::os::unix::ffi::OsStrExt;

use serde::{Deserialize, Serialize};
use vh::runner::{catch, CaseReport, CaseResult, Failure};
use vh::util::escape;

use super::exec::Env;

#[derive(Debug, Clone, Serialize, Deserialize)]
pub struct SpecialCase {
    /// 0: fifo (the writer sends `len` bytes in pieces of `piece`, then closes); 1..: index into PROC
    pub what: u8,
    pub len: u32,
    pub piece: u16,
    /// read_to_string instead of read (the data is ASCII)
    pub as_string: bool,
}

pub const PROC: [&str; 4] = ["/proc/self/cmdline", "/proc/version", "/proc/self/comm", "/proc/sys/kernel/ostype"];

fn tiny_read(path: &[u8], as_string: bool) -> Result<Result<Vec<u8>, String>, (String, String)> {
    let mut z = path.to_vec();
    z.push(0);
    catch(move || {
        let us = rusl::string::unix_str::UnixStr::try_from_bytes(&z).unwrap();
        if as_string {
            tiny_std::fs::read_to_string(us).map(|s| s.into_bytes()).map_err(|e| format!("{e}"))
        } else {
            tiny_std::fs::read(us).map_err(|e| format!("{e}"))
        }
    })
}

pub fn check(env: &Env, c: &SpecialCase) -> CaseResult {
    let _guard = env.sb.begin_case();
    let mut rep = CaseReport::new();
    let api = if c.as_string { "read_to_string" } else { "read" };
    if c.what == 0 {
        let name = std::path::Path::new("fifo");
        let cname = std::ffi::CString::new(name.as_os_str().as_bytes()).unwrap();
        if unsafe { libc::mkfifo(cname.as_ptr(), 0o600) } != 0 {
            return Ok(rep);
        }
        let len = (c.len as usize).min(300_000);
        let piece = (c.piece as usize).max(1);
        let data: Vec<u8> = (0..len).map(|i| b'a' + (i % 23) as u8).collect();
        let sent = data.clone();
        // the writer opens the fifo (which lets the reader's open return), sends everything, closes
        let w = std::thread::spawn(move || {
            use std::io::Write;
            let Ok(mut f) = std::fs::OpenOptions::new().write(true).open("fifo") else { return };
            for ch in sent.chunks(piece) {
                if f.write_all(ch).is_err() {
                    return;
                }
            }
        });
        let got = tiny_read(b"fifo", c.as_string);
        let _ = w.join();
        let _ = std::fs::remove_file("fifo");
        match got {
            Err((loc, msg)) => return Err(Failure::new(format!("{api}|panic|{loc}"), msg)),
            Ok(Err(e)) => return Err(Failure::new(format!("{api}|error|fifo"), format!("{api} of a fifo into which a writer sends {len} bytes and closes failed: {e}"))),
            Ok(Ok(v)) => {
                if v != data {
                    let shape = if v.len() < data.len() && data.starts_with(&v) { "short" } else { "different" };
                    return Err(Failure::new(format!("{api}|wrong-bytes|fifo, {shape}"), format!("{api} of a fifo: the writer sent {len} bytes in pieces of {piece} and closed; {} bytes came back ({})", v.len(), escape(&v[..v.len().min(40)]))));
                }
            }
        }
        rep.nontrivial = len > 0;
        rep.class("fifo");
        rep.class_if(len > 65_536, "fifo-more-than-the-pipe-holds");
        rep.class_if(len == 0, "fifo-nothing-sent");
    } else {
        let path = PROC[(c.what as usize - 1) % PROC.len()];
        let Ok(want) = std::fs::read(path) else { return Ok(rep) };
        match tiny_read(path.as_bytes(), c.as_string) {
            Err((loc, msg)) => return Err(Failure::new(format!("{api}|panic|{loc}"), msg)),
            Ok(Err(e)) => {
                if c.as_string && std::str::from_utf8(&want).is_err() {
                    return Ok(rep);
                }
                return Err(Failure::new(format!("{api}|error|procfs file"), format!("{api}({path}) failed: {e}; std::fs::read returns {} bytes", want.len())));
            }
            Ok(Ok(v)) => {
                if v != want {
                    return Err(Failure::new(format!("{api}|wrong-bytes|procfs file"), format!("{api}({path}) returned {} bytes ({}), std::fs::read returns {} bytes ({}); stat reports a length of 0 for this file", v.len(), escape(&v[..v.len().min(40)]), want.len(), escape(&want[..want.len().min(40)]))));
                }
            }
        }
        rep.nontrivial = !want.is_empty();
        rep.class("procfs-file-whose-stat-size-is-0");
    }
    rep.class(if c.as_string { "read_to_string" } else { "read" });
    Ok(rep)
}

pub fn cases() -> Vec<SpecialCase> {
    let mut v = Vec::new();
    for as_string in [false, true] {
        for (len, piece) in [(0u32, 1u16), (1, 1), (31, 7), (32, 32), (33, 5), (4096, 4096), (10_000, 999), (65_536, 4096), (70_000, 8192), (200_000, 65_535)] {
            v.push(SpecialCase { what: 0, len, piece, as_string });
        }
        for k in 1..=PROC.len() as u8 {
            v.push(SpecialCase { what: k, len: 0, piece: 1, as_string });
        }
    }
    v
}
