//! Interpreter: runs a case against tiny_std::fs inside a fresh case root and judges every
//! step against the model (see model.rs) with std::fs as the observer (see fsio.rs).
use std::cell::RefCell;

use rusl::string::unix_str::UnixStr;
use tiny_std::fs as tfs;
use tiny_std::io::Read as _;
use vh::runner::{no_panic, CaseReport, CaseResult, Failure};
use vh::util::{escape, with_nul, Guarded};

use crate::check::case::{build, materialise, Case};
use crate::check::fsio::{path_of, raw_getdents, snapshot, Sandbox};
use crate::check::model::{diff, predict, Info, Kind, Pred, ROp, Tree};

pub struct Env {
    pub sb: Sandbox,
    g1: RefCell<Guarded>,
    g2: RefCell<Guarded>,
    pub max_many: usize,
}

impl Env {
    pub fn new(worker: u32, max_many: usize) -> Env {
        Env { sb: Sandbox::new(worker), g1: RefCell::new(Guarded::at_end(8192)), g2: RefCell::new(Guarded::at_end(8192)), max_many }
    }
}

#[derive(Debug)]
pub struct ErrInfo {
    pub text: String,
    pub errno: Option<i32>,
}

fn errinfo(e: tiny_std::Error) -> ErrInfo {
    let errno = match e {
        tiny_std::Error::Os { code, .. } => Some(code.raw()),
        _ => None,
    };
    ErrInfo { text: format!("{e}"), errno }
}

pub fn errno_name(e: Option<i32>) -> String {
    match e {
        None => "no errno".into(),
        Some(n) => match n {
            libc::ENOENT => "ENOENT".into(),
            libc::EEXIST => "EEXIST".into(),
            libc::EFAULT => "EFAULT".into(),
            libc::ENOTDIR => "ENOTDIR".into(),
            libc::EISDIR => "EISDIR".into(),
            libc::ENOTEMPTY => "ENOTEMPTY".into(),
            libc::ENAMETOOLONG => "ENAMETOOLONG".into(),
            libc::EINVAL => "EINVAL".into(),
            libc::ELOOP => "ELOOP".into(),
            libc::EBADF => "EBADF".into(),
            libc::EXDEV => "EXDEV".into(),
            libc::EACCES => "EACCES".into(),
            libc::EPERM => "EPERM".into(),
            libc::EMFILE => "EMFILE".into(),
            libc::ENOSPC => "ENOSPC".into(),
            libc::ENFILE => "ENFILE".into(),
            n => format!("errno {n}"),
        },
    }
}

#[derive(Debug)]
pub enum Out {
    Unit,
    Bytes(Vec<u8>),
    Bool(bool),
    Meta { is_dir: bool, is_file: bool, is_symlink: bool, len: u64 },
    /// (name, d_type code, is_relative_reference, file_name() when it is Ok)
    Entries(Vec<(Vec<u8>, u8, bool, Option<Vec<u8>>)>),
}

fn ft_code(t: tfs::FileType) -> u8 {
    match t {
        tfs::FileType::Fifo => libc::DT_FIFO,
        tfs::FileType::CharDevice => libc::DT_CHR,
        tfs::FileType::Directory => libc::DT_DIR,
        tfs::FileType::BlockDevice => libc::DT_BLK,
        tfs::FileType::RegularFile => libc::DT_REG,
        tfs::FileType::Symlink => libc::DT_LNK,
        tfs::FileType::Socket => libc::DT_SOCK,
        tfs::FileType::Unknown => libc::DT_UNKNOWN,
    }
}

fn ft_name(c: u8) -> &'static str {
    match c {
        libc::DT_FIFO => "fifo",
        libc::DT_CHR => "chardev",
        libc::DT_DIR => "directory",
        libc::DT_BLK => "blockdev",
        libc::DT_REG => "regular",
        libc::DT_LNK => "symlink",
        libc::DT_SOCK => "socket",
        libc::DT_UNKNOWN => "unknown",
        _ => "?",
    }
}

struct PlanGuard;
impl Drop for PlanGuard {
    fn drop(&mut self) {
        sc::verif::clear_plan();
    }
}

/// Upper bound on directory entries accepted from the iterator before giving up (a broken
/// iterator must not hang the worker).
const ENTRY_SLACK: usize = 64;

fn execute(env: &Env, op: &ROp, expect_entries: usize) -> Result<Out, ErrInfo> {
    let mut g1 = env.g1.borrow_mut();
    let mut g2 = env.g2.borrow_mut();
    // operands end exactly at a PROT_NONE page: reads past the terminator fault
    let us = |g: &mut Guarded, p: &[u8]| -> &'static UnixStr {
        g.reset_at_end(&with_nul(p));
        unsafe { &*(UnixStr::from_bytes_unchecked(g.as_ref()) as *const UnixStr) }
    };
    match op {
        ROp::Write { p, data } => {
            // in a share of the cases (a function of the case, so that replays agree) the kernel takes the data in
            // pieces: every write(2) is cut down to a part of the buffer, as a full disk, a size limit or a signal would
            let _guard = PlanGuard;
            if let Some(k) = short_write_piece(data) {
                // ... and the second write(2) is interrupted by a signal before it transfers anything
                sc::verif::plan(vec![
                    sc::verif::Rule { nr: Some(sc::nr::WRITE), nth: Some(1), action: sc::verif::Action::ForceRet(sc::verif::neg_errno(libc::EINTR)), times: 1 },
                    sc::verif::Rule { nr: Some(sc::nr::WRITE), nth: None, action: sc::verif::Action::ClampArg { idx: 2, max: k }, times: usize::MAX },
                ]);
            }
            tfs::write(us(&mut g1, p), data).map(|()| Out::Unit).map_err(errinfo)
        }
        ROp::Read { p } => {
            let _guard = PlanGuard;
            if let Some(k) = short_read_piece(p) {
                // short reads, and the second read(2) interrupted by a signal before it transfers anything
                sc::verif::plan(vec![
                    sc::verif::Rule { nr: Some(sc::nr::READ), nth: Some(1), action: sc::verif::Action::ForceRet(sc::verif::neg_errno(libc::EINTR)), times: 1 },
                    sc::verif::Rule { nr: Some(sc::nr::READ), nth: None, action: sc::verif::Action::ClampArg { idx: 2, max: k }, times: usize::MAX },
                ]);
            }
            tfs::read(us(&mut g1, p)).map(Out::Bytes).map_err(errinfo)
        }
        ROp::ReadToString { p } => {
            let _guard = PlanGuard;
            if let Some(k) = short_read_piece(p) {
                // short reads, and the second read(2) interrupted by a signal before it transfers anything
                sc::verif::plan(vec![
                    sc::verif::Rule { nr: Some(sc::nr::READ), nth: Some(1), action: sc::verif::Action::ForceRet(sc::verif::neg_errno(libc::EINTR)), times: 1 },
                    sc::verif::Rule { nr: Some(sc::nr::READ), nth: None, action: sc::verif::Action::ClampArg { idx: 2, max: k }, times: usize::MAX },
                ]);
            }
            tfs::read_to_string(us(&mut g1, p)).map(|s| Out::Bytes(s.into_bytes())).map_err(errinfo)
        }
        ROp::Copy { src, dst, pre, clamp } => {
            let s = us(&mut g1, src);
            let d = us(&mut g2, dst);
            let _guard = PlanGuard;
            if let Some(k) = clamp {
                sc::verif::plan(vec![sc::verif::Rule { nr: Some(sc::nr::COPY_FILE_RANGE), nth: None, action: sc::verif::Action::ClampArg { idx: 4, max: *k }, times: usize::MAX }]);
            }
            match pre {
                None => tfs::copy_file(s, d).map(|_f| Out::Unit).map_err(errinfo),
                Some(k) => {
                    let mut f = tfs::File::open(s).map_err(errinfo)?;
                    let mut left = *k;
                    let mut buf = vec![0u8; 4096];
                    while left > 0 {
                        let want = left.min(buf.len());
                        let n = f.read(&mut buf[..want]).map_err(errinfo)?;
                        if n == 0 {
                            break;
                        }
                        left -= n;
                    }
                    f.copy(d).map(|_f| Out::Unit).map_err(errinfo)
                }
            }
        }
        ROp::CreateDir { p } => tfs::create_dir(us(&mut g1, p)).map(|()| Out::Unit).map_err(errinfo),
        ROp::CreateDirAll { p } => tfs::create_dir_all(us(&mut g1, p)).map(|()| Out::Unit).map_err(errinfo),
        ROp::RemoveFile { p } => tfs::remove_file(us(&mut g1, p)).map(|()| Out::Unit).map_err(errinfo),
        ROp::RemoveDir { p } => tfs::remove_dir(us(&mut g1, p)).map(|()| Out::Unit).map_err(errinfo),
        ROp::RemoveDirAll { p } => tfs::remove_dir_all(us(&mut g1, p)).map(|()| Out::Unit).map_err(errinfo),
        ROp::Rename { src, dst } => tfs::rename(us(&mut g1, src), us(&mut g2, dst)).map(|()| Out::Unit).map_err(errinfo),
        ROp::Exists { p } => tfs::exists(us(&mut g1, p)).map(Out::Bool).map_err(errinfo),
        ROp::Metadata { p } => tfs::metadata(us(&mut g1, p)).map(|m| Out::Meta { is_dir: m.is_dir(), is_file: m.is_file(), is_symlink: m.is_symlink(), len: m.len() }).map_err(errinfo),
        ROp::ReadDir { p } => {
            let dir = tfs::Directory::open(us(&mut g1, p)).map_err(errinfo)?;
            let mut v = Vec::new();
            for e in dir.read() {
                let e = e.map_err(errinfo)?;
                let name = e.file_unix_name().map_err(errinfo)?.as_slice();
                let name = name[..name.len().saturating_sub(1)].to_vec();
                let sname = e.file_name().ok().map(|s| s.as_bytes().to_vec());
                v.push((name, ft_code(e.file_type()), e.is_relative_reference(), sname));
                if v.len() > expect_entries + ENTRY_SLACK {
                    break;
                }
            }
            Ok(Out::Entries(v))
        }
    }
}

/// Some(piece): the kernel accepts at most that many bytes per write(2) while this buffer is written
pub fn short_write_piece(data: &[u8]) -> Option<usize> {
    (data.len() >= 2 && data.len() % 4 != 0).then(|| 1 + data.len() / (2 + data.len() % 3))
}

/// Some(piece): the kernel delivers at most that many bytes per read(2) while this path is read
pub fn short_read_piece(p: &[u8]) -> Option<usize> {
    (p.iter().map(|b| *b as usize).sum::<usize>() % 3 == 0).then_some(61)
}

fn shape_cda(info: &Info) -> &'static str {
    if info.nsep == 0 {
        "single component"
    } else if info.created == 1 && info.existed + 1 == info.ncomp {
        "existing parent"
    } else if info.existed > 0 {
        "existing prefix"
    } else {
        "fresh path"
    }
}

fn pshow(p: &[u8]) -> String {
    if p.len() > 120 {
        format!("{:?}..{:?} ({} bytes)", escape(&p[..60]), escape(&p[p.len() - 30..]), p.len())
    } else {
        format!("{:?}", escape(p))
    }
}

fn show_op(op: &ROp) -> String {
    match op {
        ROp::Write { p, data } => format!("write({}, {} bytes){}", pshow(p), data.len(), short_write_piece(data).map(|k| format!(" [kernel takes <= {k} bytes per write(2)]")).unwrap_or_default()),
        ROp::Read { p } => format!("read({})", pshow(p)),
        ROp::ReadToString { p } => format!("read_to_string({})", pshow(p)),
        ROp::Copy { src, dst, pre: None, clamp } => format!("copy_file({}, {}){}", pshow(src), pshow(dst), clamp.map(|c| format!(" [kernel copies <= {c} bytes per call]")).unwrap_or_default()),
        ROp::Copy { src, dst, pre: Some(k), clamp } => format!("File::open({}) + read {} bytes + .copy({}){}", pshow(src), k, pshow(dst), clamp.map(|c| format!(" [kernel copies <= {c} bytes per call]")).unwrap_or_default()),
        ROp::CreateDir { p } => format!("create_dir({})", pshow(p)),
        ROp::CreateDirAll { p } => format!("create_dir_all({})", pshow(p)),
        ROp::RemoveFile { p } => format!("remove_file({})", pshow(p)),
        ROp::RemoveDir { p } => format!("remove_dir({})", pshow(p)),
        ROp::RemoveDirAll { p } => format!("remove_dir_all({})", pshow(p)),
        ROp::Rename { src, dst } => format!("rename({}, {})", pshow(src), pshow(dst)),
        ROp::Exists { p } => format!("exists({})", pshow(p)),
        ROp::Metadata { p } => format!("metadata({})", pshow(p)),
        ROp::ReadDir { p } => format!("Directory::open({}).read()", pshow(p)),
    }
}

fn judge_entries(step: usize, op: &ROp, p: &[u8], got: &[(Vec<u8>, u8, bool, Option<Vec<u8>>)], rep: &mut CaseReport) -> Result<(), Failure> {
    let raw = raw_getdents(p).map_err(|e| Failure::new("harness|observer-error", format!("raw getdents64 on {}: {e}", pshow(p))))?;
    // std::fs::read_dir as second observer: names (it omits "." and ".."), types via lstat
    let mut stdnames: Vec<Vec<u8>> = Vec::new();
    for e in std::fs::read_dir(path_of(p)).map_err(|e| Failure::new("harness|observer-error", format!("std read_dir: {e}")))? {
        let e = e.map_err(|e| Failure::new("harness|observer-error", format!("std read_dir: {e}")))?;
        use std::os::unix::ffi::OsStrExt;
        stdnames.push(e.file_name().as_bytes().to_vec());
    }
    stdnames.push(b".".to_vec());
    stdnames.push(b"..".to_vec());
    stdnames.sort();
    let mut rawnames: Vec<Vec<u8>> = raw.iter().map(|x| x.0.clone()).collect();
    rawnames.sort();
    if rawnames != stdnames {
        return Err(Failure::new("harness|observer-error", "raw getdents64 and std::fs::read_dir disagree on the names".to_string()));
    }
    // record sizes as the kernel lays them out: header 19 bytes + name + NUL, 8-aligned
    let bytes: usize = raw.iter().map(|x| (19 + x.0.len() + 1 + 7) & !7).sum();
    let shape = if bytes > 512 { "several getdents buffers" } else { "one getdents buffer" };
    let mut exp: Vec<(Vec<u8>, u8)> = raw.clone();
    exp.sort();
    let mut g: Vec<(Vec<u8>, u8)> = got.iter().map(|x| (x.0.clone(), x.1)).collect();
    g.sort();
    let what = show_op(op);
    if g != exp {
        let gn: Vec<&Vec<u8>> = g.iter().map(|x| &x.0).collect();
        let en: Vec<&Vec<u8>> = exp.iter().map(|x| &x.0).collect();
        if gn == en {
            let (a, b) = g.iter().zip(exp.iter()).find(|(a, b)| a != b).unwrap();
            return Err(Failure::new(format!("readdir|wrong-type|{} reported as {}", ft_name(b.1), ft_name(a.1)), format!("step {step}: {what}: entry {} has d_type {} but was reported as {}", pshow(&a.0), ft_name(b.1), ft_name(a.1))));
        }
        if let Some(w) = gn.windows(2).find(|w| w[0] == w[1]) {
            if en.iter().filter(|n| **n == w[0]).count() < 2 {
                return Err(Failure::new(format!("readdir|duplicate-entry|{shape}"), format!("step {step}: {what}: entry {} was yielded more than once ({} yielded, {} in the directory incl. . and ..)", pshow(w[0]), g.len(), exp.len())));
            }
        }
        let missing: Vec<&&Vec<u8>> = en.iter().filter(|n| !gn.contains(n)).collect();
        let extra: Vec<&&Vec<u8>> = gn.iter().filter(|n| !en.contains(n)).collect();
        if !missing.is_empty() && !extra.is_empty() {
            return Err(Failure::new(format!("readdir|wrong-name|{shape}"), format!("step {step}: {what}: yielded name {} which is not in the directory; {} (and {} more) never yielded; {} yielded, {} in the directory", pshow(extra[0]), pshow(missing[0]), missing.len() - 1, g.len(), exp.len())));
        }
        if !missing.is_empty() {
            return Err(Failure::new(format!("readdir|missing-entry|{shape}"), format!("step {step}: {what}: entry {} (and {} more) never yielded; {} yielded, {} in the directory incl. . and ..", pshow(missing[0]), missing.len() - 1, g.len(), exp.len())));
        }
        let e0 = extra.first().map(|e| pshow(e)).unwrap_or_default();
        return Err(Failure::new(format!("readdir|extra-entry|{shape}"), format!("step {step}: {what}: yielded {} entries, directory has {}; first surplus {}", g.len(), exp.len(), e0)));
    }
    for (n, _, _, sname) in got {
        // the &str view of the name: the same bytes when they are UTF-8, an error otherwise
        let utf8 = std::str::from_utf8(n).is_ok();
        match sname {
            Some(s) if !utf8 => return Err(Failure::new("readdir|file_name|Ok for a name that is not UTF-8", format!("step {step}: {what}: file_name() = Ok({}) for entry {}", pshow(s), pshow(n)))),
            Some(s) if s != n => return Err(Failure::new("readdir|file_name|differs from the entry's name", format!("step {step}: {what}: file_name() = {} for entry {}", pshow(s), pshow(n)))),
            None if utf8 => return Err(Failure::new("readdir|file_name|Err for a UTF-8 name", format!("step {step}: {what}: file_name() failed for entry {}", pshow(n)))),
            _ => {}
        }
    }
    for (n, _, rel, _) in got {
        let is = n == b"." || n == b"..";
        if *rel != is {
            return Err(Failure::new(format!("readdir|is_relative_reference|{}", if is { "false for dot entry" } else { "true for ordinary name" }), format!("step {step}: {what}: is_relative_reference() = {rel} for entry {}", pshow(n))));
        }
    }
    rep.class_if(raw.len() >= 20, "multi-buffer");
    rep.class_if(bytes > 512, "listing>512-bytes");
    rep.class_if(raw.len() >= 200, "fanout>=200");
    rep.class_if(raw.len() >= 1000, "fanout>=1000");
    rep.class_if(raw.iter().any(|x| x.0.len() == 255), "name-255");
    rep.class_if(raw.iter().any(|x| std::str::from_utf8(&x.0).is_err()), "non-utf8-name");
    rep.class_if(raw.iter().any(|x| x.1 == libc::DT_FIFO), "fifo-entry");
    rep.class_if(raw.iter().any(|x| x.1 == libc::DT_SOCK), "socket-entry");
    rep.class_if(raw.iter().any(|x| x.1 == libc::DT_CHR), "chardev-entry");
    rep.class_if(raw.iter().any(|x| x.1 == libc::DT_BLK), "blockdev-entry");
    rep.class_if(raw.iter().any(|x| x.1 == libc::DT_LNK), "symlink-entry");
    rep.class_if(raw.iter().any(|x| x.1 == libc::DT_UNKNOWN), "kernel-says-unknown-type");
    rep.class_if(raw.len() == 2, "empty-dir");
    Ok(())
}

/// Run one case. `only`: restrict class bookkeeping to a family name (for labels only).
pub fn run_case(env: &Env, case: &Case) -> CaseResult {
    let mut rep = CaseReport::new();
    let _guard = env.sb.begin_case();
    let root_abs = env.sb.root_abs.clone();
    build(&root_abs, &case.tree, env.max_many);
    let herr = |e: String| Failure::new("harness|observer-error", e);
    let mut tree: Tree = snapshot(&root_abs).map_err(herr)?;
    rep.class_if(tree.nodes.values().any(|n| matches!(n, crate::check::model::Node::Symlink(_))), "tree-has-symlink");
    rep.class_if(tree.nodes.values().any(|n| matches!(n, crate::check::model::Node::Fifo)), "tree-has-fifo");
    rep.class_if(tree.nodes.keys().any(|k| k.last().map(|n| n.len() == 255).unwrap_or(false)), "tree-has-name-255");
    rep.class_if(tree.nodes.keys().any(|k| k.last().map(|n| std::str::from_utf8(n).is_err()).unwrap_or(false)), "tree-has-non-utf8-name");
    rep.class_if(tree.nodes.len() > 200, "tree>200-entries");
    rep.class_if(tree.nodes.len() > 1000, "tree>1000-entries");

    for (step, op) in case.ops.iter().take(30).enumerate() {
        let rop = materialise(&tree, op);
        let (expected, must, info) = match predict(&tree, &rop) {
            Pred::Skip(why) => {
                rep.class("op-skipped");
                rep.class(why);
                continue;
            }
            Pred::Run { expected, must, info } => (expected, must, info),
        };
        let name = rop.name();
        let what = show_op(&rop);
        let expect_entries = match &rop {
            ROp::ReadDir { .. } => tree.children(&info.canon).len() + 2,
            _ => 0,
        };
        let outcome = no_panic(name, || execute(env, &rop, expect_entries)).map_err(|mut f| {
            f.what = format!("step {step}: {what}: {}", f.what);
            f
        })?;
        let after = snapshot(&root_abs).map_err(herr)?;

        // ---- labels
        rep.nontrivial_if(info.ncomp >= 2 || info.old_dst_len.map(|l| l > 0).unwrap_or(false));
        rep.class_if(info.len > 512, "len>512");
        rep.class_if((510..=516).contains(&info.len), "len-510..516");
        rep.class_if(info.len >= 4000, "len>=4000");
        rep.class_if(info.nsep == 0, "single-component");
        rep.class_if(must, "must-succeed");
        rep.class_if(!must, "may-fail");
        match &rop {
            ROp::CreateDirAll { p } => {
                rep.class_if(must && shape_cda(&info) == "existing parent", "parent-exists");
                rep.class_if(must && shape_cda(&info) == "existing prefix", "prefix-exists");
                rep.class_if(must && shape_cda(&info) == "fresh path", "nothing-exists");
                rep.class_if(expected.is_some() && info.created == 0, "all-exist");
                rep.class_if(p.first() == Some(&b'/'), "absolute");
                rep.class_if(p.last() == Some(&b'/'), "trailing-sep");
                rep.class_if(p.windows(2).any(|w| w == b"//"), "repeated-sep");
                rep.class_if(must && p.len() > 512, "must-succeed-len>512");
            }
            ROp::Copy { pre, clamp, .. } => {
                if must {
                    match info.old_dst_len {
                        None => rep.class("absent-destination"),
                        Some(l) if l > info.src_len => rep.class("longer-destination"),
                        Some(l) if l < info.src_len => rep.class("shorter-destination"),
                        Some(_) => rep.class("equal-length-destination"),
                    }
                    rep.class_if(matches!(pre, Some(k) if *k > 0), "handle-already-read");
                    rep.class_if(matches!(pre, Some(0)), "handle-fresh");
                    rep.class_if(pre.is_none(), "copy_file");
                    rep.class_if(info.src_len > 4096, "source>1page");
                    rep.class_if(matches!(clamp, Some(k) if *k < info.src_len), "short-copies-forced");
                }
            }
            ROp::RemoveDirAll { .. } => {
                if must {
                    rep.class_if(info.removed_symlinks > 0, "symlink-inside-removed-tree");
                    rep.class_if(info.removed_fifos > 0, "fifo-inside-removed-tree");
                    rep.class_if(info.removed_depth >= 3, "removed-depth>=3");
                    rep.class_if(info.removed_entries >= 20, "removed>=20-entries");
                    rep.class_if(info.removed_entries == 0, "removed-empty-dir");
                }
            }
            ROp::Rename { .. } => {
                if must {
                    rep.class_if(tree.kind(&info.canon) == Kind::Dir, "rename-directory");
                    rep.class_if(tree.kind(&info.canon) == Kind::Dir && tree.has_children(&info.canon), "rename-non-empty-directory");
                    rep.class_if(tree.kind(&info.canon) == Kind::Symlink, "rename-symlink");
                    rep.class_if(info.kind == Some(Kind::Absent), "rename-to-new-name");
                    rep.class_if(!matches!(info.kind, Some(Kind::Absent) | None) && info.canon != info.canon2, "rename-replaces");
                }
            }
            ROp::RemoveFile { .. } => {
                if must {
                    rep.class("remove_file");
                    rep.class_if(info.kind == Some(Kind::Symlink), "remove_file-symlink");
                    rep.class_if(info.kind == Some(Kind::Fifo), "remove_file-fifo");
                }
            }
            ROp::RemoveDir { .. } => rep.class_if(must, "remove_dir"),
            ROp::CreateDir { .. } => rep.class_if(must, "create_dir"),
            ROp::Metadata { .. } => rep.class_if(must, "metadata-existing"),
            ROp::Write { data, .. } => {
                if must {
                    rep.class_if(short_write_piece(data).is_some(), "write-taken-in-pieces-by-the-kernel");
                    rep.class_if(info.old_dst_len.is_none(), "write-creates");
                    rep.class_if(info.old_dst_len.is_some(), "write-overwrites");
                }
            }
            _ => {}
        }

        match outcome {
            Err(e) => {
                if must {
                    let en = errno_name(e.errno);
                    return Err(Failure::new(format!("{name}|spurious-failure|{en}"), format!("step {step}: {what} failed with {} although every documented precondition holds in the model", e.text)));
                }
                rep.class("err-answer");
            }
            Ok(out) => {
                rep.class("ok-answer");
                // ---- returned values
                match (&rop, &out) {
                    (ROp::Read { .. }, Out::Bytes(b)) | (ROp::ReadToString { .. }, Out::Bytes(b)) => {
                        if info.kind == Some(Kind::File) {
                            let want = tree.file(&info.canon).unwrap();
                            if b != want {
                                let shape = if b.len() < want.len() { "short" } else if b.len() > want.len() { "long" } else { "same length" };
                                return Err(Failure::new(format!("{name}|wrong-bytes|{shape}"), format!("step {step}: {what} returned {} bytes, file holds {} bytes; returned {}", b.len(), want.len(), crate::check::model::describe(&crate::check::model::Node::File(b.clone())))));
                            }
                            if matches!(rop, ROp::ReadToString { .. }) && std::str::from_utf8(want).is_err() {
                                return Err(Failure::new(format!("{name}|invalid-utf8-accepted"), format!("step {step}: {what} returned Ok for a file that is not UTF-8")));
                            }
                            rep.class_if(want.is_empty(), "read-empty-file");
                            rep.class_if(want.len() > 4096, "read>1page");
                        }
                    }
                    (ROp::Exists { p }, Out::Bool(b)) => {
                        let want = match info.kind {
                            Some(Kind::Absent) => false,
                            Some(_) => true,
                            None => std::fs::metadata(path_of(p)).is_ok(),
                        };
                        if *b != want {
                            return Err(Failure::new(format!("exists|wrong-answer|{} for {}", b, if want { "existing" } else { "absent" }), format!("step {step}: {what} = Ok({b}), std::fs says {want}")));
                        }
                        rep.class_if(want, "exists-true");
                        rep.class_if(!want, "exists-false");
                    }
                    (ROp::Metadata { p }, Out::Meta { is_dir, is_file, is_symlink, len }) => match std::fs::metadata(path_of(p)) {
                        Err(e) => {
                            return Err(Failure::new("metadata|ok-but-absent", format!("step {step}: {what} = Ok but std::fs::metadata fails: {e}")));
                        }
                        Ok(m) => {
                            if m.is_dir() != *is_dir || m.is_file() != *is_file || *is_symlink || (m.is_file() && m.len() != *len) {
                                return Err(Failure::new("metadata|wrong-answer", format!("step {step}: {what} = is_dir {is_dir} is_file {is_file} is_symlink {is_symlink} len {len}; std::fs::metadata: is_dir {} is_file {} len {}", m.is_dir(), m.is_file(), m.len())));
                            }
                        }
                    },
                    (ROp::ReadDir { p }, Out::Entries(v)) => {
                        if info.kind == Some(Kind::Dir) {
                            judge_entries(step, &rop, p, v, &mut rep)?;
                        }
                    }
                    _ => {}
                }
                // ---- state
                match &expected {
                    Some(exp) => {
                        if let Some((class, text)) = diff(exp, &after) {
                            let sig = match &rop {
                                ROp::CreateDirAll { .. } if class == "missing entry" => format!("create_dir_all|ok-but-missing|{}", shape_cda(&info)),
                                ROp::Copy { pre, .. } => {
                                    let want = tree.file(&info.canon).cloned().unwrap_or_default();
                                    let old = tree.file(&info.canon2).cloned().unwrap_or_default();
                                    match after.file(&info.canon2) {
                                        Some(got) if *got != want => {
                                            if got.len() > want.len() && got[..want.len()] == want[..] && old.len() == got.len() && got[want.len()..] == old[want.len()..] {
                                                "copy|stale-tail|destination longer".to_string()
                                            } else if matches!(pre, Some(k) if *k > 0) {
                                                "copy|wrong-bytes|source handle position".to_string()
                                            } else if got.len() < want.len() && want[..got.len()] == got[..] {
                                                "copy|wrong-bytes|truncated".to_string()
                                            } else {
                                                "copy|wrong-bytes|other".to_string()
                                            }
                                        }
                                        _ => format!("copy|tree-mismatch|{class}"),
                                    }
                                }
                                ROp::Write { data, .. } => match after.file(&info.canon) {
                                    Some(got) if got != data => {
                                        let shape = match info.old_dst_len {
                                            Some(l) if l > data.len() => "previous content longer",
                                            Some(_) => "previous content not longer",
                                            None => "new file",
                                        };
                                        format!("write|wrong-bytes|{shape}")
                                    }
                                    _ => format!("write|tree-mismatch|{class}"),
                                },
                                ROp::RemoveDirAll { .. } => match class {
                                    "unexpected entry" => "remove_dir_all|subtree-remains".to_string(),
                                    _ => format!("remove_dir_all|outside-touched|{class}"),
                                },
                                _ => format!("{name}|tree-mismatch|{class}"),
                            };
                            return Err(Failure::new(sig, format!("step {step}: {what} = Ok, but afterwards {text}")));
                        }
                    }
                    None => {
                        // preconditions not established by the model: only what the statement
                        // says about every successful call, observed directly through std
                        match &rop {
                            // (std cannot be handed a path of PATH_MAX bytes or more)
                            ROp::CreateDirAll { p } | ROp::Write { p, .. } if p.len() >= crate::check::model::PATH_MAX => {}
                            ROp::CreateDirAll { p } => {
                                if !std::fs::metadata(path_of(p)).map(|m| m.is_dir()).unwrap_or(false) {
                                    let shape = if info.bad_prefix { "non-directory in prefix" } else { "unpredicted state" };
                                    return Err(Failure::new(format!("create_dir_all|ok-but-missing|{shape}"), format!("step {step}: {what} = Ok, but the path is not a directory afterwards")));
                                }
                            }
                            ROp::Write { p, data } => {
                                if std::fs::read(path_of(p)).ok().as_ref() != Some(data) {
                                    return Err(Failure::new("write|wrong-bytes|unpredicted state", format!("step {step}: {what} = Ok, but std::fs::read of the same path does not return the written bytes")));
                                }
                            }
                            _ => {}
                        }
                    }
                }
            }
        }
        tree = after;
    }
    Ok(rep)
}
