//! "open-options": what `OpenOptions` (the mechanism behind `fs::write`, `File::copy`, `File::open`)
//! does to a path, for every combination of its switches - differential against
//! `std::fs::OpenOptions`, whose documented semantics tiny-std's type reproduces.
//!
//! Twin paths A (tiny-std) and B (std) start in the same state; the same switches are applied to
//! both, the same bytes are written through a handle opened for writing, the handle opened for
//! reading is read to the end. Compared: success or failure (a failure tiny-std reports without an
//! OS code against std's EINVAL for an invalid combination, OS codes otherwise exactly), what was
//! read, and the state of the path afterwards (kind, content).
use std::io::{Read as _, Write as _};
use std::os::unix::fs::OpenOptionsExt;

use proptest::prelude::*;
use serde::{Deserialize, Serialize};
use tiny_std::io::{Read as _, Write as _};
use vh::runner::{catch, CaseReport, CaseResult, Failure};
use vh::util::{escape, BStr};

use super::exec::Env;

#[derive(Debug, Clone, Serialize, Deserialize)]
pub struct OoCase {
    pub read: bool,
    pub write: bool,
    pub append: bool,
    pub truncate: bool,
    pub create: bool,
    pub create_new: bool,
    /// permission bits for a file that gets created
    pub mode: u16,
    /// 0 nothing there, 1 a file holding `old`, 2 a directory, 3 a symlink to a file holding `old`,
    /// 4 a dangling symlink
    pub existing: u8,
    pub old: BStr,
    /// written through the handle when it was opened for writing
    pub data: BStr,
}

#[derive(Debug, PartialEq)]
enum State {
    Absent,
    File(Vec<u8>, u32),
    Dir,
    LinkTo(Option<Vec<u8>>),
}

fn prepare(name: &str, c: &OoCase) {
    let t = format!("{name}.target");
    match c.existing {
        1 => std::fs::write(name, &c.old.0).unwrap(),
        2 => std::fs::create_dir(name).unwrap(),
        3 => {
            std::fs::write(&t, &c.old.0).unwrap();
            std::os::unix::fs::symlink(&t, name).unwrap();
        }
        4 => std::os::unix::fs::symlink(&t, name).unwrap(),
        _ => {}
    }
}

fn state(name: &str) -> State {
    use std::os::unix::fs::PermissionsExt;
    match std::fs::symlink_metadata(name) {
        Err(_) => State::Absent,
        Ok(m) if m.file_type().is_symlink() => State::LinkTo(std::fs::read(name).ok()),
        Ok(m) if m.is_dir() => State::Dir,
        Ok(m) => State::File(std::fs::read(name).unwrap_or_default(), m.permissions().mode() & 0o7777),
    }
}

/// (Ok(bytes read, if opened for reading) | Err(errno or None), write outcome)
type Outcome = (Result<Option<Vec<u8>>, Option<i32>>, Option<Result<(), Option<i32>>>);

fn run_tiny(name: &str, c: &OoCase) -> Outcome {
    let mut p = name.as_bytes().to_vec();
    p.push(0);
    let us = rusl::string::unix_str::UnixStr::try_from_bytes(&p).unwrap();
    let mut o = tiny_std::fs::OpenOptions::new();
    o.read(c.read).write(c.write).append(c.append).truncate(c.truncate).create(c.create).create_new(c.create_new).mode(rusl::platform::Mode::from(u32::from(c.mode)));
    let code = |e: tiny_std::Error| match e {
        tiny_std::Error::Os { code, .. } => Some(code.raw()),
        _ => None,
    };
    match o.open(us) {
        Err(e) => (Err(code(e)), None),
        Ok(mut f) => {
            let w = if c.write || c.append { Some(f.write_all(&c.data.0).map_err(code)) } else { None };
            let r = if c.read && !(c.write || c.append) {
                let mut v = Vec::new();
                match f.read_to_end(&mut v) {
                    Ok(_) => Some(v),
                    Err(_) => None,
                }
            } else {
                None
            };
            (Ok(r), w)
        }
    }
}

fn run_std(name: &str, c: &OoCase) -> Outcome {
    let mut o = std::fs::OpenOptions::new();
    o.read(c.read).write(c.write).append(c.append).truncate(c.truncate).create(c.create).create_new(c.create_new).mode(u32::from(c.mode));
    match o.open(name) {
        Err(e) => (Err(e.raw_os_error()), None),
        Ok(mut f) => {
            let w = if c.write || c.append { Some(f.write_all(&c.data.0).map_err(|e| e.raw_os_error())) } else { None };
            let r = if c.read && !(c.write || c.append) {
                let mut v = Vec::new();
                match f.read_to_end(&mut v) {
                    Ok(_) => Some(v),
                    Err(_) => None,
                }
            } else {
                None
            };
            (Ok(r), w)
        }
    }
}

fn switches(c: &OoCase) -> String {
    let mut v = Vec::new();
    for (on, n) in [(c.read, "read"), (c.write, "write"), (c.append, "append"), (c.truncate, "truncate"), (c.create, "create"), (c.create_new, "create_new")] {
        if on {
            v.push(n);
        }
    }
    format!("OpenOptions[{}; mode {:o}] on {}", v.join(","), c.mode, ["a missing path", "an existing file", "a directory", "a symlink to a file", "a dangling symlink"][c.existing.min(4) as usize])
}

pub fn check(env: &Env, c: &OoCase) -> CaseResult {
    let _guard = env.sb.begin_case();
    let mut rep = CaseReport::new();
    prepare("A", c);
    prepare("B", c);
    let t = match catch(|| run_tiny("A", c)) {
        Ok(t) => t,
        Err((loc, msg)) => return Err(Failure::new(format!("OpenOptions|panic|{loc}"), format!("{}: {msg}", switches(c)))),
    };
    let s = run_std("B", c);
    let what = switches(c);
    // std reports an invalid combination as EINVAL without asking the kernel; tiny-std as an error without code
    let norm = |e: &Option<i32>| if *e == Some(libc::EINVAL) { None } else { *e };
    match (&t.0, &s.0) {
        (Ok(_), Err(e)) => return Err(Failure::new("OpenOptions|opened-what-must-fail", format!("{what}: tiny-std opens it, std::fs::OpenOptions fails with {e:?}"))),
        (Err(e), Ok(_)) => return Err(Failure::new("OpenOptions|failed-what-must-open", format!("{what}: tiny-std fails ({e:?}), std::fs::OpenOptions opens it"))),
        (Err(a), Err(b)) if norm(a) != norm(b) => return Err(Failure::new("OpenOptions|different-error", format!("{what}: tiny-std errno {a:?}, std errno {b:?}"))),
        (Ok(a), Ok(b)) if a != b => return Err(Failure::new("OpenOptions|read-differs", format!("{what}: read through the handle {:?}, std reads {:?}", a.as_ref().map(|v| escape(v)), b.as_ref().map(|v| escape(v))))),
        _ => {}
    }
    if t.1.as_ref().map(|r| r.is_ok()) != s.1.as_ref().map(|r| r.is_ok()) {
        return Err(Failure::new("OpenOptions|write-outcome-differs", format!("{what}: writing {} bytes through the handle: tiny-std {:?}, std {:?}", c.data.0.len(), t.1, s.1)));
    }
    let (sa, sb) = (state("A"), state("B"));
    if sa != sb {
        let kind = match (&sa, &sb) {
            (State::File(a, _), State::File(b, _)) if a != b => {
                if a.len() > b.len() && a.ends_with(&c.old.0[c.old.0.len().min(b.len())..]) {
                    "old content kept"
                } else if a.len() < b.len() {
                    "content lost"
                } else {
                    "different content"
                }
            }
            (State::File(..), State::File(..)) => "different permissions",
            (State::Absent, _) => "not created",
            (_, State::Absent) => "created",
            _ => "different kind",
        };
        let show = |s: &State| match s {
            State::File(b, m) => format!("file of {} bytes {:?} mode {:o}", b.len(), escape(&b[..b.len().min(48)]), m),
            other => format!("{other:?}"),
        };
        return Err(Failure::new(format!("OpenOptions|path-state-differs|{kind}"), format!("{what}, {} bytes written (old content {} bytes): afterwards tiny-std's path is {}, std's is {}", c.data.0.len(), c.old.0.len(), show(&sa), show(&sb))));
    }
    rep.nontrivial = t.0.is_ok() && c.existing != 0;
    rep.class_if(t.0.is_err() && matches!(t.0, Err(None)), "invalid-combination-rejected");
    rep.class_if(matches!(t.0, Err(Some(_))), "os-error");
    rep.class_if(t.0.is_ok() && c.append, "append");
    rep.class_if(t.0.is_ok() && c.truncate && c.existing == 1 && c.old.0.len() > c.data.0.len(), "truncate-of-longer-content");
    rep.class_if(t.0.is_ok() && c.create && !c.truncate && c.existing == 1 && c.old.0.len() > c.data.0.len(), "create-without-truncate-keeps-tail");
    rep.class_if(t.0.is_ok() && c.create_new, "create-new");
    rep.class_if(t.0.is_ok() && c.read && c.write, "read-write");
    rep.class_if(t.0.is_ok() && (c.create || c.create_new) && c.existing == 0, "file-created");
    rep.class_if(t.0.is_ok() && c.existing == 3, "through-symlink");
    Ok(rep)
}

pub fn strategy() -> impl Strategy<Value = OoCase> {
    let bytes = |max: usize| prop::collection::vec(any::<u8>(), 0..max).prop_map(BStr);
    (
        (any::<bool>(), any::<bool>(), prop::bool::weighted(0.3), any::<bool>(), any::<bool>(), prop::bool::weighted(0.25)),
        prop_oneof![3 => Just(0o644u16), 1 => Just(0o600u16), 1 => Just(0o666u16), 1 => 0u16..0o1000],
        prop_oneof![3 => Just(0u8), 5 => Just(1u8), 1 => Just(2u8), 2 => Just(3u8), 1 => Just(4u8)],
        bytes(40),
        bytes(40),
    )
        .prop_map(|((read, write, append, truncate, create, create_new), mode, existing, old, data)| OoCase { read, write, append, truncate, create, create_new, mode, existing, old, data })
}

/// every combination of the six switches on every kind of existing path (fixed contents)
pub fn grid() -> Vec<OoCase> {
    let mut v = Vec::new();
    for bits in 0u8..64 {
        for existing in 0u8..5 {
            v.push(OoCase {
                read: bits & 1 != 0,
                write: bits & 2 != 0,
                append: bits & 4 != 0,
                truncate: bits & 8 != 0,
                create: bits & 16 != 0,
                create_new: bits & 32 != 0,
                mode: 0o640,
                existing,
                old: BStr(b"previous content, longer".to_vec()),
                data: BStr(b"new".to_vec()),
            });
        }
    }
    v
}
