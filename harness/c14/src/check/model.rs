//! Model of the case root: a flat map from canonical component paths to nodes, kernel-style path
//! resolution over it (symlinks, trailing separators, component/total length limits) and the
//! specification of every operation as "expected tree after Ok" + "must succeed".
use std::collections::BTreeMap;
use std::ops::Bound::{Excluded, Unbounded};

pub type Comps = Vec<Vec<u8>>;

pub const PATH_MAX: usize = 4096;
pub const NAME_MAX: usize = 255;
/// More symlink traversals than this in one resolution: the model refuses to predict (the
/// kernel's own limit is 40; chains that long are never built deliberately).
pub const LINK_BUDGET: u32 = 8;

#[derive(Clone, PartialEq, Eq, Debug)]
pub enum Node {
    Dir,
    File(Vec<u8>),
    Symlink(Vec<u8>),
    Fifo,
    Other,
}

#[derive(Clone, Copy, PartialEq, Eq, Debug)]
pub enum Kind {
    Absent,
    Dir,
    File,
    Symlink,
    Fifo,
    Other,
}

#[derive(Clone, Copy, PartialEq, Eq, Debug)]
pub enum RErr {
    NoEnt,
    NotDir,
    NameTooLong,
    /// outside what the model predicts (`..`, foreign absolute path, long symlink chains, loops)
    Unknown,
}

#[derive(Clone, PartialEq, Eq, Debug, Default)]
pub struct Tree {
    /// the root directory itself is the empty key and always present
    pub nodes: BTreeMap<Comps, Node>,
    pub root_abs: Vec<u8>,
}

pub struct Parsed {
    pub comps: Comps,
    pub trailing: bool,
    /// number of separator bytes in the string as given (0 = "single component" string)
    pub nsep: usize,
}

pub fn join(c: &[Vec<u8>]) -> Vec<u8> {
    let mut out = Vec::new();
    for (i, x) in c.iter().enumerate() {
        if i > 0 {
            out.push(b'/');
        }
        out.extend_from_slice(x);
    }
    out
}

pub fn joined_len(c: &[Vec<u8>]) -> usize {
    c.iter().map(|x| x.len()).sum::<usize>() + c.len().saturating_sub(1)
}

impl Tree {
    pub fn new(root_abs: &[u8]) -> Tree {
        let mut nodes = BTreeMap::new();
        nodes.insert(Vec::new(), Node::Dir);
        Tree { nodes, root_abs: root_abs.to_vec() }
    }

    pub fn kind(&self, p: &[Vec<u8>]) -> Kind {
        match self.nodes.get(p) {
            None => Kind::Absent,
            Some(Node::Dir) => Kind::Dir,
            Some(Node::File(_)) => Kind::File,
            Some(Node::Symlink(_)) => Kind::Symlink,
            Some(Node::Fifo) => Kind::Fifo,
            Some(Node::Other) => Kind::Other,
        }
    }

    pub fn file(&self, p: &[Vec<u8>]) -> Option<&Vec<u8>> {
        match self.nodes.get(p) {
            Some(Node::File(c)) => Some(c),
            _ => None,
        }
    }

    /// keys strictly below `p`
    pub fn descendants(&self, p: &Comps) -> Vec<Comps> {
        self.nodes.range::<Comps, _>((Excluded(p), Unbounded)).take_while(|(k, _)| k.len() > p.len() && k[..p.len()] == p[..]).map(|(k, _)| k.clone()).collect()
    }

    pub fn has_children(&self, p: &Comps) -> bool {
        self.nodes.range::<Comps, _>((Excluded(p), Unbounded)).next().map(|(k, _)| k.len() > p.len() && k[..p.len()] == p[..]).unwrap_or(false)
    }

    pub fn children(&self, p: &Comps) -> Vec<(Vec<u8>, Kind)> {
        self.descendants(p).into_iter().filter(|k| k.len() == p.len() + 1).map(|k| (k[p.len()].clone(), self.kind(&k))).collect()
    }

    pub fn remove_subtree(&mut self, p: &Comps) {
        for k in self.descendants(p) {
            self.nodes.remove(&k);
        }
        self.nodes.remove(p);
    }

    /// Split a path string into components relative to the case root.
    pub fn parse(&self, path: &[u8]) -> Result<Parsed, RErr> {
        if path.is_empty() {
            return Err(RErr::NoEnt);
        }
        if path.len() >= PATH_MAX {
            return Err(RErr::NameTooLong);
        }
        let nsep = path.iter().filter(|&&c| c == b'/').count();
        let rest: &[u8] = if path[0] == b'/' {
            let r = &self.root_abs;
            if path.len() >= r.len() && &path[..r.len()] == &r[..] && (path.len() == r.len() || path[r.len()] == b'/') {
                &path[r.len()..]
            } else {
                return Err(RErr::Unknown);
            }
        } else {
            path
        };
        let mut comps = Vec::new();
        for c in rest.split(|&b| b == b'/') {
            if c.is_empty() || c == b"." {
                continue;
            }
            if c == b".." {
                return Err(RErr::Unknown);
            }
            comps.push(c.to_vec());
        }
        let trailing = rest.last() == Some(&b'/') && !comps.is_empty();
        Ok(Parsed { comps, trailing, nsep })
    }

    fn parse_target(&self, cur: &Comps, t: &[u8]) -> Result<(Comps, Comps), RErr> {
        if t.is_empty() {
            return Err(RErr::NoEnt);
        }
        let p = self.parse(t)?;
        if t[0] == b'/' {
            Ok((Vec::new(), p.comps))
        } else {
            Ok((cur.clone(), p.comps))
        }
    }

    fn walk(&self, mut cur: Comps, comps: &[Vec<u8>], follow_last: bool, budget: &mut u32) -> Result<(Comps, bool), RErr> {
        for (i, c) in comps.iter().enumerate() {
            let last = i + 1 == comps.len();
            if c.len() > NAME_MAX {
                return Err(RErr::NameTooLong);
            }
            let mut child = cur.clone();
            child.push(c.clone());
            match self.nodes.get(&child) {
                None => {
                    return if last { Ok((child, false)) } else { Err(RErr::NoEnt) };
                }
                Some(Node::Dir) => {
                    cur = child;
                }
                Some(Node::Symlink(t)) => {
                    if last && !follow_last {
                        return Ok((child, true));
                    }
                    if *budget == 0 {
                        return Err(RErr::Unknown);
                    }
                    *budget -= 1;
                    let (base, tc) = self.parse_target(&cur, t)?;
                    let r = self.walk(base, &tc, true, budget)?;
                    if last {
                        return Ok(r);
                    }
                    if !r.1 {
                        return Err(RErr::NoEnt);
                    }
                    if self.kind(&r.0) != Kind::Dir {
                        return Err(RErr::NotDir);
                    }
                    cur = r.0;
                }
                Some(_) => {
                    return if last { Ok((child, true)) } else { Err(RErr::NotDir) };
                }
            }
        }
        Ok((cur, true))
    }

    /// Resolve parsed components. A trailing separator forces following the last component.
    /// Returns the canonical location and what is there (`Absent`: parent exists, leaf missing).
    pub fn resolve_comps(&self, p: &Parsed, follow_last: bool) -> Result<(Comps, Kind), RErr> {
        let mut budget = LINK_BUDGET;
        let (canon, exists) = self.walk(Vec::new(), &p.comps, follow_last || p.trailing, &mut budget)?;
        let k = if exists { self.kind(&canon) } else { Kind::Absent };
        if p.trailing && exists && k != Kind::Dir {
            return Err(RErr::NotDir);
        }
        Ok((canon, k))
    }

    #[allow(dead_code)]
    pub fn resolve(&self, path: &[u8], follow_last: bool) -> Result<(Comps, Kind), RErr> {
        let p = self.parse(path)?;
        self.resolve_comps(&p, follow_last)
    }
}

// ------------------------------------------------------------------------------------------
// concrete operations and their specification
// ------------------------------------------------------------------------------------------

#[derive(Clone, Debug)]
pub enum ROp {
    Write { p: Vec<u8>, data: Vec<u8> },
    Read { p: Vec<u8> },
    ReadToString { p: Vec<u8> },
    /// `pre`: None = `copy_file(src,dst)`; Some(k) = `File::open(src)`, read k bytes, `.copy(dst)`
    Copy { src: Vec<u8>, dst: Vec<u8>, pre: Option<usize>, clamp: Option<usize> },
    CreateDir { p: Vec<u8> },
    CreateDirAll { p: Vec<u8> },
    RemoveFile { p: Vec<u8> },
    RemoveDir { p: Vec<u8> },
    RemoveDirAll { p: Vec<u8> },
    Rename { src: Vec<u8>, dst: Vec<u8> },
    Exists { p: Vec<u8> },
    Metadata { p: Vec<u8> },
    ReadDir { p: Vec<u8> },
}

impl ROp {
    pub fn name(&self) -> &'static str {
        match self {
            ROp::Write { .. } => "write",
            ROp::Read { .. } => "read",
            ROp::ReadToString { .. } => "read_to_string",
            ROp::Copy { .. } => "copy",
            ROp::CreateDir { .. } => "create_dir",
            ROp::CreateDirAll { .. } => "create_dir_all",
            ROp::RemoveFile { .. } => "remove_file",
            ROp::RemoveDir { .. } => "remove_dir",
            ROp::RemoveDirAll { .. } => "remove_dir_all",
            ROp::Rename { .. } => "rename",
            ROp::Exists { .. } => "exists",
            ROp::Metadata { .. } => "metadata",
            ROp::ReadDir { .. } => "readdir",
        }
    }
}

/// What the specification says about one operation in one state.
pub enum Pred {
    /// do not execute (would block on a fifo, would destroy the case root, aliasing the copy
    /// source, behaviour on that shape is not documented, outside the model)
    Skip(&'static str),
    Run {
        /// tree required after an `Ok` (None: preconditions do not hold / not predicted)
        expected: Option<Tree>,
        /// all documented preconditions hold: an `Err` is a spurious failure
        must: bool,
        /// extra facts for class labels and failure shapes
        info: Info,
    },
}

#[derive(Default, Clone, Debug)]
pub struct Info {
    pub ncomp: usize,
    pub nsep: usize,
    pub len: usize,
    /// create_dir_all: how many leading components existed, how many were created
    pub existed: usize,
    pub created: usize,
    pub bad_prefix: bool,
    /// copy
    pub src_len: usize,
    pub old_dst_len: Option<usize>,
    /// remove_dir_all
    pub removed_entries: usize,
    pub removed_symlinks: usize,
    pub removed_fifos: usize,
    pub removed_depth: usize,
    /// canonical target (for content checks)
    pub canon: Comps,
    pub canon2: Comps,
    pub kind: Option<Kind>,
}

fn would_block(k: Kind) -> bool {
    matches!(k, Kind::Fifo | Kind::Other)
}

fn run(expected: Option<Tree>, must: bool, info: Info) -> Pred {
    Pred::Run { expected, must, info }
}

/// Longest canonical relative path the observer is still able to walk.
fn too_deep(c: &Comps) -> bool {
    joined_len(c) >= PATH_MAX - 1
}

/// The path, as the kernel would resolve it for open(2), names a fifo (or another special
/// file): opening it blocks the single-threaded worker forever.
fn opens_special(t: &Tree, path: &[u8]) -> bool {
    match t.parse(path) {
        Ok(p) => matches!(t.resolve_comps(&p, true), Ok((_, k)) if would_block(k)),
        Err(_) => false,
    }
}

pub fn predict(t: &Tree, op: &ROp) -> Pred {
    let opened: Vec<&Vec<u8>> = match op {
        ROp::Write { p, .. } | ROp::Read { p } | ROp::ReadToString { p } | ROp::ReadDir { p } | ROp::RemoveDirAll { p } => vec![p],
        ROp::Copy { src, dst, .. } => vec![src, dst],
        _ => vec![],
    };
    if opened.iter().any(|p| opens_special(t, p)) {
        return Pred::Skip("skip:would-block");
    }
    match op {
        ROp::Read { p } | ROp::ReadToString { p } => {
            let mut info = Info { len: p.len(), ..Info::default() };
            let parsed = match t.parse(p) {
                Ok(x) => x,
                Err(RErr::Unknown) => return Pred::Skip("skip:outside-model"),
                Err(_) => return run(None, false, info),
            };
            info.ncomp = parsed.comps.len();
            info.nsep = parsed.nsep;
            match t.resolve_comps(&parsed, true) {
                Err(RErr::Unknown) => Pred::Skip("skip:outside-model"),
                Err(_) => run(None, false, info),
                Ok((c, k)) => {
                    if would_block(k) {
                        return Pred::Skip("skip:would-block");
                    }
                    info.canon = c;
                    info.kind = Some(k);
                    if k == Kind::File {
                        let must = match op {
                            ROp::ReadToString { .. } => std::str::from_utf8(t.file(&info.canon).unwrap()).is_ok(),
                            _ => true,
                        };
                        run(Some(t.clone()), must, info)
                    } else {
                        run(None, false, info)
                    }
                }
            }
        }
        ROp::Exists { p } | ROp::Metadata { p } => {
            let mut info = Info { len: p.len(), ..Info::default() };
            let parsed = match t.parse(p) {
                Ok(x) => x,
                Err(RErr::Unknown) => return Pred::Skip("skip:outside-model"),
                Err(_) => return run(None, false, info),
            };
            info.ncomp = parsed.comps.len();
            info.nsep = parsed.nsep;
            match t.resolve_comps(&parsed, true) {
                Err(RErr::Unknown) => Pred::Skip("skip:outside-model"),
                Err(RErr::NoEnt) => {
                    info.kind = Some(Kind::Absent);
                    // exists: documented to answer false; metadata: Err expected
                    run(Some(t.clone()), matches!(op, ROp::Exists { .. }), info)
                }
                Err(_) => run(None, false, info),
                Ok((c, k)) => {
                    info.canon = c;
                    info.kind = Some(k);
                    if k == Kind::Absent {
                        run(Some(t.clone()), matches!(op, ROp::Exists { .. }), info)
                    } else {
                        run(Some(t.clone()), true, info)
                    }
                }
            }
        }
        ROp::ReadDir { p } => {
            let mut info = Info { len: p.len(), ..Info::default() };
            let parsed = match t.parse(p) {
                Ok(x) => x,
                Err(RErr::Unknown) => return Pred::Skip("skip:outside-model"),
                Err(_) => return run(None, false, info),
            };
            info.ncomp = parsed.comps.len();
            info.nsep = parsed.nsep;
            match t.resolve_comps(&parsed, true) {
                Err(RErr::Unknown) => Pred::Skip("skip:outside-model"),
                Err(_) => run(None, false, info),
                Ok((c, k)) => {
                    if would_block(k) {
                        return Pred::Skip("skip:would-block");
                    }
                    info.canon = c;
                    info.kind = Some(k);
                    if k == Kind::Dir {
                        run(Some(t.clone()), true, info)
                    } else {
                        run(None, false, info)
                    }
                }
            }
        }
        ROp::Write { p, data } => {
            let mut info = Info { len: p.len(), ..Info::default() };
            let parsed = match t.parse(p) {
                Ok(x) => x,
                Err(RErr::Unknown) => return Pred::Skip("skip:outside-model"),
                Err(_) => return run(None, false, info),
            };
            info.ncomp = parsed.comps.len();
            info.nsep = parsed.nsep;
            // a dangling symlink as last component: open(O_CREAT) creates its target - legal but
            // not spelled out in the documentation: executed, not predicted
            let nofollow = t.resolve_comps(&Parsed { comps: parsed.comps.clone(), trailing: false, nsep: parsed.nsep }, false);
            match t.resolve_comps(&parsed, true) {
                Err(RErr::Unknown) => Pred::Skip("skip:outside-model"),
                Err(_) => run(None, false, info),
                Ok((c, k)) => {
                    if would_block(k) {
                        return Pred::Skip("skip:would-block");
                    }
                    if too_deep(&c) {
                        return Pred::Skip("skip:too-deep");
                    }
                    info.canon = c.clone();
                    info.kind = Some(k);
                    let via_dangling = k == Kind::Absent && matches!(nofollow, Ok((_, Kind::Symlink)));
                    if (k == Kind::File || k == Kind::Absent) && !parsed.trailing && !via_dangling && !c.is_empty() {
                        info.old_dst_len = t.file(&c).map(|f| f.len());
                        let mut e = t.clone();
                        e.nodes.insert(c, Node::File(data.clone()));
                        run(Some(e), true, info)
                    } else {
                        run(None, false, info)
                    }
                }
            }
        }
        ROp::Copy { src, dst, .. } => {
            let mut info = Info { len: dst.len(), ..Info::default() };
            let (ps, pd) = match (t.parse(src), t.parse(dst)) {
                (Err(RErr::Unknown), _) | (_, Err(RErr::Unknown)) => return Pred::Skip("skip:outside-model"),
                (Ok(a), Ok(b)) => (a, b),
                _ => return run(None, false, info),
            };
            info.ncomp = pd.comps.len();
            info.nsep = pd.nsep;
            let rs = t.resolve_comps(&ps, true);
            let rd = t.resolve_comps(&pd, true);
            if matches!(rs, Err(RErr::Unknown)) || matches!(rd, Err(RErr::Unknown)) {
                return Pred::Skip("skip:outside-model");
            }
            if let Ok((_, k)) = &rs {
                if would_block(*k) {
                    return Pred::Skip("skip:would-block");
                }
            }
            if let Ok((c, k)) = &rd {
                if would_block(*k) {
                    return Pred::Skip("skip:would-block");
                }
                if too_deep(c) {
                    return Pred::Skip("skip:too-deep");
                }
            }
            if let (Ok((cs, _)), Ok((cd, _))) = (&rs, &rd) {
                if cs == cd {
                    // no post-condition is defined for copying a file onto itself
                    return Pred::Skip("skip:copy-onto-itself");
                }
            }
            let nofollow = t.resolve_comps(&Parsed { comps: pd.comps.clone(), trailing: false, nsep: pd.nsep }, false);
            match (rs, rd) {
                (Ok((cs, Kind::File)), Ok((cd, kd))) if (kd == Kind::File || kd == Kind::Absent) && !pd.trailing && !ps.trailing && !cd.is_empty() => {
                    let via_dangling = kd == Kind::Absent && matches!(nofollow, Ok((_, Kind::Symlink)));
                    let content = t.file(&cs).unwrap().clone();
                    info.src_len = content.len();
                    info.old_dst_len = t.file(&cd).map(|f| f.len());
                    info.canon = cs;
                    info.canon2 = cd.clone();
                    info.kind = Some(kd);
                    if via_dangling {
                        return run(None, false, info);
                    }
                    let mut e = t.clone();
                    e.nodes.insert(cd, Node::File(content));
                    run(Some(e), true, info)
                }
                (Ok((cs, Kind::File)), Ok((cd, _))) => {
                    info.src_len = t.file(&cs).map(|f| f.len()).unwrap_or(0);
                    info.canon = cs;
                    info.canon2 = cd;
                    run(None, false, info)
                }
                _ => run(None, false, info),
            }
        }
        ROp::CreateDir { p } => {
            let mut info = Info { len: p.len(), ..Info::default() };
            let parsed = match t.parse(p) {
                Ok(x) => x,
                Err(RErr::Unknown) => return Pred::Skip("skip:outside-model"),
                Err(_) => return run(None, false, info),
            };
            info.ncomp = parsed.comps.len();
            info.nsep = parsed.nsep;
            let nf = Parsed { comps: parsed.comps.clone(), trailing: false, nsep: parsed.nsep };
            match t.resolve_comps(&nf, false) {
                Err(RErr::Unknown) => Pred::Skip("skip:outside-model"),
                Err(_) => run(None, false, info),
                Ok((c, Kind::Absent)) => {
                    if too_deep(&c) {
                        return Pred::Skip("skip:too-deep");
                    }
                    info.canon = c.clone();
                    let mut e = t.clone();
                    e.nodes.insert(c, Node::Dir);
                    run(Some(e), true, info)
                }
                Ok(_) => run(None, false, info),
            }
        }
        ROp::CreateDirAll { p } => {
            let mut info = Info { len: p.len(), ..Info::default() };
            let parsed = match t.parse(p) {
                Ok(x) => x,
                Err(RErr::Unknown) => return Pred::Skip("skip:outside-model"),
                Err(_) => return run(None, false, info),
            };
            info.ncomp = parsed.comps.len();
            info.nsep = parsed.nsep;
            let mut e = t.clone();
            let mut ok = true;
            for i in 1..=parsed.comps.len() {
                let pre = Parsed { comps: parsed.comps[..i].to_vec(), trailing: false, nsep: 0 };
                // a symlink as the component itself: followed when something is behind it
                let nofollow = e.resolve_comps(&pre, false);
                match e.resolve_comps(&pre, true) {
                    Err(RErr::Unknown) => return Pred::Skip("skip:outside-model"),
                    Err(_) => {
                        ok = false;
                        break;
                    }
                    Ok((_, Kind::Dir)) => {
                        if info.created == 0 {
                            info.existed += 1;
                        }
                    }
                    Ok((c, Kind::Absent)) => {
                        if matches!(nofollow, Ok((_, Kind::Symlink))) {
                            // dangling symlink in the way: mkdir answers EEXIST
                            ok = false;
                            break;
                        }
                        if too_deep(&c) {
                            return Pred::Skip("skip:too-deep");
                        }
                        e.nodes.insert(c.clone(), Node::Dir);
                        info.created += 1;
                        info.canon = c;
                    }
                    Ok(_) => {
                        ok = false;
                        info.bad_prefix = true;
                        break;
                    }
                }
            }
            if !ok {
                return run(None, false, info);
            }
            // nothing to create: success is the natural answer but an error for "already
            // there" is not excluded by the documentation -> checked only when Ok
            let must = info.created > 0;
            run(Some(e), must, info)
        }
        ROp::RemoveFile { p } => {
            let mut info = Info { len: p.len(), ..Info::default() };
            let parsed = match t.parse(p) {
                Ok(x) => x,
                Err(RErr::Unknown) => return Pred::Skip("skip:outside-model"),
                Err(_) => return run(None, false, info),
            };
            info.ncomp = parsed.comps.len();
            info.nsep = parsed.nsep;
            let trailing = parsed.trailing;
            let nf = Parsed { comps: parsed.comps, trailing: false, nsep: parsed.nsep };
            match t.resolve_comps(&nf, false) {
                Err(RErr::Unknown) => Pred::Skip("skip:outside-model"),
                Err(_) => run(None, false, info),
                Ok((c, k)) => {
                    if c.is_empty() {
                        return Pred::Skip("skip:case-root");
                    }
                    info.canon = c.clone();
                    info.kind = Some(k);
                    if matches!(k, Kind::File | Kind::Symlink | Kind::Fifo) && !trailing {
                        let mut e = t.clone();
                        e.nodes.remove(&c);
                        run(Some(e), true, info)
                    } else {
                        run(None, false, info)
                    }
                }
            }
        }
        ROp::RemoveDir { p } => {
            let mut info = Info { len: p.len(), ..Info::default() };
            let parsed = match t.parse(p) {
                Ok(x) => x,
                Err(RErr::Unknown) => return Pred::Skip("skip:outside-model"),
                Err(_) => return run(None, false, info),
            };
            info.ncomp = parsed.comps.len();
            info.nsep = parsed.nsep;
            let nf = Parsed { comps: parsed.comps, trailing: false, nsep: parsed.nsep };
            match t.resolve_comps(&nf, false) {
                Err(RErr::Unknown) => Pred::Skip("skip:outside-model"),
                Err(_) => run(None, false, info),
                Ok((c, k)) => {
                    if c.is_empty() {
                        return Pred::Skip("skip:case-root");
                    }
                    info.canon = c.clone();
                    info.kind = Some(k);
                    if k == Kind::Dir && !t.has_children(&c) {
                        let mut e = t.clone();
                        e.nodes.remove(&c);
                        run(Some(e), true, info)
                    } else {
                        run(None, false, info)
                    }
                }
            }
        }
        ROp::RemoveDirAll { p } => {
            let mut info = Info { len: p.len(), ..Info::default() };
            let parsed = match t.parse(p) {
                Ok(x) => x,
                Err(RErr::Unknown) => return Pred::Skip("skip:outside-model"),
                Err(_) => return run(None, false, info),
            };
            info.ncomp = parsed.comps.len();
            info.nsep = parsed.nsep;
            let nf = Parsed { comps: parsed.comps.clone(), trailing: false, nsep: parsed.nsep };
            match t.resolve_comps(&nf, false) {
                Err(RErr::Unknown) => Pred::Skip("skip:outside-model"),
                Err(_) => run(None, false, info),
                Ok((c, k)) => {
                    if c.is_empty() {
                        return Pred::Skip("skip:case-root");
                    }
                    info.canon = c.clone();
                    info.kind = Some(k);
                    match k {
                        // path names a symlink (to a directory): behaviour is not documented
                        Kind::Symlink => Pred::Skip("skip:remove_dir_all-on-symlink"),
                        Kind::Fifo | Kind::Other => Pred::Skip("skip:would-block"),
                        Kind::Dir => {
                            let d = t.descendants(&c);
                            info.removed_entries = d.len();
                            info.removed_symlinks = d.iter().filter(|k| t.kind(k) == Kind::Symlink).count();
                            info.removed_fifos = d.iter().filter(|k| t.kind(k) == Kind::Fifo).count();
                            info.removed_depth = d.iter().map(|k| k.len() - c.len()).max().unwrap_or(0);
                            let mut e = t.clone();
                            e.remove_subtree(&c);
                            run(Some(e), true, info)
                        }
                        _ => run(None, false, info),
                    }
                }
            }
        }
        ROp::Rename { src, dst } => {
            let mut info = Info { len: dst.len().max(src.len()), ..Info::default() };
            let (ps, pd) = match (t.parse(src), t.parse(dst)) {
                (Err(RErr::Unknown), _) | (_, Err(RErr::Unknown)) => return Pred::Skip("skip:outside-model"),
                (Ok(a), Ok(b)) => (a, b),
                _ => return run(None, false, info),
            };
            info.ncomp = pd.comps.len().max(ps.comps.len());
            info.nsep = pd.nsep.max(ps.nsep);
            let nfs = Parsed { comps: ps.comps.clone(), trailing: false, nsep: 0 };
            let nfd = Parsed { comps: pd.comps.clone(), trailing: false, nsep: 0 };
            let rs = t.resolve_comps(&nfs, false);
            let rd = t.resolve_comps(&nfd, false);
            if matches!(rs, Err(RErr::Unknown)) || matches!(rd, Err(RErr::Unknown)) {
                return Pred::Skip("skip:outside-model");
            }
            let (Ok((cs, ks)), Ok((cd, kd))) = (rs, rd) else {
                return run(None, false, info);
            };
            if cs.is_empty() || cd.is_empty() {
                return Pred::Skip("skip:case-root");
            }
            info.canon = cs.clone();
            info.canon2 = cd.clone();
            info.kind = Some(kd);
            if ks == Kind::Absent {
                return run(None, false, info);
            }
            // trailing separators are only unproblematic on real directories
            if (ps.trailing && ks != Kind::Dir) || (pd.trailing && ks != Kind::Dir) || (pd.trailing && kd != Kind::Dir && kd != Kind::Absent) {
                return run(None, false, info);
            }
            let inside = |a: &Comps, b: &Comps| b.len() >= a.len() && b[..a.len()] == a[..];
            if cs == cd {
                return run(Some(t.clone()), true, info);
            }
            if inside(&cs, &cd) || inside(&cd, &cs) {
                return run(None, false, info);
            }
            // new location must stay walkable
            let deepest = t.descendants(&cs).iter().map(|k| joined_len(k) - joined_len(&cs)).max().unwrap_or(0);
            if joined_len(&cd) + deepest >= PATH_MAX - 1 {
                return Pred::Skip("skip:too-deep");
            }
            let plain = match (ks, kd) {
                (_, Kind::Absent) => true,
                (Kind::Dir, Kind::Dir) => !t.has_children(&cd),
                (Kind::Dir, _) | (_, Kind::Dir) => false,
                _ => true,
            };
            if !plain {
                return run(None, false, info);
            }
            let mut e = t.clone();
            e.remove_subtree(&cd);
            let mut moved = vec![cs.clone()];
            moved.extend(t.descendants(&cs));
            for k in moved {
                let n = e.nodes.remove(&k).unwrap();
                let mut nk = cd.clone();
                nk.extend_from_slice(&k[cs.len()..]);
                e.nodes.insert(nk, n);
            }
            run(Some(e), true, info)
        }
    }
}

/// First difference between two trees, as (class, description).
pub fn diff(expected: &Tree, got: &Tree) -> Option<(&'static str, String)> {
    use vh::util::escape;
    let short = |b: &[u8]| {
        if b.len() > 80 {
            format!("{}..(+{} bytes)", escape(&b[..60]), b.len() - 60)
        } else {
            escape(b)
        }
    };
    for (k, v) in &expected.nodes {
        match got.nodes.get(k) {
            None => return Some(("missing entry", format!("{:?} expected as {} but absent", short(&join(k)), describe(v)))),
            Some(g) if g != v => {
                let class = match (v, g) {
                    (Node::File(_), Node::File(_)) => "content differs",
                    (Node::Symlink(_), Node::Symlink(_)) => "link target differs",
                    _ => "type differs",
                };
                return Some((class, format!("{:?} expected {} but found {}", short(&join(k)), describe(v), describe(g))));
            }
            _ => {}
        }
    }
    for (k, g) in &got.nodes {
        if !expected.nodes.contains_key(k) {
            return Some(("unexpected entry", format!("{:?} found as {} but not expected", short(&join(k)), describe(g))));
        }
    }
    None
}

pub fn describe(n: &Node) -> String {
    use vh::util::escape;
    match n {
        Node::Dir => "directory".into(),
        Node::File(c) => {
            if c.len() > 48 {
                format!("file[{} bytes, starts {:?}, ends {:?}]", c.len(), escape(&c[..16]), escape(&c[c.len() - 16..]))
            } else {
                format!("file[{} bytes {:?}]", c.len(), escape(c))
            }
        }
        Node::Symlink(t) => format!("symlink -> {:?}", escape(&t[..t.len().min(80)])),
        Node::Fifo => "fifo".into(),
        Node::Other => "other".into(),
    }
}
