//! The independent observer: everything here uses std::fs / libc only (never tiny-std).
//! Sandbox handling (one directory per worker process under /tmp, one fresh case root inside),
//! the tree walker producing a `Tree`, and raw getdents64 for directory-entry types.
use std::ffi::{CString, OsStr};
use std::os::unix::ffi::OsStrExt;
use std::os::unix::fs::FileTypeExt;
use std::path::{Path, PathBuf};

use crate::check::model::{Comps, Node, Tree};

const PREFIX: &str = "/tmp/verif-c14-";

pub struct Sandbox {
    base: PathBuf,
    root: PathBuf,
    pub root_abs: Vec<u8>,
}

fn wipe(p: &Path) {
    // never remove anything that is not ours
    assert!(p.as_os_str().as_bytes().starts_with(PREFIX.as_bytes()), "refusing to remove {p:?}");
    match std::fs::symlink_metadata(p) {
        Err(_) => {}
        Ok(_) => {
            if let Err(e) = std::fs::remove_dir_all(p) {
                panic!("harness: cannot remove {p:?}: {e}");
            }
        }
    }
}

/// Remove sandboxes left behind by workers that were killed (their process is gone).
fn sweep_stale() {
    let Ok(rd) = std::fs::read_dir("/tmp") else { return };
    for e in rd.flatten() {
        let name = e.file_name();
        let Some(rest) = name.to_str().and_then(|n| n.strip_prefix("verif-c14-")) else { continue };
        let Some((pid, _)) = rest.split_once('-') else { continue };
        let Ok(pid) = pid.parse::<u32>() else { continue };
        if pid != std::process::id() && !Path::new(&format!("/proc/{pid}")).exists() {
            let p = e.path();
            if p.as_os_str().as_bytes().starts_with(PREFIX.as_bytes()) {
                let _ = std::fs::remove_dir_all(&p);
            }
        }
    }
}

impl Sandbox {
    pub fn new(worker: u32) -> Sandbox {
        sweep_stale();
        // A removal that recurses without end (e.g. by following a symlink cycle) must end in
        // EMFILE - an ordinary Err the oracle can judge - not in a stack overflow of the
        // worker: every level of the recursion under test holds one descriptor.
        unsafe {
            let mut rl: libc::rlimit = core::mem::zeroed();
            if libc::getrlimit(libc::RLIMIT_NOFILE, &mut rl) == 0 && rl.rlim_cur > 1024 {
                rl.rlim_cur = 1024;
                libc::setrlimit(libc::RLIMIT_NOFILE, &rl);
            }
        }
        // fixed-width so that absolute path lengths (and with them replays) do not depend on
        // the number of digits of the process id
        let base = PathBuf::from(format!("{PREFIX}{:07}-{:02}", std::process::id(), worker));
        wipe(&base);
        std::fs::create_dir(&base).expect("harness: create sandbox");
        let root = base.join("r");
        let root_abs = root.as_os_str().as_bytes().to_vec();
        Sandbox { base, root, root_abs }
    }

    /// Fresh empty case root; the process's working directory is moved into it.
    pub fn begin_case(&self) -> CaseGuard<'_> {
        std::env::set_current_dir(&self.base).expect("harness: chdir base");
        wipe(&self.root);
        std::fs::create_dir(&self.root).expect("harness: create case root");
        std::env::set_current_dir(&self.root).expect("harness: chdir root");
        CaseGuard(self)
    }
}

impl Drop for Sandbox {
    fn drop(&mut self) {
        let _ = std::env::set_current_dir("/tmp");
        wipe(&self.base);
    }
}

pub struct CaseGuard<'a>(&'a Sandbox);

impl Drop for CaseGuard<'_> {
    fn drop(&mut self) {
        let _ = std::env::set_current_dir(&self.0.base);
        wipe(&self.0.root);
    }
}

pub fn path_of(b: &[u8]) -> &Path {
    Path::new(OsStr::from_bytes(b))
}

/// Path strings handed to std stay below this; deeper directories are entered with chdir.
const WALK_STR_MAX: usize = 3000;

fn walk_dir(t: &mut Tree, comps: &Comps, prefix: &[u8]) -> Result<(), String> {
    let esc = |b: &[u8]| vh::util::escape(&b[..b.len().min(200)]);
    if prefix.len() > WALK_STR_MAX {
        // (a directory below PATH_MAX bytes of path: reachable only step by step)
        let saved = std::fs::File::open(".").map_err(|e| format!("open(.): {e}"))?;
        std::env::set_current_dir(path_of(prefix)).map_err(|e| format!("chdir({:?}..): {e}", esc(prefix)))?;
        let r = walk_dir(t, comps, b".");
        use std::os::fd::AsRawFd;
        if unsafe { libc::fchdir(saved.as_raw_fd()) } != 0 {
            return Err("fchdir back failed".into());
        }
        return r;
    }
    let mut names: Vec<Vec<u8>> = Vec::new();
    {
        let rd = std::fs::read_dir(path_of(prefix)).map_err(|e| format!("read_dir({:?}): {e}", esc(prefix)))?;
        for ent in rd {
            let ent = ent.map_err(|e| format!("read_dir entry in {:?}: {e}", esc(prefix)))?;
            names.push(ent.file_name().as_bytes().to_vec());
        }
    }
    for name in names {
        let mut child = comps.clone();
        child.push(name.clone());
        let cp: Vec<u8> = if prefix == b"." {
            name
        } else {
            let mut v = prefix.to_vec();
            v.push(b'/');
            v.extend_from_slice(&name);
            v
        };
        let md = std::fs::symlink_metadata(path_of(&cp)).map_err(|e| format!("lstat({:?}): {e}", esc(&cp)))?;
        let ft = md.file_type();
        let node = if ft.is_dir() {
            Node::Dir
        } else if ft.is_file() && md.len() == 0 {
            Node::File(Vec::new())
        } else if ft.is_file() {
            Node::File(std::fs::read(path_of(&cp)).map_err(|e| format!("read({:?}): {e}", esc(&cp)))?)
        } else if ft.is_symlink() {
            Node::Symlink(std::fs::read_link(path_of(&cp)).map_err(|e| format!("readlink({:?}): {e}", esc(&cp)))?.as_os_str().as_bytes().to_vec())
        } else if ft.is_fifo() {
            Node::Fifo
        } else {
            Node::Other
        };
        let is_dir = node == Node::Dir;
        if t.nodes.insert(child.clone(), node).is_some() {
            return Err(format!("std::fs::read_dir({:?}) listed a name twice", esc(prefix)));
        }
        if is_dir {
            walk_dir(t, &child, &cp)?;
        }
    }
    Ok(())
}

/// Walk the case root (the current directory) with std::fs.
pub fn snapshot(root_abs: &[u8]) -> Result<Tree, String> {
    let mut t = Tree::new(root_abs);
    let r = walk_dir(&mut t, &Vec::new(), b".");
    // whatever happened, the worker lives in the case root
    std::env::set_current_dir(path_of(root_abs)).map_err(|e| format!("chdir(root): {e}"))?;
    r?;
    Ok(t)
}

pub fn mkfifo(p: &[u8]) -> bool {
    let Ok(c) = CString::new(p) else { return false };
    unsafe { libc::mkfifo(c.as_ptr(), 0o644) == 0 }
}

/// (name, d_type) of every entry as the kernel reports them, read with a large buffer through
/// libc on a descriptor of our own.
pub fn raw_getdents(p: &[u8]) -> Result<Vec<(Vec<u8>, u8)>, String> {
    let c = CString::new(p).map_err(|e| e.to_string())?;
    let fd = unsafe { libc::open(c.as_ptr(), libc::O_RDONLY | libc::O_DIRECTORY | libc::O_CLOEXEC) };
    if fd < 0 {
        return Err(format!("open: {}", std::io::Error::last_os_error()));
    }
    let mut out = Vec::new();
    let mut buf = vec![0u8; 1 << 16];
    loop {
        let n = unsafe { libc::syscall(libc::SYS_getdents64, fd, buf.as_mut_ptr(), buf.len()) };
        if n < 0 {
            unsafe { libc::close(fd) };
            return Err(format!("getdents64: {}", std::io::Error::last_os_error()));
        }
        if n == 0 {
            break;
        }
        let n = n as usize;
        let mut off = 0;
        while off < n {
            let reclen = u16::from_ne_bytes([buf[off + 16], buf[off + 17]]) as usize;
            let ty = buf[off + 18];
            let name = &buf[off + 19..off + reclen];
            let end = name.iter().position(|&b| b == 0).unwrap_or(name.len());
            out.push((name[..end].to_vec(), ty));
            off += reclen;
        }
    }
    unsafe { libc::close(fd) };
    Ok(out)
}
