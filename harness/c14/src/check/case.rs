//! Serialisable cases: an initial tree description and a history of operations whose paths
//! are described relative to the state they meet (index of an existing entry + new
//! components + shape modifiers), so that shrinking keeps them meaningful.
use serde::{Deserialize, Serialize};
use vh::runner::pick_idx;
use vh::util::BStr;

use crate::check::fsio::{mkfifo, path_of};
use crate::check::model::{join, Comps, Kind, ROp, Tree, NAME_MAX};

/// A file name: `stem`, padded with '_' up to `len` bytes when `len` is larger.
/// Sanitised on use: no '/', no NUL, never "." or "..", never empty.
#[derive(Debug, Clone, Serialize, Deserialize, PartialEq, Eq)]
pub struct NameSpec {
    pub stem: BStr,
    pub len: u16,
}

impl NameSpec {
    pub fn new(stem: &[u8], len: u16) -> NameSpec {
        NameSpec { stem: BStr(stem.to_vec()), len }
    }
    pub fn bytes(&self) -> Vec<u8> {
        let mut v: Vec<u8> = self.stem.0.iter().map(|&b| if b == b'/' || b == 0 { b'_' } else { b }).collect();
        let want = (self.len as usize).min(400);
        while v.len() < want {
            v.push(b'_');
        }
        if v.is_empty() || v == b"." || v == b".." {
            v.push(b'_');
        }
        v
    }
}

#[derive(Debug, Clone, Serialize, Deserialize)]
pub enum Data {
    Raw(BStr),
    /// deterministic aperiodic pattern of `len` bytes (`text`: printable ASCII only)
    Pat { len: u32, seed: u8, text: bool },
}

impl Data {
    pub fn bytes(&self) -> Vec<u8> {
        match self {
            Data::Raw(b) => b.0.clone(),
            Data::Pat { len, seed, text } => {
                let n = (*len as usize).min(8 << 20);
                let mut v = Vec::with_capacity(n);
                for i in 0..n {
                    let h = (i as u32).wrapping_add((*seed as u32) << 20).wrapping_mul(2_654_435_761).rotate_right(13) ^ (i as u32 >> 7);
                    if *text {
                        v.push(b' ' + (h % 95) as u8);
                    } else {
                        v.push(h as u8);
                    }
                }
                v
            }
        }
    }
}

#[derive(Debug, Clone, Serialize, Deserialize)]
pub enum EKind {
    Dir,
    File(Data),
    /// symlink to the `target`-th entry created so far (relative target when possible and `rel`)
    Link { target: u16, rel: bool },
    Fifo,
    /// 0 a socket, 1 a character device (1,3), 2 a block device (7,0) made with mknod; devices need
    /// privilege - where mknod is refused the entry is left out
    Special(u8),
    /// a directory with `count` generated children: names are a 4-digit index padded to a
    /// length that varies with the index (`len_a + i*len_step`, folded into 4..=255); every
    /// 7th a directory, every 11th a symlink to the previous entry, every 13th a fifo when `mixed`
    Many { count: u16, len_a: u8, len_step: u8, mixed: bool },
}

#[derive(Debug, Clone, Serialize, Deserialize)]
pub struct Entry {
    /// index among the directories created so far (0 = case root)
    pub parent: u16,
    pub name: NameSpec,
    pub kind: EKind,
}

#[derive(Debug, Clone, Serialize, Deserialize)]
pub enum Pad {
    None,
    /// append new components until the path string has exactly this many bytes
    Names(u16),
    /// repeat a separator until the path string has exactly this many bytes
    Seps(u16),
}

#[derive(Debug, Clone, Serialize, Deserialize)]
pub struct PathSpec {
    /// index among the currently existing entries that match `want` (0 = first; the case root
    /// is part of the list for want=Any/Dir)
    pub base: u16,
    /// 0 any, 1 regular file, 2 directory, 3 symlink, 4 non-directory, 5 symlink to directory
    /// + one more component behind it (alias path), 6 the case root
    pub want: u8,
    /// new components appended behind the base
    pub extra: Vec<NameSpec>,
    pub abs: bool,
    /// number of trailing separators
    pub trail: u8,
    /// 0: none; k>0: the (k-1 mod n)-th separator is doubled
    pub dup: u8,
    pub pad: Pad,
}

impl PathSpec {
    pub fn simple(want: u8, base: u16, extra: &[&[u8]]) -> PathSpec {
        PathSpec { base, want, extra: extra.iter().map(|e| NameSpec::new(e, 0)).collect(), abs: false, trail: 0, dup: 0, pad: Pad::None }
    }
}

#[derive(Debug, Clone, Serialize, Deserialize)]
pub enum Via {
    /// `fs::copy_file(src, dst)`
    CopyFile,
    /// `File::open(src)`, read `pre` bytes from the handle (0 = fresh handle), `.copy(dst)`
    Handle { pre: u32 },
}

#[derive(Debug, Clone, Serialize, Deserialize)]
pub enum Op {
    Write { p: PathSpec, data: Data },
    Read { p: PathSpec },
    ReadToString { p: PathSpec },
    /// `clamp`: when Some(k) and the source is larger than one page, the kernel is made to
    /// copy at most k bytes per copy_file_range call (legal short copies)
    Copy { src: PathSpec, dst: PathSpec, via: Via, clamp: Option<u32> },
    CreateDir { p: PathSpec },
    CreateDirAll { p: PathSpec },
    RemoveFile { p: PathSpec },
    RemoveDir { p: PathSpec },
    RemoveDirAll { p: PathSpec },
    Rename { src: PathSpec, dst: PathSpec },
    Exists { p: PathSpec },
    Metadata { p: PathSpec },
    ReadDir { p: PathSpec },
}

#[derive(Debug, Clone, Serialize, Deserialize)]
pub struct Case {
    pub tree: Vec<Entry>,
    pub ops: Vec<Op>,
}

// ------------------------------------------------------------------------------------------
// building the initial tree with std
// ------------------------------------------------------------------------------------------

fn many_name(i: usize, len_a: u8, len_step: u8) -> Vec<u8> {
    let mut v = format!("{i:04}").into_bytes();
    let want = 4 + (len_a as usize + i * len_step as usize) % 252;
    while v.len() < want {
        v.push(b'a' + (v.len() % 26) as u8);
    }
    v
}

fn link_target(root_abs: &[u8], link_parent: &Comps, target: &Comps, rel: bool) -> Vec<u8> {
    if rel && target.len() > link_parent.len() && target[..link_parent.len()] == link_parent[..] {
        join(&target[link_parent.len()..])
    } else {
        let mut t = root_abs.to_vec();
        t.push(b'/');
        t.extend_from_slice(&join(target));
        t
    }
}

/// Create the initial tree inside the current directory (the case root). Entries that
/// cannot be created (name clash, name longer than 255 bytes, path too long) are skipped.
pub fn build(root_abs: &[u8], entries: &[Entry], max_many: usize) {
    let mut dirs: Vec<Comps> = vec![Vec::new()];
    let mut all: Vec<Comps> = Vec::new();
    for e in entries {
        let parent = dirs[pick_idx(e.parent, dirs.len())].clone();
        let name = e.name.bytes();
        if name.len() > NAME_MAX {
            continue;
        }
        let mut me = parent.clone();
        me.push(name);
        let p = join(&me);
        if p.len() > 3000 || std::fs::symlink_metadata(path_of(&p)).is_ok() {
            continue;
        }
        match &e.kind {
            EKind::Dir => {
                if std::fs::create_dir(path_of(&p)).is_ok() {
                    dirs.push(me.clone());
                    all.push(me);
                }
            }
            EKind::File(d) => {
                if std::fs::write(path_of(&p), d.bytes()).is_ok() {
                    all.push(me);
                }
            }
            EKind::Link { target, rel } => {
                if all.is_empty() {
                    continue;
                }
                let t = all[pick_idx(*target, all.len())].clone();
                let tb = link_target(root_abs, &parent, &t, *rel);
                if std::os::unix::fs::symlink(path_of(&tb), path_of(&p)).is_ok() {
                    all.push(me);
                }
            }
            EKind::Fifo => {
                if mkfifo(&p) {
                    all.push(me);
                }
            }
            EKind::Special(k) => {
                let (mode, dev) = match k % 3 {
                    0 => (libc::S_IFSOCK | 0o600, 0),
                    1 => (libc::S_IFCHR | 0o600, libc::makedev(1, 3)),
                    _ => (libc::S_IFBLK | 0o600, libc::makedev(7, 0)),
                };
                let c = std::ffi::CString::new(p.clone()).unwrap();
                if unsafe { libc::mknod(c.as_ptr(), mode, dev) } == 0 {
                    all.push(me);
                }
            }
            EKind::Many { count, len_a, len_step, mixed } => {
                if std::fs::create_dir(path_of(&p)).is_err() {
                    continue;
                }
                dirs.push(me.clone());
                all.push(me.clone());
                let n = (*count as usize).min(max_many);
                let mut prev: Option<Vec<u8>> = None;
                for i in 0..n {
                    let nm = many_name(i, *len_a, *len_step);
                    let mut c = me.clone();
                    c.push(nm.clone());
                    let cp = join(&c);
                    if *mixed && i % 7 == 3 {
                        let _ = std::fs::create_dir(path_of(&cp));
                    } else if *mixed && i % 11 == 5 && prev.is_some() {
                        let _ = std::os::unix::fs::symlink(path_of(prev.as_ref().unwrap()), path_of(&cp));
                    } else if *mixed && i % 13 == 6 {
                        mkfifo(&cp);
                    } else if i % 5 == 0 {
                        let _ = std::fs::write(path_of(&cp), &nm[..nm.len().min(9)]);
                    } else {
                        let _ = std::fs::File::create(path_of(&cp));
                    }
                    prev = Some(nm);
                }
            }
        }
    }
}

// ------------------------------------------------------------------------------------------
// turning a PathSpec into a concrete path string in the current state
// ------------------------------------------------------------------------------------------

/// Existing entries matching `want`, in key order (deterministic).
fn candidates(t: &Tree, want: u8) -> Vec<Comps> {
    let mut v: Vec<Comps> = Vec::new();
    match want {
        6 => v.push(Vec::new()),
        5 => {
            // alias paths: <symlink to directory>/<child of the target>
            for (k, n) in &t.nodes {
                if let crate::check::model::Node::Symlink(_) = n {
                    let parsed = crate::check::model::Parsed { comps: k.clone(), trailing: false, nsep: 0 };
                    if let Ok((c, Kind::Dir)) = t.resolve_comps(&parsed, true) {
                        v.push(k.clone());
                        for (name, _) in t.children(&c).into_iter().take(4) {
                            let mut a = k.clone();
                            a.push(name);
                            v.push(a);
                        }
                    }
                }
            }
        }
        _ => {
            for (k, n) in &t.nodes {
                let kind = t.kind(k);
                let _ = n;
                let ok = match want {
                    1 => kind == Kind::File,
                    2 => kind == Kind::Dir,
                    3 => kind == Kind::Symlink,
                    4 => kind != Kind::Dir,
                    _ => true,
                };
                if ok {
                    v.push(k.clone());
                }
            }
        }
    }
    if v.is_empty() {
        v.push(Vec::new());
    }
    v
}

pub fn materialise_path(t: &Tree, s: &PathSpec) -> Vec<u8> {
    let cands = candidates(t, s.want);
    let mut comps = cands[pick_idx(s.base, cands.len())].clone();
    for e in s.extra.iter().take(16) {
        comps.push(e.bytes());
    }
    // separators before each component
    let mut seps: Vec<usize> = (0..comps.len()).map(|i| if i == 0 && !s.abs { 0 } else { 1 }).collect();
    let mut lead: Vec<u8> = if s.abs { t.root_abs.clone() } else { Vec::new() };
    let mut trail = (s.trail as usize).min(3);
    if comps.is_empty() && !s.abs {
        lead = b".".to_vec();
    }
    if s.dup > 0 {
        let idx: Vec<usize> = (0..seps.len()).filter(|&i| seps[i] > 0).collect();
        if !idx.is_empty() {
            seps[idx[(s.dup as usize - 1) % idx.len()]] += 1;
        }
    }
    let cur_len = |lead: &Vec<u8>, comps: &Comps, seps: &Vec<usize>, trail: usize| lead.len() + comps.iter().map(|c| c.len()).sum::<usize>() + seps.iter().sum::<usize>() + trail;
    match s.pad {
        Pad::None => {}
        Pad::Names(total) => {
            let total = (total as usize).min(4200);
            loop {
                let len = cur_len(&lead, &comps, &seps, trail);
                if len >= total {
                    break;
                }
                let rem = total - len;
                if rem == 1 {
                    trail += 1;
                    break;
                }
                // (an empty relative path was turned into "." above, so a separator is always due)
                seps.push(1);
                let mut n = (rem - 1).min(NAME_MAX);
                if rem - 1 - n == 1 && n > 1 {
                    n -= 1;
                }
                let mut name = vec![b'p'; n];
                name[0] = b'q';
                comps.push(name);
            }
        }
        Pad::Seps(total) => {
            let total = (total as usize).min(4200);
            let len = cur_len(&lead, &comps, &seps, trail);
            if len < total {
                let need = total - len;
                let idx: Vec<usize> = (0..seps.len()).filter(|&i| seps[i] > 0).collect();
                if let Some(&i) = idx.last() {
                    let k = if s.dup > 0 { idx[(s.dup as usize - 1) % idx.len()] } else { i };
                    seps[k] += need;
                } else if !comps.is_empty() && need >= 2 {
                    // single relative component: "./" + separators + name
                    lead = b".".to_vec();
                    seps[0] = need - 1;
                } else {
                    trail += need;
                }
            }
        }
    }
    let mut out = lead;
    for (i, c) in comps.iter().enumerate() {
        out.extend(std::iter::repeat(b'/').take(seps[i]));
        out.extend_from_slice(c);
    }
    out.extend(std::iter::repeat(b'/').take(trail));
    out
}

pub fn materialise(t: &Tree, op: &Op) -> ROp {
    let mp = |s: &PathSpec| materialise_path(t, s);
    match op {
        Op::Write { p, data } => ROp::Write { p: mp(p), data: data.bytes() },
        Op::Read { p } => ROp::Read { p: mp(p) },
        Op::ReadToString { p } => ROp::ReadToString { p: mp(p) },
        Op::Copy { src, dst, via, clamp } => ROp::Copy {
            src: mp(src),
            dst: mp(dst),
            pre: match via {
                Via::CopyFile => None,
                Via::Handle { pre } => Some(*pre as usize),
            },
            clamp: clamp.map(|c| (c as usize).max(1)),
        },
        Op::CreateDir { p } => ROp::CreateDir { p: mp(p) },
        Op::CreateDirAll { p } => ROp::CreateDirAll { p: mp(p) },
        Op::RemoveFile { p } => ROp::RemoveFile { p: mp(p) },
        Op::RemoveDir { p } => ROp::RemoveDir { p: mp(p) },
        Op::RemoveDirAll { p } => ROp::RemoveDirAll { p: mp(p) },
        Op::Rename { src, dst } => ROp::Rename { src: mp(src), dst: mp(dst) },
        Op::Exists { p } => ROp::Exists { p: mp(p) },
        Op::Metadata { p } => ROp::Metadata { p: mp(p) },
        Op::ReadDir { p } => ROp::ReadDir { p: mp(p) },
    }
}
