//! C14 — file-system operations establish their post-conditions for every path and tree.
//!
//! Model-based: every case builds a fresh tree below /tmp/verif-c14-<pid>-<worker>/r with
//! std::fs, runs a history of tiny_std::fs operations in it and, after every step, walks the
//! whole root with std::fs and compares it with the tree the operation's documentation
//! requires (model.rs). Sub-checks per operation family (random, shrinking) plus small
//! deterministic enumerations of the shapes the design names, so that one defect does not
//! hide another.
use std::collections::BTreeSet;

use proptest::prelude::*;
use vh::runner::{catch, journal_set, CaseResult, Ctx, Failure};
use vh::util::BStr;

use self::case::{Case, Data, EKind, Entry, NameSpec, Op, Pad, PathSpec, Via};
use self::exec::{run_case, Env};

pub mod case;
pub mod exec;
pub mod fsio;
pub mod model;
pub mod oo;
pub mod special;

// ------------------------------------------------------------------------------------------
// strategies
// ------------------------------------------------------------------------------------------

const ALPHA: [u8; 12] = [b'a', b'b', b'c', b'.', b' ', b'-', 0x80, 0xff, 0xc3, b'\n', b'Z', b'.'];

fn stem() -> impl Strategy<Value = BStr> {
    // names next to the two pseudo entries "." and "..": dot-prefixed, dots only, dot + space
    let dotted: Vec<&'static [u8]> = vec![b"..a", b"...", b"..data", b".a", b".. ", b". ", b"..\xff", b"....", b".x.", b"a..", b"-.."];
    prop_oneof![
        9 => prop::collection::vec(prop::sample::select(ALPHA.to_vec()), 1..=4).prop_map(BStr),
        1 => prop::sample::select(dotted).prop_map(|b| BStr(b.to_vec())),
    ]
}

fn name_tree() -> impl Strategy<Value = NameSpec> {
    (stem(), prop_oneof![14 => Just(0u16), 1 => Just(255u16), 1 => 250u16..=255, 1 => 5u16..60]).prop_map(|(stem, len)| NameSpec { stem, len })
}

fn name_op() -> impl Strategy<Value = NameSpec> {
    (stem(), prop_oneof![28 => Just(0u16), 2 => Just(255u16), 2 => 250u16..=255, 2 => 5u16..60, 1 => 256u16..300]).prop_map(|(stem, len)| NameSpec { stem, len })
}

fn data_small() -> impl Strategy<Value = Data> {
    prop_oneof![
        3 => prop::collection::vec(any::<u8>(), 0..24).prop_map(|v| Data::Raw(BStr(v))),
        2 => prop::collection::vec(prop::sample::select(b"abc xyz\n".to_vec()), 0..24).prop_map(|v| Data::Raw(BStr(v))),
        1 => Just(Data::Raw(BStr("h\u{e9}llo \u{2713}".as_bytes().to_vec()))),
        2 => (0u32..9000, any::<u8>(), any::<bool>()).prop_map(|(len, seed, text)| Data::Pat { len, seed, text }),
    ]
}

fn data_copy(max: u32) -> impl Strategy<Value = Data> {
    prop_oneof![
        3 => data_small(),
        2 => (4090u32..4100, any::<u8>(), any::<bool>()).prop_map(|(len, seed, text)| Data::Pat { len, seed, text }),
        2 => (8190u32..8200, any::<u8>(), any::<bool>()).prop_map(|(len, seed, text)| Data::Pat { len, seed, text }),
        3 => (4097u32..max, any::<u8>(), any::<bool>()).prop_map(|(len, seed, text)| Data::Pat { len, seed, text }),
    ]
}

fn ekind(max_many: u16, many_w: u32, big: u32) -> impl Strategy<Value = EKind> {
    prop_oneof![
        5 => Just(EKind::Dir),
        5 => data_copy(big).prop_map(EKind::File),
        3 => (any::<u16>(), any::<bool>()).prop_map(|(target, rel)| EKind::Link { target, rel }),
        1 => Just(EKind::Fifo),
        1 => (0u8..3).prop_map(EKind::Special),
        many_w => (prop_oneof![12 => 0u16..=30, 4 => 15u16..=60, 2 => 0u16..=max_many.min(300), 1 => max_many.min(300)..=max_many], any::<u8>(), prop_oneof![Just(0u8), Just(1u8), any::<u8>()], any::<bool>()).prop_map(|(count, len_a, len_step, mixed)| EKind::Many { count, len_a, len_step, mixed }),
    ]
}

fn tree(max_entries: usize, max_many: u16, many_w: u32, big: u32) -> impl Strategy<Value = Vec<Entry>> {
    prop::collection::vec((any::<u16>(), name_tree(), ekind(max_many, many_w, big)).prop_map(|(parent, name, kind)| Entry { parent, name, kind }), 0..=max_entries)
}

/// A tree that is guaranteed to hold at least two regular files (copy / read families).
fn tree_with_files(max_entries: usize, big: u32) -> impl Strategy<Value = Vec<Entry>> {
    (data_copy(big), data_copy(big), name_tree(), tree(max_entries, 0, 0, big)).prop_map(|(d1, d2, n2, mut t)| {
        t.insert(0, Entry { parent: 0, name: NameSpec::new(b"f1", 0), kind: EKind::File(d1) });
        t.insert(1, Entry { parent: 0, name: n2, kind: EKind::File(d2) });
        t
    })
}

fn pad_any() -> impl Strategy<Value = Pad> {
    prop_oneof![
        16 => Just(Pad::None),
        3 => (505u16..=520).prop_map(Pad::Names),
        2 => (505u16..=520).prop_map(Pad::Seps),
        1 => (521u16..4090).prop_map(Pad::Names),
        1 => (4088u16..=4100).prop_map(Pad::Names),
        1 => (4090u16..=4097).prop_map(Pad::Seps),
    ]
}

fn pad_existing() -> impl Strategy<Value = Pad> {
    prop_oneof![
        16 => Just(Pad::None),
        2 => (505u16..=520).prop_map(Pad::Seps),
        1 => (4090u16..=4097).prop_map(Pad::Seps),
    ]
}

fn shape() -> impl Strategy<Value = (bool, u8, u8)> {
    (prop::bool::weighted(0.3), prop_oneof![6 => Just(0u8), 1 => Just(1u8), 1 => Just(2u8)], prop_oneof![5 => Just(0u8), 2 => 1u8..8])
}

/// A path to something that exists (of kind `want`).
fn existing(want: u8) -> impl Strategy<Value = PathSpec> {
    (any::<u16>(), shape(), pad_existing()).prop_map(move |(base, (abs, trail, dup), pad)| PathSpec { base, want, extra: vec![], abs, trail, dup, pad })
}

fn existing_plain(want: u8) -> impl Strategy<Value = PathSpec> {
    (any::<u16>(), prop::bool::weighted(0.3), prop_oneof![5 => Just(0u8), 1 => 1u8..8], pad_existing()).prop_map(move |(base, abs, dup, pad)| PathSpec { base, want, extra: vec![], abs, trail: 0, dup, pad })
}

/// New components (`lo..=hi` of them) behind an existing directory / symlink / the root.
fn fresh(lo: usize, hi: usize, trail_ok: bool) -> impl Strategy<Value = PathSpec> {
    (any::<u16>(), prop_oneof![5 => Just(2u8), 2 => Just(6u8), 1 => Just(5u8), 1 => Just(0u8)], prop::collection::vec(name_op(), lo..=hi), shape(), pad_any()).prop_map(move |(base, want, extra, (abs, trail, dup), pad)| {
        let pad = if trail_ok { pad } else { match pad { Pad::Names(n) => Pad::Seps(n), p => p } };
        PathSpec { base, want, extra, abs, trail: if trail_ok { trail } else { 0 }, dup, pad }
    })
}

fn anypath() -> impl Strategy<Value = PathSpec> {
    prop_oneof![3 => existing(0), 1 => existing(5), 2 => fresh(1, 2, true)]
}

fn op_write(big: u32) -> impl Strategy<Value = Op> {
    (prop_oneof![4 => existing_plain(1), 4 => fresh(1, 1, false), 1 => existing_plain(3), 1 => anypath()], data_copy(big)).prop_map(|(p, data)| Op::Write { p, data })
}

fn op_read() -> impl Strategy<Value = Op> {
    prop_oneof![
        5 => existing_plain(1).prop_map(|p| Op::Read { p }),
        3 => existing_plain(1).prop_map(|p| Op::ReadToString { p }),
        1 => existing_plain(3).prop_map(|p| Op::Read { p }),
        1 => anypath().prop_map(|p| Op::Read { p }),
        1 => anypath().prop_map(|p| Op::ReadToString { p }),
    ]
}

fn op_copy() -> impl Strategy<Value = Op> {
    (
        prop_oneof![8 => existing_plain(1), 1 => existing_plain(3), 1 => anypath()],
        prop_oneof![5 => existing_plain(1), 5 => fresh(1, 1, false), 1 => existing_plain(3), 1 => anypath()],
        prop_oneof![3 => Just(Via::CopyFile), 2 => Just(Via::Handle { pre: 0 }), 2 => (1u32..10).prop_map(|pre| Via::Handle { pre }), 1 => (10u32..20000).prop_map(|pre| Via::Handle { pre })],
        prop_oneof![3 => Just(None), 1 => (1u32..64).prop_map(Some), 2 => (64u32..9000).prop_map(Some)],
    )
        .prop_map(|(src, dst, via, clamp)| Op::Copy { src, dst, via, clamp })
}

fn op_cda() -> impl Strategy<Value = Op> {
    prop_oneof![8 => fresh(1, 4, true), 2 => fresh(0, 0, true), 1 => existing(0)].prop_map(|p| Op::CreateDirAll { p })
}

fn op_mkdir() -> impl Strategy<Value = Op> {
    prop_oneof![6 => fresh(1, 1, true), 1 => fresh(2, 2, true), 1 => existing(0)].prop_map(|p| Op::CreateDir { p })
}

fn op_rda() -> impl Strategy<Value = Op> {
    prop_oneof![8 => existing(2), 1 => existing(0), 1 => fresh(1, 1, true)].prop_map(|p| Op::RemoveDirAll { p })
}

fn op_readdir() -> impl Strategy<Value = Op> {
    prop_oneof![8 => existing(2), 1 => existing(5), 1 => existing(0)].prop_map(|p| Op::ReadDir { p })
}

fn op_misc() -> impl Strategy<Value = Op> {
    prop_oneof![
        3 => (prop_oneof![6 => existing(0), 1 => existing(5), 1 => fresh(1, 1, true)], prop_oneof![4 => fresh(1, 1, true), 3 => existing(0), 1 => existing(5)]).prop_map(|(src, dst)| Op::Rename { src, dst }),
        2 => prop_oneof![5 => existing_plain(4), 1 => anypath()].prop_map(|p| Op::RemoveFile { p }),
        2 => prop_oneof![5 => existing(2), 1 => anypath()].prop_map(|p| Op::RemoveDir { p }),
        2 => anypath().prop_map(|p| Op::Exists { p }),
        2 => anypath().prop_map(|p| Op::Metadata { p }),
        1 => op_mkdir(),
    ]
}

fn op_any(big: u32) -> impl Strategy<Value = Op> {
    prop_oneof![3 => op_write(big), 2 => op_read(), 3 => op_copy(), 3 => op_cda(), 2 => op_rda(), 2 => op_readdir(), 6 => op_misc()]
}

fn case_of(tree: impl Strategy<Value = Vec<Entry>>, op: impl Strategy<Value = Op>, max_ops: usize) -> impl Strategy<Value = Case> {
    (tree, prop::collection::vec(op, 1..=max_ops)).prop_map(|(tree, ops)| Case { tree, ops })
}

// ------------------------------------------------------------------------------------------
// deterministic enumerations of the named shapes
// ------------------------------------------------------------------------------------------

/// draw value that `pick_idx` maps to index `i` of `n`
fn idx_for(i: usize, n: usize) -> u16 {
    (((i << 16) + n - 1) / n) as u16
}

fn ent(parent: u16, name: &[u8], kind: EKind) -> Entry {
    Entry { parent, name: NameSpec::new(name, 0), kind }
}

fn pat(len: u32, seed: u8) -> Data {
    Data::Pat { len, seed, text: false }
}

fn shapes_create_dir_all() -> Vec<Case> {
    // root: a/ a/b/ f l->a     directories in key order: [root, a, a/b]
    let tree = vec![ent(0, b"a", EKind::Dir), ent(idx_for(1, 2), b"b", EKind::Dir), ent(0, b"f", EKind::File(Data::Raw(BStr(b"x".to_vec())))), ent(0, b"l", EKind::Link { target: 0, rel: true })];
    let bases: [(u8, u16); 4] = [(6, 0), (2, idx_for(1, 3)), (2, idx_for(2, 3)), (3, 0)];
    let mut pads = vec![Pad::None];
    for n in 510u16..=516 {
        pads.push(Pad::Names(n));
    }
    for n in 511u16..=514 {
        pads.push(Pad::Seps(n));
    }
    pads.push(Pad::Names(1000));
    pads.push(Pad::Names(4095));
    let mut out = Vec::new();
    for pad in &pads {
        for ncomp in 1..=3usize {
            for &(want, base) in &bases {
                for abs in [false, true] {
                    for trail in [0u8, 1] {
                        for dup in [0u8, 1] {
                            let extra: Vec<NameSpec> = (0..ncomp).map(|i| NameSpec::new(&[b'n', b'0' + i as u8], 0)).collect();
                            out.push(Case { tree: tree.clone(), ops: vec![Op::CreateDirAll { p: PathSpec { base, want, extra, abs, trail, dup, pad: pad.clone() } }] });
                        }
                    }
                }
            }
        }
    }
    // a regular file where a directory is needed: as the path itself and as its prefix
    for abs in [false, true] {
        for extra in [vec![], vec![NameSpec::new(b"n0", 0)], vec![NameSpec::new(b"n0", 0), NameSpec::new(b"n1", 0)]] {
            for trail in [0u8, 1] {
                out.push(Case { tree: tree.clone(), ops: vec![Op::CreateDirAll { p: PathSpec { base: 0, want: 1, extra: extra.clone(), abs, trail, dup: 0, pad: Pad::None } }] });
            }
        }
    }
    out
}

fn shapes_copy() -> Vec<Case> {
    let mut out = Vec::new();
    // the last six sizes: powers of two and multiples of 4 MiB (what a copy made in bounded chunks would use as its
    // chunk length, seeded change C14-18) with a neighbour; one plain shape each, they cost a few ms apiece
    for &size in &[0u32, 1, 5, 4096, 4097, 20000, 1 << 16, 1 << 20, 1 << 22, (1 << 22) + 1, 1 << 23, 3 << 22] {
        let large = size >= 1 << 16;
        // destination: absent, shorter, same length, longer
        for dst in 0..4u8 {
            if large && dst != 0 && dst != 3 {
                continue;
            }
            let dlen = match dst {
                1 => size / 2,
                2 => size,
                3 => size + 7,
                _ => 0,
            };
            if dst == 1 && size == 0 {
                continue;
            }
            let mut vias = vec![Via::CopyFile, Via::Handle { pre: 0 }];
            if size > 0 && !large {
                vias.push(Via::Handle { pre: 1 });
                vias.push(Via::Handle { pre: size });
            }
            if size > 3 && !large {
                vias.push(Via::Handle { pre: 3 });
            }
            for via in vias {
                let mut clamps = vec![None];
                if size > 4096 && !large {
                    clamps.push(Some(4096));
                    clamps.push(Some(size - 1));
                    clamps.push(Some(7));
                }
                for clamp in clamps {
                    // files in key order: "d" < "s"
                    let mut tree = vec![ent(0, b"s", EKind::File(pat(size, 1)))];
                    let dstp = if dst == 0 {
                        PathSpec::simple(6, 0, &[b"d"])
                    } else {
                        tree.push(ent(0, b"d", EKind::File(pat(dlen, 2))));
                        PathSpec::simple(1, idx_for(0, 2), &[])
                    };
                    let srcp = PathSpec::simple(1, if dst == 0 { 0 } else { idx_for(1, 2) }, &[]);
                    out.push(Case { tree, ops: vec![Op::Copy { src: srcp, dst: dstp, via: via.clone(), clamp }] });
                }
            }
        }
    }
    out
}

fn shapes_write_read() -> Vec<Case> {
    let mut out = Vec::new();
    for &size in &[0u32, 1, 31, 32, 33, 4096, 4097, 70000] {
        for prior in 0..3u8 {
            for text in [false, true] {
                for shape in 0..4u8 {
                    // prior: none, shorter, longer
                    let mut tree = vec![ent(0, b"d", EKind::Dir)];
                    let p = match prior {
                        0 => PathSpec { base: idx_for(1, 2), want: 2, extra: vec![NameSpec::new(b"f", 0)], abs: shape & 1 == 1, trail: 0, dup: shape >> 1, pad: Pad::None },
                        _ => {
                            tree.push(ent(idx_for(1, 2), b"f", EKind::File(pat(if prior == 1 { size / 2 } else { size + 100 }, 9))));
                            PathSpec { base: 0, want: 1, extra: vec![], abs: shape & 1 == 1, trail: 0, dup: shape >> 1, pad: Pad::None }
                        }
                    };
                    let rp = PathSpec { base: 0, want: 1, extra: vec![], abs: shape & 1 == 0, trail: 0, dup: 0, pad: Pad::None };
                    out.push(Case { tree, ops: vec![Op::Write { p, data: Data::Pat { len: size, seed: 3, text } }, Op::Read { p: rp.clone() }, Op::ReadToString { p: rp }] });
                }
            }
        }
    }
    out
}

fn shapes_remove_dir_all(fanout: u16) -> Vec<Case> {
    let mut out = Vec::new();
    for variant in 0..6u8 {
        for shape in 0..8u8 {
            // outside: o/ (with file of), of2; victim v/ with nested content and links out
            let mut t = vec![
                ent(0, b"o", EKind::Dir),                                            // dirs: [root, o]
                ent(idx_for(1, 2), b"of", EKind::File(Data::Raw(BStr(b"keep".to_vec())))), // all: [o, o/of]
                ent(0, b"of2", EKind::File(Data::Raw(BStr(b"keep2".to_vec())))),     // all: [o, o/of, of2]
                ent(0, b"v", EKind::Dir),                                            // dirs: [root, o, v]; all: +v
            ];
            let v = idx_for(2, 3);
            match variant {
                0 => {}
                1 => {
                    t.push(ent(v, b"f", EKind::File(Data::Raw(BStr(b"1".to_vec())))));
                    t.push(ent(v, b".hidden", EKind::File(Data::Raw(BStr(vec![])))));
                    t.push(ent(v, b"..x", EKind::Dir));
                    t.push(ent(v, b".d", EKind::Dir));
                }
                2 => {
                    // links to things outside the victim
                    t.push(ent(v, b"ld", EKind::Link { target: idx_for(0, 4), rel: false }));
                    t.push(ent(v, b"lf", EKind::Link { target: idx_for(1, 5), rel: false }));
                    t.push(ent(v, b"lf2", EKind::Link { target: idx_for(2, 6), rel: false }));
                    t.push(ent(v, b"fifo", EKind::Fifo));
                }
                3 => {
                    // nesting 4 deep with a link to the outside at the bottom
                    t.push(ent(v, b"d1", EKind::Dir)); // dirs: [root,o,v,v/d1]
                    t.push(ent(idx_for(3, 4), b"d2", EKind::Dir));
                    t.push(ent(idx_for(4, 5), b"d3", EKind::Dir));
                    t.push(ent(idx_for(5, 6), b"d4", EKind::Dir));
                    t.push(ent(idx_for(6, 7), b"deep", EKind::File(Data::Raw(BStr(b"z".to_vec())))));
                    t.push(ent(idx_for(6, 7), b"out", EKind::Link { target: idx_for(0, 9), rel: false }));
                }
                4 => {
                    t.push(ent(v, b"many", EKind::Many { count: fanout, len_a: 0, len_step: 37, mixed: true }));
                    t.push(Entry { parent: v, name: NameSpec::new(b"L", 255), kind: EKind::Dir });
                    t.push(ent(v, &[0xff, 0xfe, b'\n'], EKind::File(Data::Raw(BStr(vec![1])))));
                }
                _ => {
                    // a link inside the victim to another entry inside, and one from outside in
                    t.push(ent(v, b"in", EKind::File(Data::Raw(BStr(b"i".to_vec())))));
                    t.push(ent(v, b"lin", EKind::Link { target: idx_for(4, 5), rel: true }));
                    t.push(ent(0, b"from-outside", EKind::Link { target: idx_for(3, 6), rel: false }));
                }
            }
            let p = PathSpec { base: idx_for(2, 3), want: 2, extra: vec![], abs: shape & 1 == 1, trail: (shape >> 1) & 1, dup: (shape >> 2) & 1, pad: Pad::None };
            out.push(Case { tree: t, ops: vec![Op::RemoveDirAll { p }] });
        }
    }
    out
}

fn shapes_readdir(fanout: u16) -> Vec<Case> {
    let mut out = Vec::new();
    for &(len_a, len_step) in &[(0u8, 0u8), (251, 0), (0, 1), (0, 37), (100, 13), (20, 0)] {
        for &count in &[0u16, 1, 16, 17, 18, 19, 20, 21, 22, 40, fanout] {
            for mixed in [false, true] {
                let mut t = vec![ent(0, b"m", EKind::Many { count, len_a, len_step, mixed })];
                t.push(Entry { parent: idx_for(1, 2), name: NameSpec::new(b"N", 255), kind: EKind::File(Data::Raw(BStr(vec![]))) });
                t.push(ent(idx_for(1, 2), &[0x80, 0xff], EKind::Dir));
                t.push(ent(idx_for(1, 2), b".dot", EKind::File(Data::Raw(BStr(vec![])))));
                t.push(ent(idx_for(1, 2), b"..dd", EKind::Dir));
                t.push(ent(idx_for(1, 2), b"x", EKind::Fifo));
                let p = PathSpec::simple(2, idx_for(1, 4), &[]);
                out.push(Case { tree: t, ops: vec![Op::ReadDir { p }] });
            }
        }
    }
    out
}

fn directed(ctx: &Ctx, env: &Env, name: &str, cases: Vec<Case>) {
    if ctx.is_replay() {
        if let Some(c) = ctx.replay_case::<Case>(name) {
            ctx.run_one(name, &c, || run_case(env, &c));
        }
        return;
    }
    let total = cases.len();
    let mut seen: BTreeSet<String> = BTreeSet::new();
    for (i, c) in cases.iter().enumerate() {
        if i % ctx.nworkers as usize != ctx.worker as usize {
            continue;
        }
        // journal first (a crash must leave the input), run once, and hand the result to the
        // bookkeeping; only the first (smallest) case of each failure signature is reported
        let js = format!("{{\"property\":{:?},\"check\":{:?},\"case\":{}}}", ctx.prop, name, serde_json::to_string(c).unwrap());
        journal_set(js.as_bytes());
        let res: CaseResult = match catch(|| run_case(env, c)) {
            Ok(r) => r,
            Err((loc, msg)) => Err(Failure::new(format!("{name}|panic|{loc}"), format!("panicked at {loc}: {msg}"))),
        };
        if let Err(f) = &res {
            if !seen.insert(f.sig.clone()) {
                continue;
            }
        }
        ctx.run_one(name, c, move || res);
    }
    if !ctx.has_failure() {
        ctx.note_exhaustive(format!("{name}: all {total} enumerated shapes (split over the workers)"));
    }
}

pub fn run(ctx: &Ctx) {
    let thorough = ctx.thorough();
    let max_many: u16 = if thorough { 3000 } else { 300 };
    let big: u32 = if thorough { 1_500_000 } else { 120_000 };
    let env = Env::new(ctx.worker, max_many as usize);
    let f = |c: &Case| run_case(&env, c);
    // diagnostics only (never part of a verdict): C14_TIMING=1 prints seconds per sub-check
    let t0 = std::time::Instant::now();
    let timing = std::env::var_os("C14_TIMING").is_some();
    let lap = |what: &str| {
        if timing {
            let mut ru: libc::rusage = unsafe { core::mem::zeroed() };
            unsafe { libc::getrusage(libc::RUSAGE_SELF, &mut ru) };
            let cpu = ru.ru_utime.tv_sec as f64 + ru.ru_stime.tv_sec as f64 + (ru.ru_utime.tv_usec + ru.ru_stime.tv_usec) as f64 / 1e6;
            eprintln!("[c14 worker {}] wall {:>8.2}s cpu {:>8.2}s evals {:>6} after {what}", ctx.worker, t0.elapsed().as_secs_f64(), cpu, ctx.stats.borrow().evaluations);
        }
    };

    // deterministic shapes
    directed(ctx, &env, "create_dir_all-shapes", shapes_create_dir_all());
    lap("create_dir_all-shapes");
    directed(ctx, &env, "copy-shapes", shapes_copy());
    lap("copy-shapes");
    directed(ctx, &env, "write-read-shapes", shapes_write_read());
    lap("write-read-shapes");
    directed(ctx, &env, "remove_dir_all-shapes", shapes_remove_dir_all(max_many));
    lap("remove_dir_all-shapes");
    directed(ctx, &env, "readdir-shapes", shapes_readdir(max_many));
    lap("readdir-shapes");

    // random, one family per sub-check
    ctx.run_prop("create_dir_all", ctx.cases(200, 2_500), case_of(tree(6, 0, 0, 5000), op_cda(), 4), f);
    lap("create_dir_all");
    ctx.run_prop("copy", ctx.cases(150, 1_600), case_of(tree_with_files(5, big), op_copy(), 4), f);
    lap("copy");
    ctx.run_prop("write-read", ctx.cases(150, 1_600), case_of(tree_with_files(5, big), prop_oneof![op_write(big), op_read()], 6), f);
    lap("write-read");
    ctx.run_prop("remove_dir_all", ctx.cases(80, 700), case_of(tree(12, max_many, 1, 5000), op_rda(), 3), f);
    lap("remove_dir_all");
    ctx.run_prop("readdir", ctx.cases(60, 500), case_of(tree(8, max_many, 2, 5000), op_readdir(), 3), f);
    lap("readdir");
    ctx.run_prop("rename-misc", ctx.cases(200, 2_000), case_of(tree(10, 40, 1, 5000), op_misc(), 8), f);
    lap("rename-misc");
    // OpenOptions, the mechanism behind write/copy/open: every switch combination on every kind of path, then generated
    if ctx.is_replay() {
        if let Some(c) = ctx.replay_case::<oo::OoCase>("open-options-grid") {
            ctx.run_one("open-options-grid", &c, || oo::check(&env, &c));
        }
    } else {
        let grid = oo::grid();
        let total = grid.len();
        let mut seen: BTreeSet<String> = BTreeSet::new();
        for (i, c) in grid.iter().enumerate() {
            if i % ctx.nworkers as usize != ctx.worker as usize {
                continue;
            }
            let res: CaseResult = match catch(|| oo::check(&env, c)) {
                Ok(r) => r,
                Err((loc, msg)) => Err(Failure::new(format!("open-options-grid|panic|{loc}"), format!("panicked at {loc}: {msg}"))),
            };
            if let Err(f) = &res {
                if !seen.insert(f.sig.clone()) {
                    continue;
                }
            }
            ctx.run_one("open-options-grid", c, move || res);
        }
        if !ctx.has_failure() {
            ctx.note_exhaustive(format!("open-options-grid: all 64 switch combinations x 5 kinds of existing path = {total} cases (split over the workers)"));
        }
    }
    // things whose size stat does not announce: a fifo with a writer, procfs files
    if let Some(c) = ctx.replay_case::<special::SpecialCase>("read-special") {
        ctx.run_one("read-special", &c, || special::check(&env, &c));
    } else if !ctx.is_replay() {
        for (i, c) in special::cases().iter().enumerate() {
            if i % ctx.nworkers as usize != ctx.worker as usize {
                continue;
            }
            if !ctx.run_one("read-special", c, || special::check(&env, c)) {
                break;
            }
        }
    }
    ctx.run_prop("open-options", ctx.cases(300, 5_000), oo::strategy(), |c: &oo::OoCase| oo::check(&env, c));
    lap("open-options");
    // mixed histories
    ctx.run_prop("history", ctx.cases(150, 1_600), case_of(tree(12, max_many, 1, big), op_any(big), 30), f);
    lap("history");
}
