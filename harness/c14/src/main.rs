//! Harness binary for property C14. `c14 C14 [--seed N --worker I --nworkers N --tier T --out F --replay F]`.
mod check;

fn main() {
    vh::runner::main_for(|ctx| check::run(ctx));
}
