//! Multi-threaded allocator churn through the process's global allocator, which is
//! tiny-std's `GlobalDlMalloc` (see Cargo.toml). Reads a JSON case on stdin:
//! `{"threads":[{"blocks":[[size,align_log2],..],"free_mode":0|1|2,"free_seed":n},..],"rounds":R}`
//! and prints one JSON line with the peak of (bytes mapped - bytes unmapped) observed after
//! every allocation, process wide, relative to the level at start.
use std::alloc::{alloc, alloc_zeroed, dealloc, realloc, Layout};
use std::io::Read;
use std::sync::atomic::{AtomicUsize, Ordering};
use std::sync::Arc;

// force the tiny-std crate (and with it the #[global_allocator]) to be linked
use tiny_std as _;

#[derive(serde::Deserialize)]
struct ThreadW {
    blocks: Vec<(usize, u8)>,
    free_mode: u8,
    free_seed: u64,
}

#[derive(serde::Deserialize)]
struct Case {
    threads: Vec<ThreadW>,
    rounds: u64,
    #[serde(default)]
    verify: bool,
    /// stop as soon as the held memory exceeds this many bytes (0 = never)
    #[serde(default)]
    bound: usize,
}

fn held() -> usize {
    sc::verif::MAPPED.load(Ordering::Relaxed).wrapping_sub(sc::verif::UNMAPPED.load(Ordering::Relaxed))
}

fn splitmix(mut x: u64) -> u64 {
    x = x.wrapping_add(0x9E37_79B9_7F4A_7C15);
    let mut z = x;
    z = (z ^ (z >> 30)).wrapping_mul(0xBF58_476D_1CE4_E5B9);
    z = (z ^ (z >> 27)).wrapping_mul(0x94D0_49BB_1331_11EB);
    z ^ (z >> 31)
}

extern "C" {
    fn alarm(seconds: u32) -> u32;
}

fn main() {
    // never outlive the driver by much: an orphaned churn process would burn cores for ever
    unsafe { alarm(600) };
    let mut txt = String::new();
    std::io::stdin().read_to_string(&mut txt).unwrap();
    let case: Case = serde_json::from_str(&txt).expect("case json");
    let rounds = case.rounds;
    let verify = case.verify;
    let bound = case.bound;
    let peak = Arc::new(AtomicUsize::new(0));
    let corrupt = Arc::new(AtomicUsize::new(0));
    // everything allocated so far (runtime, parsed case) is the baseline demand
    let base = held();
    let mut handles = Vec::new();
    for (ti, t) in case.threads.into_iter().enumerate() {
        let peak = peak.clone();
        let corrupt = corrupt.clone();
        handles.push(std::thread::spawn(move || {
            let n = t.blocks.len();
            let mut order: Vec<usize> = (0..n).collect();
            match t.free_mode {
                0 => {}
                1 => order.reverse(),
                _ => {
                    let mut s = t.free_seed;
                    for i in (1..n).rev() {
                        s = splitmix(s);
                        order.swap(i, (s % (i as u64 + 1)) as usize);
                    }
                }
            }
            let mut layouts: Vec<Layout> = t.blocks.iter().map(|&(s, a)| Layout::from_size_align(s.max(1), 1usize << a.min(13)).unwrap()).collect();
            let orig = layouts.clone();
            let mut ptrs: Vec<*mut u8> = vec![std::ptr::null_mut(); n];
            let mut local_peak = 0usize;
            for r in 0..rounds {
                for j in 0..n {
                    // every entry point of the global allocator in turn: alloc, alloc_zeroed, and
                    // alloc followed by a growing / shrinking realloc (the block keeps its tag bytes)
                    layouts[j] = orig[j];
                    let how = if orig[j].size() <= (32 << 10) { (j as u64 + r) % 4 } else { 0 };
                    let mut p = unsafe { if how == 1 { alloc_zeroed(layouts[j]) } else { alloc(layouts[j]) } };
                    assert!(!p.is_null(), "allocation failed");
                    if verify {
                        let sz = layouts[j].size();
                        if p as usize % layouts[j].align() != 0 {
                            corrupt.fetch_add(1, Ordering::Relaxed);
                        }
                        if how == 1 && unsafe { p.read() != 0 || p.add(sz - 1).read() != 0 || p.add(sz / 2).read() != 0 } {
                            corrupt.fetch_add(1, Ordering::Relaxed);
                        }
                        if how >= 2 && sz <= (32 << 10) {
                            let first = 0x40 | (j as u8 & 0x3f);
                            unsafe { p.write(first) };
                            let new_size = if how == 2 { sz * 2 + 1 } else { (sz / 2).max(1) };
                            let q = unsafe { realloc(p, layouts[j], new_size) };
                            assert!(!q.is_null(), "reallocation failed");
                            if q as usize % layouts[j].align() != 0 || unsafe { q.read() } != first {
                                corrupt.fetch_add(1, Ordering::Relaxed);
                            }
                            p = q;
                            layouts[j] = Layout::from_size_align(new_size, layouts[j].align()).unwrap();
                        }
                    }
                    if verify {
                        let tag = (ti as u8) ^ (j as u8) ^ (r as u8) | 1;
                        unsafe {
                            p.write(tag);
                            p.add(layouts[j].size() - 1).write(tag);
                        }
                    }
                    ptrs[j] = p;
                    let h = held().wrapping_sub(base);
                    if h > local_peak && h < usize::MAX / 2 {
                        local_peak = h;
                        if bound != 0 && h > bound {
                            // already over the bound: report at once instead of churning on
                            println!("{{\"peak\":{},\"base\":{},\"corrupt\":0,\"end\":{},\"round\":{}}}", h, base, h, r);
                            std::process::exit(0);
                        }
                    }
                }
                for &k in &order {
                    if verify {
                        let tag = (ti as u8) ^ (k as u8) ^ (r as u8) | 1;
                        unsafe {
                            if ptrs[k].read() != tag || ptrs[k].add(layouts[k].size() - 1).read() != tag {
                                corrupt.fetch_add(1, Ordering::Relaxed);
                            }
                        }
                    }
                    unsafe { dealloc(ptrs[k], layouts[k]) };
                }
            }
            peak.fetch_max(local_peak, Ordering::Relaxed);
        }));
    }
    for h in handles {
        h.join().unwrap();
    }
    println!("{{\"peak\":{},\"base\":{},\"corrupt\":{},\"end\":{}}}", peak.load(Ordering::Relaxed), base, corrupt.load(Ordering::Relaxed), held().wrapping_sub(base));
}
