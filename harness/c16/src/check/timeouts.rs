//! Sub-check "timeouts": the time-limited variants that exist in tiny_std::net
//! (`UnixListener::accept_with_timeout`, `TcpListener::accept_with_timeout`,
//! `TcpStream::connect_with_timeout`, `TcpStream::read_with_timeout`) against a silent peer
//! must report `Error::Timeout`, and not before the requested time has passed on the monotonic
//! clock. No upper bound is asserted.
use std::time::{Duration, Instant};

use proptest::prelude::*;
use serde::{Deserialize, Serialize};
use tiny_std::net::{TcpStream, UnixListener};
use vh::runner::{no_panic, CaseReport, CaseResult};

use super::common::*;
use super::stream::{bind_tiny, establish, loopback, Tiny, TinyListener};

#[derive(Debug, Clone, Serialize, Deserialize)]
pub struct TimeoutCase {
    /// 0 unix accept, 1 tcp accept, 2 tcp connect, 3 tcp read
    pub op: u8,
    pub micros: u32,
    pub nanos: u16,
    /// 0 none; 1 the first ppoll is answered EINTR without executing; 2 the first ppoll really
    /// waits and is then answered EINTR (the kernel has written the remaining time back)
    pub eintr: u8,
}

pub fn run_timeout(c: &TimeoutCase) -> CaseResult {
    match inner(c) {
        Ok(r) => Ok(r),
        Err(Stop::Fail(f)) => Err(f),
        Err(Stop::Inconclusive(why)) => {
            let mut r = CaseReport::new();
            r.class("inconclusive-environment");
            eprintln!("[C16 timeouts] inconclusive: {why}");
            Ok(r)
        }
    }
}

fn plan_eintr(mode: u8) {
    let e = sc::verif::neg_errno(EINTR);
    match mode {
        1 => sc::verif::plan(vec![sc::verif::Rule { nr: Some(sc::nr::PPOLL), nth: Some(0), action: sc::verif::Action::ForceRet(e), times: 1 }]),
        2 => sc::verif::plan(vec![sc::verif::Rule { nr: Some(sc::nr::PPOLL), nth: Some(0), action: sc::verif::Action::ExecThenRet(e), times: 1 }]),
        _ => sc::verif::clear_plan(),
    }
}

fn inner(c: &TimeoutCase) -> Result<CaseReport, Stop> {
    let mut rep = CaseReport::new();
    let _guard = PlanGuard;
    let dir = CaseDir::new();
    let d = Duration::new(0, c.micros * 1000 + c.nanos as u32);
    let opname;
    // everything the call needs is set up first; the timed region contains only the call
    let (res, elapsed): (Result<bool, tiny_std::Error>, Duration) = match c.op {
        0 | 1 => {
            let mut b = bind_tiny(c.op == 1, &dir)?;
            opname = if c.op == 1 { "TcpListener::accept_with_timeout" } else { "UnixListener::accept_with_timeout" };
            plan_eintr(c.eintr);
            let t0 = Instant::now();
            let r = no_panic(opname, || match &mut b.l {
                TinyListener::U(l) => UnixListener::accept_with_timeout(l, d).map(|_s| true),
                TinyListener::T(l) => l.accept_with_timeout(d).map(|_s| true),
            });
            let el = t0.elapsed();
            (r?, el)
        }
        2 => {
            opname = "TcpStream::connect_with_timeout";
            // silent peer: a listener whose accept queue is full drops further SYNs
            let (l, port) = libc_tcp_listener(0)?;
            let _filler = libc_tcp_connect(port, false).map_err(|e| Stop::Inconclusive(format!("filler connect: errno {e}")))?;
            let _filler2 = libc_tcp_connect(port, true).map_err(|e| Stop::Inconclusive(format!("filler connect: errno {e}")))?;
            let addr = loopback(port);
            plan_eintr(c.eintr);
            let t0 = Instant::now();
            let r = no_panic(opname, || TcpStream::connect_with_timeout(&addr, d).map(|_s| true));
            let el = t0.elapsed();
            drop(l);
            (r?, el)
        }
        _ => {
            opname = "TcpStream::read_with_timeout";
            let (tiny, _peer) = establish(true, true, &dir)?;
            let Tiny::T(mut s) = tiny else { unreachable!() };
            let mut buf = [0u8; 64];
            plan_eintr(c.eintr);
            let t0 = Instant::now();
            let r = no_panic(opname, || s.read_with_timeout(&mut buf, d).map(|_n| true));
            let el = t0.elapsed();
            (r?, el)
        }
    };
    let served = sc::verif::forced_count();
    sc::verif::clear_plan();
    match res {
        Err(e) => match ek(&e) {
            EK::Timeout => {
                if elapsed < d {
                    return Err(stop_fail(format!("{opname}|early-timeout|returned before the limit"), format!("{opname}({d:?}) returned Timeout after {elapsed:?} on the monotonic clock")));
                }
                rep.nontrivial = true;
                rep.class("timed-out");
            }
            k if is_resource(&k) => return Err(Stop::Inconclusive(format!("{opname}: {e}"))),
            k => {
                // the peer is silent: the only ways out are Timeout or a (resource) error
                return Err(stop_fail(format!("{opname}|{}|silent peer", ek_name(&k)), format!("{opname}({d:?}) against a silent peer returned {e} after {elapsed:?}, expected Timeout")));
            }
        },
        Ok(_) => {
            if c.op == 2 {
                // the kernel let the connection through after all: says nothing about timeouts
                rep.class("connect-completed-peer-not-silent");
            } else {
                return Err(stop_fail(format!("{opname}|completed|silent peer"), format!("{opname}({d:?}) completed although the peer never acted")));
            }
        }
    }
    rep.class(match c.op {
        0 => "unix-accept",
        1 => "tcp-accept",
        2 => "tcp-connect",
        _ => "tcp-read",
    });
    rep.class_if(c.eintr == 1 && served > 0, "eintr-before-wait");
    rep.class_if(c.eintr == 2 && served > 0, "eintr-after-wait");
    rep.class_if(c.micros < 2000, "limit<2ms");
    Ok(rep)
}

pub fn timeout_strategy() -> impl Strategy<Value = TimeoutCase> {
    (0u8..4, prop_oneof![3 => 1000u32..5000, 3 => 5000u32..20_000, 1 => 20_000u32..=80_000], 0u16..1000, prop_oneof![3 => Just(0u8), 1 => Just(1u8), 1 => Just(2u8)]).prop_map(|(op, micros, nanos, eintr)| TimeoutCase { op, micros, nanos, eintr })
}
