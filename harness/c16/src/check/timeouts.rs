//! Sub-check "timeouts": the time-limited variants that exist in tiny_std::net
//! (`UnixListener::accept_with_timeout`, `TcpListener::accept_with_timeout`,
//! `TcpStream::connect_with_timeout`, `TcpStream::read_with_timeout`) against a silent peer
//! must report `Error::Timeout`, and not before the requested time has passed on the monotonic
//! clock. No upper bound is asserted.
use std::time::{Duration, Instant};

use proptest::prelude::*;
use serde::{Deserialize, Serialize};
use tiny_std::net::{TcpStream, UnixListener};
use vh::runner::{no_panic, CaseReport, CaseResult};

use super::common::*;
use super::stream::{bind_tiny, establish, loopback, Tiny, TinyListener};

#[derive(Debug, Clone, Serialize, Deserialize)]
pub struct TimeoutCase {
    /// 0 unix accept, 1 tcp accept, 2 tcp connect, 3 tcp read
    pub op: u8,
    pub micros: u32,
    pub nanos: u16,
    /// 0 none; 1 the first ppoll is answered EINTR without executing; 2 the first ppoll really
    /// waits and is then answered EINTR (the kernel has written the remaining time back);
    /// 3 real signals (no SA_RESTART) hit the waiting thread at 20 %, 45 % and 70 % of the limit
    pub eintr: u8,
    /// for op 3: how the timed stream was obtained: 0 connect, 1 accept, 2 try_accept,
    /// 3 accept_with_timeout
    #[serde(default)]
    pub origin: u8,
    /// what happens on the same listener / stream after the first call timed out (ops 0, 1, 3):
    /// 0 nothing; 1 the same timed call again (it has to wait its whole limit again); 2 the peer acts
    /// (connects / sends three bytes) and the timed call with a long limit must deliver that; 3 (op 3) the peer
    /// sends three bytes and a plain `read` must deliver them
    #[serde(default)]
    pub again: u8,
    /// not 0 (ops 0, 1, 3): the limit is HUGE[huge - 1] - centuries and more, values at which a conversion to
    /// nanoseconds or milliseconds wraps - and the peer acts 25 ms into the call: the call must deliver (or refuse the
    /// limit with an error of its own), never report Timeout
    #[serde(default)]
    pub huge: u8,
}

/// (seconds, nanoseconds): multiples of 2^55 s (= 0 modulo 2^64 ns) with and without a small remainder, the ends of
/// the signed and unsigned ranges
pub const HUGE: [(u64, u32); 7] = [(1 << 55, 0), (1 << 56, 5_000_000), ((1u64 << 63) - (1 << 55), 0), (u64::MAX, 999_999_999), (i64::MAX as u64, 0), (1 << 60, 1), (18_446_744_074, 0)];

pub fn run_timeout(c: &TimeoutCase) -> CaseResult {
    match inner(c) {
        Ok(r) => Ok(r),
        Err(Stop::Fail(f)) => Err(f),
        Err(Stop::Inconclusive(why)) => {
            let mut r = CaseReport::new();
            r.class("inconclusive-environment");
            eprintln!("[C16 timeouts] inconclusive: {why}");
            Ok(r)
        }
    }
}

fn plan_eintr(mode: u8, limit: Duration) -> Option<Interrupter> {
    let e = sc::verif::neg_errno(EINTR);
    if mode == 3 {
        // real signals at 20 %, 45 % and 70 % of the limit: the wait is interrupted several times
        // after real time has passed (only the lower bound on the total is judged)
        sc::verif::clear_plan();
        let us = limit.as_micros() as u64;
        return Some(Interrupter::start(vec![us / 5, us * 9 / 20, us * 7 / 10]));
    }
    match mode {
        1 => sc::verif::plan(vec![sc::verif::Rule { nr: Some(sc::nr::PPOLL), nth: Some(0), action: sc::verif::Action::ForceRet(e), times: 1 }]),
        2 => sc::verif::plan(vec![sc::verif::Rule { nr: Some(sc::nr::PPOLL), nth: Some(0), action: sc::verif::Action::ExecThenRet(e), times: 1 }]),
        _ => sc::verif::clear_plan(),
    }
    None
}

fn inner_huge(c: &TimeoutCase) -> Result<CaseReport, Stop> {
    let mut rep = CaseReport::new();
    let _guard = PlanGuard;
    sc::verif::clear_plan();
    let dir = CaseDir::new();
    let (secs, nanos) = HUGE[(c.huge as usize - 1) % HUGE.len()];
    let d = Duration::new(secs, nanos);
    let t0 = Instant::now();
    let (opname, res): (&str, Result<bool, tiny_std::Error>) = if c.op == 3 {
        let (tiny, peer) = establish(true, true, &dir)?;
        let Tiny::T(mut s) = tiny else { unreachable!() };
        let pfd = peer.fd();
        let h = std::thread::spawn(move || {
            std::thread::sleep(Duration::from_millis(25));
            unsafe { libc::write(pfd, b"x".as_ptr().cast(), 1) };
        });
        let mut buf = [0u8; 8];
        let r = no_panic("TcpStream::read_with_timeout", || s.read_with_timeout(&mut buf, d).map(|n| n == 1 && buf[0] == b'x'));
        let _ = h.join();
        drop(peer);
        ("TcpStream::read_with_timeout", r?)
    } else {
        let mut b = bind_tiny(c.op == 1, &dir)?;
        let (path, port) = (b.path.clone(), b.port);
        let h = std::thread::spawn(move || {
            std::thread::sleep(Duration::from_millis(25));
            let c = if path.is_empty() { libc_tcp_connect(port, false) } else { libc_unix_connect(&path) };
            std::thread::sleep(Duration::from_millis(100));
            drop(c);
        });
        let name = if c.op == 1 { "TcpListener::accept_with_timeout" } else { "UnixListener::accept_with_timeout" };
        let r = no_panic(name, || match &mut b.l {
            TinyListener::U(l) => UnixListener::accept_with_timeout(l, d).map(|_s| true),
            TinyListener::T(l) => l.accept_with_timeout(d).map(|_s| true),
        });
        let _ = h.join();
        (name, r?)
    };
    let el = t0.elapsed();
    match res {
        Ok(true) => rep.class("huge-limit-and-the-peer-acts: served"),
        Ok(false) => return Err(stop_fail(format!("{opname}|wrong-bytes|huge limit"), format!("{opname}({d:?}): the peer sent one byte 'x' 25 ms into the call, something else came back"))),
        Err(e) => match ek(&e) {
            EK::Timeout => {
                return Err(stop_fail(format!("{opname}|early-timeout|returned before the limit"), format!("{opname}({d:?}) returned Timeout after {el:?} on the monotonic clock (the peer acts 25 ms into the call; the limit is {secs} s + {nanos} ns)")));
            }
            k if is_resource(&k) => return Err(Stop::Inconclusive(format!("{opname}: {e}"))),
            // a limit the implementation cannot represent may be refused with an error of its own
            _ => rep.class("huge-limit-refused-with-an-error"),
        },
    }
    rep.nontrivial = true;
    rep.class(match c.op {
        0 => "unix-accept",
        1 => "tcp-accept",
        _ => "tcp-read",
    });
    Ok(rep)
}

fn inner(c: &TimeoutCase) -> Result<CaseReport, Stop> {
    if c.huge != 0 && c.op != 2 {
        return inner_huge(c);
    }
    let mut rep = CaseReport::new();
    let _guard = PlanGuard;
    let dir = CaseDir::new();
    let d = Duration::new(0, c.micros * 1000 + c.nanos as u32);
    let opname;
    // everything the call needs is set up first; the timed region contains only the call
    let (res, elapsed): (Result<bool, tiny_std::Error>, Duration) = match c.op {
        0 | 1 => {
            let mut b = bind_tiny(c.op == 1, &dir)?;
            opname = if c.op == 1 { "TcpListener::accept_with_timeout" } else { "UnixListener::accept_with_timeout" };
            // nobody connects: a call still parked in an untimed wait long after the limit can only
            // be released by a connection, which the harness then makes
            let (path, port) = (b.path.clone(), b.port);
            let hw = HangWatch::start(d + Duration::from_millis(1500), || true, move || {
                let c = if path.is_empty() { libc_tcp_connect(port, false) } else { libc_unix_connect(&path) };
                std::thread::sleep(Duration::from_millis(300));
                drop(c);
            });
            let intr = plan_eintr(c.eintr, d);
            sc::verif::log_begin();
            let t0 = Instant::now();
            let r = no_panic(opname, || match &mut b.l {
                TinyListener::U(l) => UnixListener::accept_with_timeout(l, d).map(|_s| true),
                TinyListener::T(l) => l.accept_with_timeout(d).map(|_s| true),
            });
            let el = t0.elapsed();
            let call_log = sc::verif::log_end();
            drop(intr);
            if let Some(wait) = hw.finish() {
                sc::verif::clear_plan();
                return Err(stop_fail(format!("{opname}|never-timed-out|blocked in an untimed wait"), format!("{opname}({d:?}) with nobody connecting was still parked in {wait} {el:?} after the call; it came back only when the harness connected")));
            }
            // as for the read below: a connection the kernel's accept itself handed out was made by somebody
            // (a foreign client on this port); only a completion without one is the call's own doing
            if matches!(&r, Ok(Ok(_))) && call_log.iter().any(|k| (k.nr == sc::nr::ACCEPT4 || k.nr == sc::nr::ACCEPT) && k.executed && (k.ret as isize) >= 0) {
                sc::verif::clear_plan();
                return Err(Stop::Inconclusive(format!("{opname}: accept(2) itself returned a connection although this case connects nobody: a foreign client")));
            }
            let first = r?;
            if c.again != 0 && matches!(&first, Err(e) if ek(e) == EK::Timeout) && el >= d {
                sc::verif::clear_plan();
                let (path, port) = (b.path.clone(), b.port);
                if c.again == 1 {
                    let hw = HangWatch::start(d + Duration::from_millis(1500), || true, move || {
                        let c = if path.is_empty() { libc_tcp_connect(port, false) } else { libc_unix_connect(&path) };
                        std::thread::sleep(Duration::from_millis(300));
                        drop(c);
                    });
                    sc::verif::log_begin();
                    let t1 = Instant::now();
                    let r2 = no_panic(opname, || match &mut b.l {
                        TinyListener::U(l) => UnixListener::accept_with_timeout(l, d).map(|_s| true),
                        TinyListener::T(l) => l.accept_with_timeout(d).map(|_s| true),
                    });
                    let el2 = t1.elapsed();
                    let log2 = sc::verif::log_end();
                    let accepted_by_kernel = log2.iter().any(|k| (k.nr == sc::nr::ACCEPT4 || k.nr == sc::nr::ACCEPT) && k.executed && (k.ret as isize) >= 0);
                    if let Some(wait) = hw.finish() {
                        return Err(stop_fail(format!("{opname}|never-timed-out|second call on the same listener"), format!("the second {opname}({d:?}) on a listener whose first timed accept had timed out was still parked in {wait} {el2:?} after the call")));
                    }
                    match r2? {
                        Err(e) if ek(&e) == EK::Timeout => {
                            if el2 < d {
                                return Err(stop_fail(format!("{opname}|early-timeout|second call on the same listener"), format!("the second {opname}({d:?}) on the same listener returned Timeout after {el2:?} (the first one after {el:?})")));
                            }
                        }
                        Err(e) if is_resource(&ek(&e)) => return Err(Stop::Inconclusive(format!("{opname}: {e}"))),
                        Err(e) => return Err(stop_fail(format!("{opname}|{}|second call on the same listener", ek_name(&ek(&e))), format!("the second {opname}({d:?}) with nobody connecting returned {e}"))),
                        Ok(_) if accepted_by_kernel => return Err(Stop::Inconclusive(format!("{opname}: accept(2) itself returned a connection although this case connects nobody: a foreign client"))),
                        Ok(_) => return Err(stop_fail(format!("{opname}|completed|silent peer"), format!("the second {opname}({d:?}) completed although nobody connected"))),
                    }
                    rep.class("second-timed-call-on-the-same-object");
                } else {
                    let cl = b.libc_connect()?;
                    let r2 = no_panic(opname, || match &mut b.l {
                        TinyListener::U(l) => UnixListener::accept_with_timeout(l, Duration::from_secs(3)).map(|_s| true),
                        TinyListener::T(l) => l.accept_with_timeout(Duration::from_secs(3)).map(|_s| true),
                    })?;
                    drop(cl);
                    match r2 {
                        Ok(_) => rep.class("peer-acts-after-a-timeout-and-is-served"),
                        Err(e) if is_resource(&ek(&e)) => return Err(Stop::Inconclusive(format!("{opname}: {e}"))),
                        Err(e) => return Err(stop_fail(format!("{opname}|{}|connection pending, after an earlier timeout", ek_name(&ek(&e))), format!("after a first {opname}({d:?}) had timed out a client connected; {opname}(3 s) on the same listener returned {e}"))),
                    }
                }
            }
            (first, el)
        }
        2 if c.again == 1 => {
            // the other way a connect ends without a stream: nobody listens on the port (refused at once)
            opname = "TcpStream::connect";
            let (l, port) = libc_tcp_listener(1)?;
            drop(l);
            let addr = loopback(port);
            sc::verif::clear_plan();
            sc::verif::log_begin();
            let r = no_panic(opname, || TcpStream::connect(&addr).map(|_s| true));
            let log = sc::verif::log_end();
            no_double_close(opname, &log)?;
            sc::verif::log_begin();
            let r2 = no_panic("TcpStream::connect_with_timeout", || TcpStream::connect_with_timeout(&addr, d).map(|_s| true));
            let log = sc::verif::log_end();
            no_double_close("TcpStream::connect_with_timeout", &log)?;
            match (r?, r2?) {
                (Err(e), Err(e2)) if ek(&e) == EK::Os(libc::ECONNREFUSED) && ek(&e2) == EK::Os(libc::ECONNREFUSED) => {
                    rep.nontrivial = true;
                    rep.class("connect-refused");
                    return Ok(rep);
                }
                (Ok(_), _) | (_, Ok(_)) => return Err(Stop::Inconclusive("somebody listens on the port that was just released".into())),
                (Err(e), Err(e2)) => {
                    if is_resource(&ek(&e)) || is_resource(&ek(&e2)) {
                        return Err(Stop::Inconclusive(format!("{opname}: {e} / {e2}")));
                    }
                    return Err(stop_fail(format!("{opname}|{}|nobody listens", ek_name(&ek(&e))), format!("connect to 127.0.0.1:{port} where nobody listens returned {e} (plain) and {e2} (with a limit of {d:?}), expected ECONNREFUSED from both")));
                }
            }
        }
        2 => {
            opname = "TcpStream::connect_with_timeout";
            // silent peer: a listener whose accept queue is full drops further SYNs
            let (l, port) = libc_tcp_listener(0)?;
            let _filler = libc_tcp_connect(port, false).map_err(|e| Stop::Inconclusive(format!("filler connect: errno {e}")))?;
            let _filler2 = libc_tcp_connect(port, true).map_err(|e| Stop::Inconclusive(format!("filler connect: errno {e}")))?;
            let addr = loopback(port);
            let intr = plan_eintr(c.eintr, d);
            sc::verif::log_begin();
            let t0 = Instant::now();
            let r = no_panic(opname, || TcpStream::connect_with_timeout(&addr, d).map(|_s| true));
            let el = t0.elapsed();
            let log = sc::verif::log_end();
            drop(intr);
            no_double_close(opname, &log)?;
            drop(l);
            (r?, el)
        }
        _ => {
            opname = "TcpStream::read_with_timeout";
            // the stream under the timed read comes from each way the API hands out TCP streams
            let (mut s, peer) = match c.origin {
                0 => {
                    let (tiny, peer) = establish(true, true, &dir)?;
                    let Tiny::T(s) = tiny else { unreachable!() };
                    (s, peer)
                }
                1 => {
                    let (tiny, peer) = establish(true, false, &dir)?;
                    let Tiny::T(s) = tiny else { unreachable!() };
                    (s, peer)
                }
                o => {
                    let mut b = bind_tiny(true, &dir)?;
                    let peer = b.libc_connect()?;
                    let TinyListener::T(l) = &mut b.l else { unreachable!() };
                    // the connection is established by the time the libc connect returned
                    let mut got = None;
                    for _ in 0..200 {
                        let r = if o == 2 {
                            no_panic("TcpListener::try_accept", || l.try_accept())?.map_err(|e| unexpected("TcpListener::try_accept", &e, "pending connection"))?
                        } else {
                            Some(no_panic("TcpListener::accept_with_timeout", || l.accept_with_timeout(Duration::from_secs(5)))?.map_err(|e| unexpected("TcpListener::accept_with_timeout", &e, "pending connection"))?)
                        };
                        if let Some(s) = r {
                            got = Some(s);
                            break;
                        }
                        std::thread::sleep(Duration::from_millis(1));
                    }
                    let Some(s) = got else { return Err(Stop::Inconclusive("try_accept never saw the pending connection".into())) };
                    if !tcp_same_connection(tiny_std::unix::fd::AsRawFd::as_raw_fd(&s).value(), peer.fd()) {
                        return Err(Stop::Inconclusive("the connection the listener handed out is not the one the case made (a foreign client on the port)".into()));
                    }
                    (s, peer)
                }
            };
            let mut buf = [0u8; 64];
            // watchdog: the peer is silent by construction, so a call that is still inside an
            // untimed read(2) long after the limit can only be released by the peer: definitive
            let tid = unsafe { libc::syscall(libc::SYS_gettid) } as i32;
            let returned = std::sync::Arc::new(std::sync::atomic::AtomicBool::new(false));
            let stuck = std::sync::Arc::new(std::sync::atomic::AtomicBool::new(false));
            let (r2, s2, pfd) = (returned.clone(), stuck.clone(), peer.fd());
            let limit = d;
            let wd = std::thread::spawn(move || {
                let deadline = Instant::now() + limit + Duration::from_millis(1500);
                while Instant::now() < deadline {
                    if r2.load(std::sync::atomic::Ordering::SeqCst) {
                        return;
                    }
                    std::thread::sleep(Duration::from_millis(5));
                }
                for _ in 0..2 {
                    if r2.load(std::sync::atomic::Ordering::SeqCst) {
                        return;
                    }
                    let sc = std::fs::read_to_string(format!("/proc/self/task/{tid}/syscall")).unwrap_or_default();
                    if !sc.starts_with("0 ") {
                        return; // not parked in read(2): leave it to the outer time limit
                    }
                    std::thread::sleep(Duration::from_millis(200));
                }
                s2.store(true, std::sync::atomic::Ordering::SeqCst);
                // release the call: the silent peer speaks
                unsafe { libc::write(pfd, b"!".as_ptr().cast(), 1) };
            });
            let intr = plan_eintr(c.eintr, d);
            sc::verif::log_begin();
            let t0 = Instant::now();
            let r = no_panic(opname, || s.read_with_timeout(&mut buf, d));
            let el = t0.elapsed();
            let call_log = sc::verif::log_end();
            drop(intr);
            returned.store(true, std::sync::atomic::Ordering::SeqCst);
            let _ = wd.join();
            // A completed read is judged by where its result came from. The peer of this case never writes and
            // keeps its end open. If read(2) itself returned that count, the kernel delivered bytes (or an end of
            // file) that somebody else put on this connection - a foreign client on the listener's port, a stray
            // write - and the call did what it must: nothing to judge. A completed call WITHOUT such a read(2)
            // result (a timeout turned into Ok, a count made up) is the violation.
            if let Ok(Ok(n)) = &r {
                let from_kernel = call_log.iter().rev().find(|k| k.nr == sc::nr::READ && k.executed).map(|k| k.ret as isize);
                if !stuck.load(std::sync::atomic::Ordering::SeqCst) && from_kernel == Some(*n as isize) {
                    sc::verif::clear_plan();
                    return Err(Stop::Inconclusive(format!("{opname}: read(2) itself returned {n} on a connection whose peer (of this case) never wrote: somebody else acted on it")));
                }
            }
            rep.class_if(call_log.iter().any(|k| k.nr == sc::nr::READ), "timed-read-with-its-system-calls-recorded");
            let r = r.map(|x| x.map(|_n| true));
            if c.again != 0 && !stuck.load(std::sync::atomic::Ordering::SeqCst) && matches!(&r, Ok(Err(e)) if ek(e) == EK::Timeout) && el >= d {
                sc::verif::clear_plan();
                let origin = ["connect", "accept", "try_accept", "accept_with_timeout"][c.origin.min(3) as usize];
                if c.again == 1 {
                    let pfd = peer.fd();
                    let hw = HangWatch::start(d + Duration::from_millis(1500), || true, move || unsafe {
                        libc::write(pfd, b"!".as_ptr().cast(), 1);
                    });
                    sc::verif::log_begin();
                    let t1 = Instant::now();
                    let r2 = no_panic(opname, || s.read_with_timeout(&mut buf, d));
                    let el2 = t1.elapsed();
                    let log2 = sc::verif::log_end();
                    let read_by_kernel = log2.iter().rev().find(|k| k.nr == sc::nr::READ && k.executed).map(|k| k.ret as isize);
                    if let Some(wait) = hw.finish() {
                        return Err(stop_fail(format!("{opname}|never-timed-out|second call on the same stream"), format!("the second {opname}({d:?}) on a stream (from {origin}) whose first timed read had timed out was still parked in {wait} {el2:?} after the call")));
                    }
                    match r2? {
                        Err(e) if ek(&e) == EK::Timeout => {
                            if el2 < d {
                                return Err(stop_fail(format!("{opname}|early-timeout|second call on the same stream"), format!("the second {opname}({d:?}) on the same stream returned Timeout after {el2:?} (the first one after {el:?})")));
                            }
                        }
                        Err(e) if is_resource(&ek(&e)) => return Err(Stop::Inconclusive(format!("{opname}: {e}"))),
                        Err(e) => return Err(stop_fail(format!("{opname}|{}|second call on the same stream", ek_name(&ek(&e))), format!("the second {opname}({d:?}) against the silent peer returned {e}"))),
                        Ok(n) if read_by_kernel == Some(n as isize) => return Err(Stop::Inconclusive(format!("{opname}: read(2) itself returned {n} on a connection whose peer (of this case) never wrote: somebody else acted on it"))),
                        Ok(_) => return Err(stop_fail(format!("{opname}|completed|silent peer"), format!("the second {opname}({d:?}) completed although the peer never acted"))),
                    }
                    rep.class("second-timed-call-on-the-same-object");
                } else {
                    libc_write_all(peer.fd(), b"xyz").map_err(|e| Stop::Inconclusive(format!("peer write: errno {e}")))?;
                    let mut got = [0u8; 64];
                    let what = if c.again == 2 { "TcpStream::read_with_timeout" } else { "TcpStream::read" };
                    let r2 = no_panic(what, || if c.again == 2 { s.read_with_timeout(&mut got, Duration::from_secs(3)) } else { tiny_std::io::Read::read(&mut s, &mut got) })?;
                    match r2 {
                        Ok(n) if n >= 1 && n <= 3 && got[..n] == b"xyz"[..n] => rep.class("peer-acts-after-a-timeout-and-is-served"),
                        Ok(n) => return Err(stop_fail(format!("{what}|wrong-bytes|after an earlier timeout"), format!("after a first {opname}({d:?}) had timed out the peer sent \"xyz\"; {what} on the same stream (from {origin}) returned {n} bytes {:?}", &got[..n.min(8)]))),
                        Err(e) if is_resource(&ek(&e)) => return Err(Stop::Inconclusive(format!("{what}: {e}"))),
                        Err(e) => return Err(stop_fail(format!("{what}|{}|data pending, after an earlier timeout", ek_name(&ek(&e))), format!("after a first {opname}({d:?}) had timed out the peer sent three bytes; {what} on the same stream (from {origin}) returned {e}"))),
                    }
                }
            }
            drop(peer);
            if stuck.load(std::sync::atomic::Ordering::SeqCst) {
                sc::verif::clear_plan();
                return Err(stop_fail(
                    format!("{opname}|never-timed-out|blocked in an untimed read(2)"),
                    format!("{opname}({d:?}) on a stream obtained by {} was still parked in read(2) {:?} after the call, with a silent peer; it returned only when the harness made the peer write", ["connect", "accept", "try_accept", "accept_with_timeout"][c.origin.min(3) as usize], el),
                ));
            }
            (r?, el)
        }
    };
    let served = sc::verif::forced_count();
    sc::verif::clear_plan();
    match res {
        Err(e) => match ek(&e) {
            EK::Timeout => {
                if elapsed < d {
                    return Err(stop_fail(format!("{opname}|early-timeout|returned before the limit"), format!("{opname}({d:?}) returned Timeout after {elapsed:?} on the monotonic clock")));
                }
                rep.nontrivial = true;
                rep.class("timed-out");
            }
            k if is_resource(&k) => return Err(Stop::Inconclusive(format!("{opname}: {e}"))),
            k => {
                // the peer is silent: the only ways out are Timeout or a (resource) error
                return Err(stop_fail(format!("{opname}|{}|silent peer", ek_name(&k)), format!("{opname}({d:?}) against a silent peer returned {e} after {elapsed:?}, expected Timeout")));
            }
        },
        Ok(_) => {
            if c.op == 2 {
                // the kernel let the connection through after all: says nothing about timeouts
                rep.class("connect-completed-peer-not-silent");
            } else {
                return Err(stop_fail(format!("{opname}|completed|silent peer"), format!("{opname}({d:?}) completed although the peer never acted")));
            }
        }
    }
    rep.class(match c.op {
        0 => "unix-accept",
        1 => "tcp-accept",
        2 => "tcp-connect",
        _ => "tcp-read",
    });
    rep.class_if(c.eintr == 1 && served > 0, "eintr-before-wait");
    rep.class_if(c.eintr == 2 && served > 0, "eintr-after-wait");
    rep.class_if(c.eintr == 3, "real-signals-during-the-wait");
    rep.class_if(c.micros < 2000, "limit<2ms");
    if c.op == 3 {
        rep.class(["read-on-connected-stream", "read-on-accepted-stream", "read-on-try-accepted-stream", "read-on-timed-accepted-stream"][c.origin.min(3) as usize]);
    }
    Ok(rep)
}

pub fn timeout_strategy() -> impl Strategy<Value = TimeoutCase> {
    (prop_oneof![1 => Just(0u8), 1 => Just(1u8), 1 => Just(2u8), 3 => Just(3u8)], prop_oneof![3 => 1000u32..5000, 3 => 5000u32..20_000, 1 => 20_000u32..=80_000], 0u16..1000, prop_oneof![3 => Just(0u8), 1 => Just(1u8), 1 => Just(2u8), 2 => Just(3u8)], 0u8..4, prop_oneof![2 => Just(0u8), 1 => Just(1u8), 1 => Just(2u8), 1 => Just(3u8)], prop_oneof![8 => Just(0u8), 1 => 1u8..=7]).prop_map(|(op, micros, nanos, eintr, origin, again, huge)| TimeoutCase { op, micros, nanos, eintr, origin, again: if op != 3 && again == 3 { 2 } else { again }, huge })
}
