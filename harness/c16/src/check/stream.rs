//! Sub-checks "stream" and "eintr": one direction of a connected pair is a tiny-std stream on
//! the harness thread, the other a libc descriptor on a peer thread. The sent stream must equal
//! the received stream for every payload size, chunking and relative speed, also when EINTR is
//! injected into the ppoll/read/write calls of the tiny-std side.
use std::sync::atomic::{AtomicBool, Ordering};
use std::sync::Arc;
use std::time::Duration;

use proptest::prelude::*;
use serde::{Deserialize, Serialize};
use tiny_std::io::{Read, Write};
use tiny_std::net::{Ip, SocketAddress, TcpListener, TcpStream, UnixListener, UnixStream};
use tiny_std::unix::fd::AsRawFd;
use vh::runner::{no_panic, CaseReport, CaseResult};
use vh::util::Guarded;

use super::common::*;

pub const MAX_CHUNK: usize = 256 * 1024;
const KIB: u32 = 1024;
/// pauses are scheduling hints; a bounded number per transfer keeps the case cost bounded
const MAX_PAUSES: usize = 6;
/// default SO_SNDBUF of a Unix socket on this kernel (net.core.wmem_default)
const UNIX_SNDBUF: u32 = 212_992;

#[derive(Debug, Clone, Serialize, Deserialize)]
pub struct Fault {
    /// 0 = ppoll, 1 = read, 2 = write
    pub nr: u8,
    /// 0-based index among the calls of that syscall during the transfer
    pub nth: u16,
    /// ppoll only: let the kernel execute the wait, then answer EINTR (instead of answering
    /// EINTR without executing)
    pub exec_first: bool,
}

#[derive(Debug, Clone, Serialize, Deserialize)]
pub struct StreamCase {
    pub tcp: bool,
    /// the tiny-std side connects (true) or accepts (false)
    pub tiny_connects: bool,
    /// the tiny-std side writes (true) or reads (false)
    pub tiny_writes: bool,
    pub len: u32,
    pub seed: u32,
    /// chunk sizes of the tiny-std side, cycled
    pub tiny_chunks: Vec<u32>,
    /// chunk sizes of the peer, cycled
    pub peer_chunks: Vec<u32>,
    /// scheduling hints (never correctness signals): the peer starts this late ...
    pub peer_start_delay_us: u32,
    /// ... and pauses `peer_pause_us` after every `peer_pause_every` chunks (0 = never)
    pub peer_pause_every: u16,
    pub peer_pause_us: u32,
    /// bit 0: small SO_SNDBUF on the writer's socket, bit 1: small SO_RCVBUF on the reader's
    pub small_bufs: u8,
    /// tiny-std reads: the peer keeps its end open until the harness has seen all bytes, so a
    /// `read` returning 0 before that is provably "0 while the peer is open"
    pub eof_handshake: bool,
    pub faults: Vec<Fault>,
    /// how the tiny-std side writes a chunk (only without injected faults): 0 `write` until the chunk is out,
    /// 1 one `write_all`, 2 one `write!(stream, "{}", text)` (the payload is mapped to printable ASCII)
    #[serde(default)]
    pub write_via: u8,
}

pub enum Tiny {
    U(UnixStream),
    T(TcpStream),
}

impl Tiny {
    pub fn ty(&self) -> &'static str {
        match self {
            Tiny::U(_) => "UnixStream",
            Tiny::T(_) => "TcpStream",
        }
    }
    pub fn raw(&self) -> i32 {
        match self {
            Tiny::U(s) => s.as_raw_fd().value(),
            Tiny::T(s) => s.as_raw_fd().value(),
        }
    }
    pub fn read(&mut self, b: &mut [u8]) -> tiny_std::Result<usize> {
        match self {
            Tiny::U(s) => s.read(b),
            Tiny::T(s) => s.read(b),
        }
    }
    pub fn write(&mut self, b: &[u8]) -> tiny_std::Result<usize> {
        match self {
            Tiny::U(s) => s.write(b),
            Tiny::T(s) => s.write(b),
        }
    }
    pub fn write_all(&mut self, b: &[u8]) -> tiny_std::Result<()> {
        match self {
            Tiny::U(s) => s.write_all(b),
            Tiny::T(s) => s.write_all(b),
        }
    }
    pub fn write_text(&mut self, t: &str) -> tiny_std::Result<()> {
        match self {
            Tiny::U(s) => s.write_fmt(format_args!("{t}")),
            Tiny::T(s) => s.write_fmt(format_args!("{t}")),
        }
    }
}

pub fn loopback(port: u16) -> SocketAddress {
    SocketAddress::new(Ip::V4([127, 0, 0, 1]), port)
}

/// Parse the port out of `SocketAddress`'s Debug output (it has no accessor).
pub fn debug_port(a: &SocketAddress) -> Option<u16> {
    let s = format!("{a:?}");
    let i = s.find("port: ")?;
    let rest = &s[i + 6..];
    let end = rest.find(|c: char| !c.is_ascii_digit()).unwrap_or(rest.len());
    rest[..end].parse().ok()
}

pub enum TinyListener {
    U(UnixListener),
    T(TcpListener),
}

/// A tiny-std listener plus what the harness learned about it: its descriptor (from the
/// interposer log of `bind`) and, for TCP, its port (libc getsockname on that descriptor).
pub struct BoundTiny {
    pub l: TinyListener,
    pub fd: i32,
    pub port: u16,
    pub path: String,
}

pub fn bind_tiny(tcp: bool, dir: &CaseDir) -> Result<BoundTiny, Stop> {
    if tcp {
        sc::verif::log_begin();
        let r = no_panic("TcpListener::bind", || TcpListener::bind(&loopback(0)));
        let log = sc::verif::log_end();
        let l = r?.map_err(|e| unexpected("TcpListener::bind", &e, "127.0.0.1:0"))?;
        let fd = socket_fd_from_log(&log).ok_or_else(|| Stop::Inconclusive("no socket call in the log of bind".into()))?;
        let port = getsockname_port(fd).ok_or_else(|| stop_fail("TcpListener::bind|not-inet|getsockname", "the listener's descriptor has no AF_INET name"))?;
        if port == 0 {
            return Err(stop_fail("TcpListener::bind|no-port|port 0", "listener bound to 127.0.0.1:0 has no port assigned"));
        }
        // the API's own answer must agree with getsockname (byte order of the port)
        let la = no_panic("TcpListener::local_addr", || l.local_addr())?.map_err(|e| unexpected("TcpListener::local_addr", &e, "bound listener"))?;
        if let Some(p) = debug_port(&la) {
            if p != port {
                return Err(stop_fail("TcpListener::local_addr|wrong-port|differs from getsockname", format!("local_addr() = {la:?}, getsockname says port {port}")));
            }
        }
        Ok(BoundTiny { l: TinyListener::T(l), fd, port, path: String::new() })
    } else {
        let path = dir.sock();
        let up = ustr(&path);
        sc::verif::log_begin();
        let r = no_panic("UnixListener::bind", || UnixListener::bind(&up));
        let log = sc::verif::log_end();
        let l = r?.map_err(|e| unexpected("UnixListener::bind", &e, "fresh path"))?;
        let fd = socket_fd_from_log(&log).ok_or_else(|| Stop::Inconclusive("no socket call in the log of bind".into()))?;
        // "binds at the specified path": the socket file must exist under exactly that name
        use std::os::unix::fs::FileTypeExt;
        let is_sock = std::fs::symlink_metadata(&path).map(|m| m.file_type().is_socket()).unwrap_or(false);
        if !is_sock {
            return Err(stop_fail("UnixListener::bind|wrong-path|no socket at the given path", format!("after UnixListener::bind({path}) there is no socket file at that path")));
        }
        Ok(BoundTiny { l: TinyListener::U(l), fd, port: 0, path })
    }
}

impl BoundTiny {
    pub fn accept(&mut self) -> Result<Tiny, Stop> {
        match &mut self.l {
            TinyListener::U(l) => {
                let s = no_panic("UnixListener::accept", || l.accept())?.map_err(|e| unexpected("UnixListener::accept", &e, "blocking accept"))?;
                Ok(Tiny::U(s))
            }
            TinyListener::T(l) => {
                let s = no_panic("TcpListener::accept", || l.accept())?.map_err(|e| unexpected("TcpListener::accept", &e, "blocking accept"))?;
                Ok(Tiny::T(s))
            }
        }
    }
    /// libc client connecting to this listener
    pub fn libc_connect(&self) -> Result<OwnedRaw, Stop> {
        let r = if self.path.is_empty() { libc_tcp_connect(self.port, false) } else { libc_unix_connect(&self.path) };
        r.map_err(|e| {
            if matches!(e, libc::ENOMEM | libc::ENOBUFS | libc::EMFILE | libc::ENFILE | libc::EADDRNOTAVAIL | libc::EAGAIN) {
                Stop::Inconclusive(format!("libc connect: errno {e}"))
            } else {
                stop_fail(format!("{}|peer-cannot-connect|errno {e}", if self.path.is_empty() { "TcpListener::bind" } else { "UnixListener::bind" }), format!("a libc client cannot connect to the tiny-std listener (path {:?}, port {}): errno {e}", self.path, self.port))
            }
        })
    }
}

/// Connect a pair: (tiny-std stream, libc peer descriptor). Listeners are dropped on return.
pub fn establish(tcp: bool, tiny_connects: bool, dir: &CaseDir) -> Result<(Tiny, OwnedRaw), Stop> {
    if tiny_connects {
        if tcp {
            let (l, port) = libc_tcp_listener(8)?;
            let s = no_panic("TcpStream::connect", || TcpStream::connect(&loopback(port)))?.map_err(|e| unexpected("TcpStream::connect", &e, "libc listener with room"))?;
            let p = libc_accept(l.fd()).map_err(|e| Stop::Inconclusive(format!("accept: errno {e}")))?;
            if !tcp_same_connection(s.as_raw_fd().value(), p.fd()) {
                return Err(Stop::Inconclusive("the connection the harness accepted is not the one the case made (a foreign client on the port)".into()));
            }
            Ok((Tiny::T(s), p))
        } else {
            let path = dir.sock();
            let l = libc_unix_listener(&path, 8)?;
            let up = ustr(&path);
            let s = no_panic("UnixStream::connect", || UnixStream::connect(&up))?.map_err(|e| unexpected("UnixStream::connect", &e, "libc listener with room"))?;
            let p = libc_accept(l.fd()).map_err(|e| Stop::Inconclusive(format!("accept: errno {e}")))?;
            Ok((Tiny::U(s), p))
        }
    } else {
        let mut b = bind_tiny(tcp, dir)?;
        let p = b.libc_connect()?;
        let s = b.accept()?;
        if tcp && !tcp_same_connection(s.raw(), p.fd()) {
            return Err(Stop::Inconclusive("the connection the listener handed out is not the one the case made (a foreign client on the port)".into()));
        }
        Ok((s, p))
    }
}

fn chunk_at(chunks: &[u32], i: usize, floor: usize) -> usize {
    let c = if chunks.is_empty() { 4096 } else { chunks[i % chunks.len()] as usize };
    c.clamp(1, MAX_CHUNK).max(floor)
}

fn sleep_us(us: u32) {
    if us > 0 {
        std::thread::sleep(Duration::from_micros(us as u64));
    }
}

struct PeerPlan {
    chunks: Vec<u32>,
    floor: usize,
    start_delay_us: u32,
    pause_every: u16,
    pause_us: u32,
}

struct PeerOut {
    data: Vec<u8>,
    /// errno of a failed libc call (EAGAIN = safety timeout)
    err: Option<i32>,
}

fn peer_reader(fd: OwnedRaw, plan: PeerPlan, cap: usize) -> PeerOut {
    sleep_us(plan.start_delay_us);
    let mut data: Vec<u8> = Vec::with_capacity(cap + MAX_CHUNK);
    let mut buf = vec![0u8; MAX_CHUNK];
    let mut i = 0usize;
    let mut pauses = 0usize;
    loop {
        let c = chunk_at(&plan.chunks, i, plan.floor);
        let n = unsafe { libc::read(fd.fd(), buf.as_mut_ptr() as *mut libc::c_void, c) };
        if n < 0 {
            let e = errno();
            if e == EINTR {
                continue;
            }
            return PeerOut { data, err: Some(e) };
        }
        if n == 0 {
            return PeerOut { data, err: None };
        }
        data.extend_from_slice(&buf[..n as usize]);
        if data.len() > cap + (1 << 20) {
            // far more than was ever sent: stop collecting
            return PeerOut { data, err: None };
        }
        i += 1;
        if plan.pause_every > 0 && i % plan.pause_every as usize == 0 && pauses < MAX_PAUSES {
            pauses += 1;
            sleep_us(plan.pause_us);
        }
    }
}

fn peer_writer(fd: OwnedRaw, plan: PeerPlan, data: Arc<Vec<u8>>, hold: Option<Arc<AtomicBool>>) -> PeerOut {
    sleep_us(plan.start_delay_us);
    let mut off = 0usize;
    let mut i = 0usize;
    let mut pauses = 0usize;
    let mut err = None;
    while off < data.len() {
        let c = chunk_at(&plan.chunks, i, plan.floor);
        let end = (off + c).min(data.len());
        let n = unsafe { libc::send(fd.fd(), data[off..end].as_ptr() as *const libc::c_void, end - off, libc::MSG_NOSIGNAL) };
        if n < 0 {
            let e = errno();
            if e == EINTR {
                continue;
            }
            err = Some(e);
            break;
        }
        off += n as usize;
        i += 1;
        if plan.pause_every > 0 && i % plan.pause_every as usize == 0 && pauses < MAX_PAUSES {
            pauses += 1;
            sleep_us(plan.pause_us);
        }
    }
    if let Some(h) = hold {
        // keep the connection open until the harness has seen every byte (bounded)
        let t0 = std::time::Instant::now();
        while !h.load(Ordering::Acquire) && t0.elapsed().as_secs() < PEER_TIMEOUT_S as u64 {
            std::thread::sleep(Duration::from_micros(50));
        }
        if !h.load(Ordering::Acquire) && err.is_none() {
            err = Some(EAGAIN);
        }
    }
    drop(fd);
    PeerOut { data: Vec::new(), err }
}

thread_local! {
    static READ_BUF: std::cell::RefCell<Guarded> = std::cell::RefCell::new(Guarded::at_end(MAX_CHUNK));
}

pub fn run_stream(c: &StreamCase) -> CaseResult {
    match run_stream_inner(c) {
        Ok(r) => Ok(r),
        Err(Stop::Fail(f)) => Err(f),
        Err(Stop::Inconclusive(why)) => {
            let mut r = CaseReport::new();
            r.class("inconclusive-environment");
            eprintln!("[C16 stream] inconclusive: {why}");
            Ok(r)
        }
    }
}

fn run_stream_inner(c: &StreamCase) -> Result<CaseReport, Stop> {
    let mut rep = CaseReport::new();
    let _guard = PlanGuard;
    let dir = CaseDir::new();
    let len = c.len as usize;
    // keep the number of calls per transfer bounded (deterministic function of the case)
    let floor = (len / 8192).max(1);
    let write_via = if c.tiny_writes && c.faults.is_empty() { c.write_via.min(2) } else { 0 };
    let mut data = payload(c.seed, len);
    if write_via == 2 {
        for b in data.iter_mut() {
            *b = 0x20 + *b % 95;
        }
    }
    let data = Arc::new(data);

    let (mut tiny, peer) = establish(c.tcp, c.tiny_connects, &dir)?;
    let ty = tiny.ty();
    let (wfd, rfd) = if c.tiny_writes { (tiny.raw(), peer.fd()) } else { (peer.fd(), tiny.raw()) };
    if c.small_bufs & 1 != 0 {
        set_bufsize(wfd, true, 4096);
    }
    if c.small_bufs & 2 != 0 && !c.tcp {
        // (a TCP receive buffer below the loopback MSS makes the kernel crawl through
        // zero-window probes: seconds per case and nothing about the library)
        set_bufsize(rfd, false, 4096);
    }
    let plan = PeerPlan { chunks: c.peer_chunks.clone(), floor, start_delay_us: c.peer_start_delay_us, pause_every: c.peer_pause_every, pause_us: c.peer_pause_us };

    // fault plan for the tiny-std side (this thread only)
    let rules: Vec<sc::verif::Rule> = c
        .faults
        .iter()
        .map(|f| {
            let nr = match f.nr {
                0 => sc::nr::PPOLL,
                1 => sc::nr::READ,
                _ => sc::nr::WRITE,
            };
            let e = sc::verif::neg_errno(EINTR);
            let action = if f.nr == 0 && f.exec_first { sc::verif::Action::ExecThenRet(e) } else { sc::verif::Action::ForceRet(e) };
            sc::verif::Rule { nr: Some(nr), nth: Some(f.nth as usize), action, times: 1 }
        })
        .collect();

    let mut eintr_seen = 0usize;
    let log;
    let served;
    if c.tiny_writes {
        let h = std::thread::spawn(move || peer_reader(peer, plan, len));
        // the peer keeps reading: a writer parked in an untimed wait while its own socket is
        // writable waits for the wrong thing; it is released by making its socket "readable"
        // (shutdown of the read half, which the transfer does not use)
        let wfd2 = wfd;
        let hw = HangWatch::start(
            Duration::from_secs(4),
            move || {
                let mut p = libc::pollfd { fd: wfd2, events: libc::POLLOUT, revents: 0 };
                unsafe { libc::poll(&mut p, 1, 0) == 1 && p.revents & libc::POLLOUT != 0 }
            },
            move || unsafe {
                libc::shutdown(wfd2, libc::SHUT_RD);
            },
        );
        sc::verif::plan(rules);
        sc::verif::log_begin();
        let mut off = 0usize;
        let mut i = 0usize;
        let mut res: Result<(), Stop> = Ok(());
        while off < len {
            let cs = chunk_at(&c.tiny_chunks, i, floor);
            let end = (off + cs).min(len);
            let r = match write_via {
                1 => no_panic(&format!("{ty}::write_all"), || tiny.write_all(&data[off..end]).map(|()| end - off)),
                2 => no_panic(&format!("{ty}::write_fmt"), || tiny.write_text(core::str::from_utf8(&data[off..end]).expect("ASCII payload")).map(|()| end - off)),
                _ => no_panic(&format!("{ty}::write"), || tiny.write(&data[off..end])),
            };
            let r = match r {
                Ok(r) => r,
                Err(f) => {
                    res = Err(f.into());
                    break;
                }
            };
            match r {
                Ok(0) => {
                    res = Err(stop_fail(format!("{ty}::write|returned-0|non-empty buffer"), format!("write of {} bytes at offset {off} returned Ok(0)", end - off)));
                    break;
                }
                Ok(n) if n > end - off => {
                    res = Err(stop_fail(format!("{ty}::write|count-too-large|more than the buffer"), format!("write of {} bytes returned Ok({n})", end - off)));
                    break;
                }
                Ok(n) => {
                    off += n;
                    i += 1;
                }
                Err(e) => match ek(&e) {
                    EK::Os(EINTR) => {
                        // legal for a single call; retried like any POSIX client would
                        eintr_seen += 1;
                        if eintr_seen > c.faults.len() + 8 {
                            res = Err(stop_fail(format!("{ty}::write|EINTR-forever|more EINTR than injected"), format!("{eintr_seen} EINTR results, {} injected", c.faults.len())));
                            break;
                        }
                    }
                    EK::Os(EAGAIN) => {
                        res = Err(stop_fail(format!("{ty}::write|EAGAIN|blocking write did not wait"), format!("blocking write of {} bytes at offset {off} returned {e} instead of waiting for buffer space", end - off)));
                        break;
                    }
                    _ => {
                        res = Err(unexpected(&format!("{ty}::write"), &e, "connected stream, peer reading"));
                        break;
                    }
                },
            }
        }
        log = sc::verif::log_end();
        served = sc::verif::forced_count();
        sc::verif::clear_plan();
        let hung = hw.finish();
        drop(tiny); // closes: the peer sees EOF
        let out = h.join().expect("peer thread");
        if let Some(wait) = hung {
            return Err(stop_fail(format!("{ty}::write|never-completes|parked in an untimed wait although the socket is writable"), format!("a blocking write ({} of {len} bytes sent so far) sat in {wait} for seconds while poll(2) reported its socket writable and the peer kept reading; it went on only when the harness made the socket readable", off)));
        }
        if out.err == Some(EAGAIN) {
            return Err(Stop::Inconclusive("peer reader hit the safety timeout".into()));
        }
        res?;
        if let Some(e) = out.err {
            return Err(Stop::Inconclusive(format!("peer read failed with errno {e}")));
        }
        compare_streams(ty, "the libc peer", &data, &out.data)?;
        let cycles = blocked_cycles(&log, sc::nr::WRITE, EAGAIN);
        rep.class_if(cycles > 0, "writer-blocked");
        rep.class_if(write_via == 1, "chunks-written-with-write_all");
        rep.class_if(write_via == 2, "chunks-written-with-write!");
        rep.class_if(write_via == 1 && cycles > 0, "write_all-blocked-on-a-full-buffer");
        rep.class_if(write_via == 2 && cycles > 0, "write!-blocked-on-a-full-buffer");
        rep.nontrivial_if(cycles > 0);
    } else {
        let hold = if c.eof_handshake { Some(Arc::new(AtomicBool::new(false))) } else { None };
        let hold2 = hold.clone();
        let d2 = data.clone();
        let h = std::thread::spawn(move || peer_writer(peer, plan, d2, hold2));
        sc::verif::plan(rules);
        sc::verif::log_begin();
        let mut got: Vec<u8> = Vec::with_capacity(len + MAX_CHUNK);
        let mut i = 0usize;
        let mut released = false;
        let res: Result<(), Stop> = READ_BUF.with(|g| {
            let mut g = g.borrow_mut();
            loop {
                if let Some(hd) = &hold {
                    if !released && got.len() >= len {
                        hd.store(true, Ordering::Release);
                        released = true;
                    }
                }
                let cs = chunk_at(&c.tiny_chunks, i, floor);
                // the buffer handed to read ENDS at a PROT_NONE page
                let buf = &mut g.as_mut()[MAX_CHUNK - cs..];
                let r = no_panic(&format!("{ty}::read"), || tiny.read(buf))?;
                match r {
                    Ok(0) => {
                        if hold.is_some() && !released {
                            return Err(stop_fail(format!("{ty}::read|zero-before-close|peer still open"), format!("read returned Ok(0) after {} of {len} bytes while the peer provably holds the connection open", got.len())));
                        }
                        return Ok(());
                    }
                    Ok(n) if n > cs => {
                        return Err(stop_fail(format!("{ty}::read|count-too-large|more than the buffer"), format!("read into {cs} bytes returned Ok({n})")));
                    }
                    Ok(n) => {
                        got.extend_from_slice(&buf[..n]);
                        i += 1;
                        if got.len() > len + (1 << 20) {
                            return Ok(());
                        }
                    }
                    Err(e) => match ek(&e) {
                        EK::Os(EINTR) => {
                            eintr_seen += 1;
                            if eintr_seen > c.faults.len() + 8 {
                                return Err(stop_fail(format!("{ty}::read|EINTR-forever|more EINTR than injected"), format!("{eintr_seen} EINTR results, {} injected", c.faults.len())));
                            }
                        }
                        EK::Os(EAGAIN) => {
                            return Err(stop_fail(format!("{ty}::read|EAGAIN|blocking read did not wait"), format!("blocking read after {} of {len} bytes returned {e} instead of waiting for data", got.len())));
                        }
                        _ => return Err(unexpected(&format!("{ty}::read"), &e, "connected stream, peer writing")),
                    },
                }
            }
        });
        log = sc::verif::log_end();
        served = sc::verif::forced_count();
        sc::verif::clear_plan();
        if let Some(hd) = &hold {
            hd.store(true, Ordering::Release);
        }
        drop(tiny);
        let out = h.join().expect("peer thread");
        if out.err == Some(EAGAIN) {
            return Err(Stop::Inconclusive("peer writer hit the safety timeout".into()));
        }
        res?;
        if let Some(e) = out.err {
            return Err(Stop::Inconclusive(format!("peer write failed with errno {e}")));
        }
        // EOF was reported: the peer closed only after writing everything, so all of it must be here
        compare_streams(ty, "the tiny-std reader", &data, &got)?;
        let cycles = blocked_cycles(&log, sc::nr::READ, EAGAIN);
        rep.class_if(cycles > 0, "reader-blocked");
        rep.class_if(read_blocked_mid_stream(&log) > 0, "reader-blocked-mid-stream");
        rep.class_if(c.eof_handshake, "eof-only-after-close");
        rep.nontrivial_if(cycles > 0);
    }

    // ForceRet entries are logged unexecuted with the forced value; ExecThenRet entries are logged
    // with the kernel's own answer, so they are the served faults that are not in the first group
    let unexecuted = log.iter().filter(|x| !x.executed && is_errno(x.ret, EINTR)).count();
    rep.class_if(log.iter().any(|x| x.nr == sc::nr::PPOLL && !x.executed && is_errno(x.ret, EINTR)), "eintr-in-ppoll");
    rep.class_if(served > unexecuted, "eintr-in-ppoll-after-real-wait");
    rep.class_if(log.iter().any(|x| x.nr == sc::nr::READ && !x.executed && is_errno(x.ret, EINTR)), "eintr-in-read");
    rep.class_if(log.iter().any(|x| x.nr == sc::nr::WRITE && !x.executed && is_errno(x.ret, EINTR)), "eintr-in-write");
    if !c.faults.is_empty() {
        // for the eintr sub-check a case counts only when an injected EINTR was really served
        rep.nontrivial = served > 0;
    }
    rep.class(if c.tcp { "tcp" } else { "unix" });
    rep.class(if c.tiny_writes { "tiny-writes" } else { "tiny-reads" });
    rep.class(if c.tiny_connects { "tiny-connects" } else { "tiny-accepts" });
    rep.class_if(len == 0, "empty-payload");
    rep.class_if(len >= (1 << 20), "payload>=1MiB");
    rep.class_if(len as u32 >= UNIX_SNDBUF - 4096 && len as u32 <= UNIX_SNDBUF + 4096, "payload~sndbuf");
    rep.class_if(c.small_bufs != 0, "small-socket-buffers");
    Ok(rep)
}

// ------------------------------------------------------------------------------------------
// generators
// ------------------------------------------------------------------------------------------

fn len_strategy(thorough: bool) -> BoxedStrategy<u32> {
    let big = if thorough { 8 * 1024 * KIB } else { 3 * 1024 * KIB };
    let big_w = if thorough { 6 } else { 1 };
    prop_oneof![
        6 => prop::sample::select(vec![0u32, 1, 2, 4095, 4096, 4097, 64 * KIB - 1, 64 * KIB, 64 * KIB + 1]),
        4 => prop::sample::select(vec![UNIX_SNDBUF - 4096, UNIX_SNDBUF - 1, UNIX_SNDBUF, UNIX_SNDBUF + 1, UNIX_SNDBUF + 4096, 256 * KIB]),
        2 => prop::sample::select(vec![1024 * KIB - 1, 1024 * KIB, 1024 * KIB + 1]),
        8 => 0u32..(64 * KIB),
        8 => (64 * KIB)..(1024 * KIB),
        big_w => (1024 * KIB)..=big,
    ]
    .boxed()
}

fn chunks_strategy() -> impl Strategy<Value = Vec<u32>> {
    prop::collection::vec(
        prop_oneof![
            3 => prop::sample::select(vec![1u32, 2, 7, 512, 4095, 4096, 4097, 65536, 256 * KIB]),
            3 => 1u32..8192,
            2 => 8192u32..=(256 * KIB),
        ],
        1..6,
    )
}

fn faults_strategy() -> impl Strategy<Value = Vec<Fault>> {
    prop::collection::vec((0u8..3, prop_oneof![3 => 0u16..4, 1 => 0u16..40], any::<bool>()).prop_map(|(nr, nth, exec_first)| Fault { nr, nth, exec_first: exec_first && nr == 0 }), 1..5)
}

/// `with_faults`: the "eintr" sub-check (payloads and stalls chosen so the tiny-std side blocks).
pub fn stream_strategy(thorough: bool, with_faults: bool) -> BoxedStrategy<StreamCase> {
    let faults = if with_faults { faults_strategy().boxed() } else { Just(Vec::new()).boxed() };
    let len = if with_faults {
        prop_oneof![2 => 0u32..(16 * KIB), 3 => (16 * KIB)..(512 * KIB), 1 => (512 * KIB)..(1024 * KIB)].boxed()
    } else {
        len_strategy(thorough)
    };
    (
        (any::<bool>(), any::<bool>(), any::<bool>(), len, any::<u32>()),
        (chunks_strategy(), chunks_strategy()),
        // stall profile: 0 none, 1 peer starts late, 2 peer pauses, 3 both
        (0u8..4, 200u32..3000, 1u16..6, 100u32..1500),
        (prop_oneof![2 => Just(0u8), 1 => 1u8..4], any::<bool>()),
        (faults, prop_oneof![3 => Just(0u8), 1 => Just(1u8), 2 => Just(2u8)]),
    )
        .prop_map(|((tcp, tiny_connects, tiny_writes, len, seed), (tiny_chunks, peer_chunks), (stall, d, every, p), (small_bufs, eof_handshake), (faults, write_via))| StreamCase {
            tcp,
            tiny_connects,
            tiny_writes,
            len,
            seed,
            tiny_chunks,
            peer_chunks,
            peer_start_delay_us: if stall & 1 != 0 { d } else { 0 },
            peer_pause_every: if stall & 2 != 0 { every } else { 0 },
            peer_pause_us: if stall & 2 != 0 { p } else { 0 },
            small_bufs,
            eof_handshake: eof_handshake && !tiny_writes,
            write_via: if tiny_writes && faults.is_empty() { write_via } else { 0 },
            faults,
        })
        .boxed()
}

