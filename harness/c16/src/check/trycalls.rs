//! Sub-check "try": `try_accept` / `try_connect` never block. Decided on the syscall trace of
//! the call (E2 interposer log), not on a stopwatch: no waiting syscall is issued and every
//! socket call that could block is made on a descriptor in non-blocking mode.
use std::collections::BTreeSet;

use proptest::prelude::*;
use serde::{Deserialize, Serialize};
use tiny_std::net::{TcpStream, TcpTryConnect, UnixStream};
use vh::runner::{no_panic, CaseReport, CaseResult};

use super::common::*;
use super::stream::{bind_tiny, loopback, TinyListener};

#[derive(Debug, Clone, Serialize, Deserialize)]
pub struct TryCase {
    /// 0 try_accept (unix), 1 try_accept (tcp), 2 UnixStream::try_connect, 3 TcpStream::try_connect,
    /// 4 UnixStream::try_connect to a path nobody listens on
    pub op: u8,
    /// connections already pending on the listener before the call(s)
    pub pending: u8,
    /// backlog of the libc listener (ops 2, 3)
    pub backlog: u8,
    /// how many calls beyond `pending` (op 0/1), or how many `try_connect` continuations (op 3)
    pub extra: u8,
}

pub fn run_try(c: &TryCase) -> CaseResult {
    match inner(c) {
        Ok(r) => Ok(r),
        Err(Stop::Fail(f)) => Err(f),
        Err(Stop::Inconclusive(why)) => {
            let mut r = CaseReport::new();
            r.class("inconclusive-environment");
            eprintln!("[C16 try] inconclusive: {why}");
            Ok(r)
        }
    }
}

fn inner(c: &TryCase) -> Result<CaseReport, Stop> {
    let mut rep = CaseReport::new();
    let _guard = PlanGuard;
    let dir = CaseDir::new();
    match c.op {
        0 | 1 => {
            let tcp = c.op == 1;
            let opname = if tcp { "TcpListener::try_accept" } else { "UnixListener::try_accept" };
            let mut b = bind_tiny(tcp, &dir)?;
            let mut clients = Vec::new();
            for _ in 0..c.pending {
                clients.push(b.libc_connect()?);
            }
            let mut nb = BTreeSet::new();
            match is_nonblocking(b.fd) {
                Some(true) => {
                    nb.insert(b.fd);
                }
                Some(false) => {}
                None => return Err(Stop::Inconclusive("F_GETFL on the listener".into())),
            }
            let calls = c.pending as usize + c.extra as usize + 1;
            let mut somes = 0usize;
            let mut streams = Vec::new();
            for i in 0..calls {
                sc::verif::log_begin();
                let r = no_panic(opname, || match &mut b.l {
                    TinyListener::U(l) => l.try_accept().map(|o| o.map(|s| streams.push(super::stream::Tiny::U(s)))),
                    TinyListener::T(l) => l.try_accept().map(|o| o.map(|s| streams.push(super::stream::Tiny::T(s)))),
                });
                let log = sc::verif::log_end();
                never_blocks(opname, &log, &nb)?;
                let r = r?.map_err(|e| unexpected(opname, &e, "listening socket"))?;
                match r {
                    Some(()) => somes += 1,
                    None => {
                        // a Unix connect is queued synchronously: it is "immediately available"
                        if !tcp && i < c.pending as usize {
                            return Err(stop_fail(format!("{opname}|none-with-pending|unix"), format!("call {i} returned None with {} connections pending", c.pending as usize - i)));
                        }
                    }
                }
            }
            if somes > c.pending as usize {
                return Err(stop_fail(format!("{opname}|phantom-connection|more than connected"), format!("{somes} connections accepted, {} were made", c.pending)));
            }
            rep.class(if tcp { "try-accept-tcp" } else { "try-accept-unix" });
            rep.class_if(somes > 0, "try-accept-some");
            rep.class_if(somes < calls, "try-accept-none");
            rep.nontrivial = true;
            drop(streams);
            drop(clients);
        }
        2 | 4 => {
            let opname = "UnixStream::try_connect";
            let path = dir.sock();
            let l = if c.op == 2 { Some(libc_unix_listener(&path, c.backlog as i32)?) } else { None };
            let mut fillers = Vec::new();
            // the queue holds backlog+1 connections; fill non-blockingly so the harness never waits
            let room = c.backlog as usize + 1;
            if l.is_some() {
                for _ in 0..(c.pending as usize).min(room) {
                    fillers.push(libc_unix_connect(&path).map_err(|e| Stop::Inconclusive(format!("filler connect: errno {e}")))?);
                }
            }
            let full = fillers.len() >= room;
            let up = ustr(&path);
            sc::verif::log_begin();
            let r = no_panic(opname, || UnixStream::try_connect(&up));
            let log = sc::verif::log_end();
            never_blocks(opname, &log, &BTreeSet::new())?;
            match r? {
                Ok(Some(s)) => {
                    if l.is_none() {
                        return Err(stop_fail(format!("{opname}|connected-to-nothing|no listener"), "try_connect returned a stream for a path without listener".to_string()));
                    }
                    rep.class("try-connect-some");
                    drop(s);
                }
                Ok(None) => {
                    if l.is_none() {
                        return Err(stop_fail(format!("{opname}|none-for-missing-path|no listener"), "try_connect returned Ok(None) for a path without listener (documented: error)".to_string()));
                    }
                    // with nothing pending a listening socket accepts a connection at once,
                    // whatever its backlog; fuller queues are only classified
                    if fillers.is_empty() {
                        return Err(stop_fail(format!("{opname}|none-with-room|empty queue"), format!("try_connect returned None although nothing is pending on the listener (backlog {})", c.backlog)));
                    }
                    rep.class_if(full, "try-connect-none-backlog-full");
                }
                Err(e) => {
                    if l.is_some() {
                        return Err(unexpected(opname, &e, "listening libc socket"));
                    }
                    rep.class("try-connect-error-no-listener");
                }
            }
            rep.nontrivial = true;
        }
        _ => {
            let opname = "TcpStream::try_connect";
            let (l, port) = libc_tcp_listener(c.backlog as i32)?;
            let mut fillers = Vec::new();
            for i in 0..c.pending {
                // the first filler completes; further ones may stay in SYN_SENT: non-blocking
                fillers.push(libc_tcp_connect(port, i > 0).map_err(|e| Stop::Inconclusive(format!("filler connect: errno {e}")))?);
            }
            let addr = loopback(port);
            sc::verif::log_begin();
            let r = no_panic(opname, || TcpStream::try_connect(&addr));
            let log = sc::verif::log_end();
            never_blocks(opname, &log, &BTreeSet::new())?;
            let mut nb = BTreeSet::new();
            if let Some(fd) = socket_fd_from_log(&log) {
                if is_nonblocking(fd) == Some(true) {
                    nb.insert(fd);
                }
            }
            let mut state = r?.map_err(|e| unexpected(opname, &e, "listening libc socket"))?;
            let mut steps = 0;
            loop {
                match state {
                    TcpTryConnect::Connected(s) => {
                        rep.class("tcp-try-connect-connected");
                        drop(s);
                        break;
                    }
                    TcpTryConnect::InProgress(p) => {
                        rep.class("tcp-try-connect-in-progress");
                        if steps >= c.extra {
                            drop(p);
                            break;
                        }
                        steps += 1;
                        sc::verif::log_begin();
                        let r = no_panic("TcpStreamInProgress::try_connect", || p.try_connect());
                        let log = sc::verif::log_end();
                        never_blocks("TcpStreamInProgress::try_connect", &log, &nb)?;
                        state = r?.map_err(|e| unexpected("TcpStreamInProgress::try_connect", &e, "listening libc socket"))?;
                    }
                }
            }
            rep.nontrivial = true;
            drop(fillers);
            drop(l);
        }
    }
    Ok(rep)
}

pub fn try_strategy() -> impl Strategy<Value = TryCase> {
    (prop_oneof![3 => Just(0u8), 3 => Just(1u8), 4 => Just(2u8), 3 => Just(3u8), 1 => Just(4u8)], 0u8..5, 0u8..3, 0u8..4).prop_map(|(op, pending, backlog, extra)| TryCase { op, pending, backlog, extra })
}
