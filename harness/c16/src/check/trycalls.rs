//! Sub-check "try": `try_accept` / `try_connect` never block. Decided on the syscall trace of
//! the call (E2 interposer log), not on a stopwatch: no waiting syscall is issued and every
//! socket call that could block is made on a descriptor in non-blocking mode.
use std::collections::BTreeSet;

use proptest::prelude::*;
use serde::{Deserialize, Serialize};
use tiny_std::net::{TcpStream, TcpTryConnect, UnixStream};
use vh::runner::{no_panic, CaseReport, CaseResult};

use super::common::*;
use super::stream::{bind_tiny, loopback, TinyListener};

#[derive(Debug, Clone, Serialize, Deserialize)]
pub struct TryCase {
    /// 0 try_accept (unix), 1 try_accept (tcp), 2 UnixStream::try_connect, 3 TcpStream::try_connect,
    /// 4 UnixStream::try_connect to a path nobody listens on
    pub op: u8,
    /// connections already pending on the listener before the call(s)
    pub pending: u8,
    /// backlog of the libc listener (ops 2, 3)
    pub backlog: u8,
    /// how many calls beyond `pending` (op 0/1), or how many `try_connect` continuations (op 3)
    pub extra: u8,
}

pub fn run_try(c: &TryCase) -> CaseResult {
    match inner(c) {
        Ok(r) => Ok(r),
        Err(Stop::Fail(f)) => Err(f),
        Err(Stop::Inconclusive(why)) => {
            let mut r = CaseReport::new();
            r.class("inconclusive-environment");
            eprintln!("[C16 try] inconclusive: {why}");
            Ok(r)
        }
    }
}

fn inner(c: &TryCase) -> Result<CaseReport, Stop> {
    let mut rep = CaseReport::new();
    let _guard = PlanGuard;
    let dir = CaseDir::new();
    match c.op {
        0 | 1 => {
            let tcp = c.op == 1;
            let opname = if tcp { "TcpListener::try_accept" } else { "UnixListener::try_accept" };
            let mut b = bind_tiny(tcp, &dir)?;
            let mut clients = Vec::new();
            for _ in 0..c.pending {
                clients.push(b.libc_connect()?);
            }
            let mut nb = BTreeSet::new();
            match is_nonblocking(b.fd) {
                Some(true) => {
                    nb.insert(b.fd);
                }
                Some(false) => {}
                None => return Err(Stop::Inconclusive("F_GETFL on the listener".into())),
            }
            let calls = c.pending as usize + c.extra as usize + 1;
            let mut somes = 0usize;
            let mut streams = Vec::new();
            for i in 0..calls {
                sc::verif::log_begin();
                let r = no_panic(opname, || match &mut b.l {
                    TinyListener::U(l) => l.try_accept().map(|o| o.map(|s| streams.push(super::stream::Tiny::U(s)))),
                    TinyListener::T(l) => l.try_accept().map(|o| o.map(|s| streams.push(super::stream::Tiny::T(s)))),
                });
                let log = sc::verif::log_end();
                never_blocks(opname, &log, &nb)?;
                let r = r?.map_err(|e| unexpected(opname, &e, "listening socket"))?;
                match r {
                    Some(()) => somes += 1,
                    None => {
                        // a Unix connect is queued synchronously: it is "immediately available"
                        if !tcp && i < c.pending as usize {
                            return Err(stop_fail(format!("{opname}|none-with-pending|unix"), format!("call {i} returned None with {} connections pending", c.pending as usize - i)));
                        }
                    }
                }
            }
            if somes > c.pending as usize {
                return Err(stop_fail(format!("{opname}|phantom-connection|more than connected"), format!("{somes} connections accepted, {} were made", c.pending)));
            }
            rep.class(if tcp { "try-accept-tcp" } else { "try-accept-unix" });
            rep.class_if(somes > 0, "try-accept-some");
            rep.class_if(somes < calls, "try-accept-none");
            rep.nontrivial = true;
            drop(streams);
            drop(clients);
        }
        2 | 4 => {
            let opname = "UnixStream::try_connect";
            let path = dir.sock();
            let l = if c.op == 2 { Some(libc_unix_listener(&path, c.backlog as i32)?) } else { None };
            let mut fillers = Vec::new();
            // the queue holds backlog+1 connections; fill non-blockingly so the harness never waits
            let room = c.backlog as usize + 1;
            if l.is_some() {
                for _ in 0..(c.pending as usize).min(room) {
                    fillers.push(libc_unix_connect(&path).map_err(|e| Stop::Inconclusive(format!("filler connect: errno {e}")))?);
                }
            }
            let full = fillers.len() >= room;
            let up = ustr(&path);
            // a connect(2) on a blocking socket towards a listener whose queue is full can only end when somebody
            // accepts, and here only the harness could: that is a definitive hang, it is released and reported
            let lfd = l.as_ref().map(|l| l.fd());
            let w = lfd.filter(|_| full).map(|lfd| {
                HangWatch::start(std::time::Duration::from_millis(1500), || true, move || unsafe {
                    let a = libc::accept(lfd, core::ptr::null_mut(), core::ptr::null_mut());
                    if a >= 0 {
                        libc::close(a);
                    }
                })
            });
            sc::verif::log_begin();
            let r = no_panic(opname, || UnixStream::try_connect(&up));
            let stuck = w.and_then(|w| w.finish());
            let log = sc::verif::log_end();
            if let Some(wait) = stuck {
                return Err(stop_fail(format!("{opname}|blocks|listener's queue full"), format!("try_connect to a listener (backlog {}) with {} connections pending sat in {wait}; it came back only after the harness accepted one of the pending connections", c.backlog, fillers.len())));
            }
            never_blocks(opname, &log, &BTreeSet::new())?;
            match r? {
                Ok(Some(s)) => {
                    if l.is_none() {
                        return Err(stop_fail(format!("{opname}|connected-to-nothing|no listener"), "try_connect returned a stream for a path without listener".to_string()));
                    }
                    rep.class("try-connect-some");
                    drop(s);
                }
                Ok(None) => {
                    if l.is_none() {
                        return Err(stop_fail(format!("{opname}|none-for-missing-path|no listener"), "try_connect returned Ok(None) for a path without listener (documented: error)".to_string()));
                    }
                    // with nothing pending a listening socket accepts a connection at once,
                    // whatever its backlog; fuller queues are only classified
                    if fillers.is_empty() {
                        return Err(stop_fail(format!("{opname}|none-with-room|empty queue"), format!("try_connect returned None although nothing is pending on the listener (backlog {})", c.backlog)));
                    }
                    rep.class_if(full, "try-connect-none-backlog-full");
                }
                Err(e) => {
                    if l.is_some() {
                        return Err(unexpected(opname, &e, "listening libc socket"));
                    }
                    rep.class("try-connect-error-no-listener");
                }
            }
            rep.nontrivial = true;
        }
        _ => {
            let opname = "TcpStream::try_connect";
            let (l, port) = libc_tcp_listener(c.backlog as i32)?;
            let mut fillers = Vec::new();
            for i in 0..c.pending {
                // the first filler completes; further ones may stay in SYN_SENT: non-blocking
                fillers.push(libc_tcp_connect(port, i > 0).map_err(|e| Stop::Inconclusive(format!("filler connect: errno {e}")))?);
            }
            let addr = loopback(port);
            sc::verif::log_begin();
            let r = no_panic(opname, || TcpStream::try_connect(&addr));
            let log = sc::verif::log_end();
            never_blocks(opname, &log, &BTreeSet::new())?;
            let mut nb = BTreeSet::new();
            if let Some(fd) = socket_fd_from_log(&log) {
                if is_nonblocking(fd) == Some(true) {
                    nb.insert(fd);
                }
            }
            let mut state = r?.map_err(|e| unexpected(opname, &e, "listening libc socket"))?;
            let mut steps = 0;
            loop {
                match state {
                    TcpTryConnect::Connected(s) => {
                        rep.class("tcp-try-connect-connected");
                        drop(s);
                        break;
                    }
                    TcpTryConnect::InProgress(p) => {
                        rep.class("tcp-try-connect-in-progress");
                        if steps >= c.extra {
                            drop(p);
                            break;
                        }
                        steps += 1;
                        sc::verif::log_begin();
                        let r = no_panic("TcpStreamInProgress::try_connect", || p.try_connect());
                        let log = sc::verif::log_end();
                        never_blocks("TcpStreamInProgress::try_connect", &log, &nb)?;
                        // what the continuation answers is judged by the "inprogress"
                        // sub-check; here only its trace counts
                        state = match r? {
                            Ok(st) => st,
                            Err(_) => {
                                rep.class("tcp-try-connect-continuation-error");
                                break;
                            }
                        };
                    }
                }
            }
            rep.nontrivial = true;
            drop(fillers);
            drop(l);
        }
    }
    Ok(rep)
}

// ------------------------------------------------------------------------------------------
// "inprogress": continuing a TCP connection that `try_connect` left in progress
// ------------------------------------------------------------------------------------------

#[derive(Debug, Clone, Serialize, Deserialize)]
pub struct InProgressCase {
    /// the libc listener (backlog 0) already has its queue full, so the SYN is dropped and the
    /// connection really stays in progress (otherwise loopback completes it at once)
    pub full: bool,
    /// 0: `TcpStreamInProgress::try_connect` x n; 1: `TcpStreamInProgress::connect_blocking`
    /// while a helper makes room; 2: plain blocking `TcpStream::connect` while a helper makes room
    pub cont: u8,
    pub n: u8,
    /// scheduling hint for the helper that accepts the queued connection
    pub accept_delay_us: u16,
}

pub fn run_inprogress(c: &InProgressCase) -> CaseResult {
    match inprogress_inner(c) {
        Ok(r) => Ok(r),
        Err(Stop::Fail(f)) => Err(f),
        Err(Stop::Inconclusive(why)) => {
            let mut r = CaseReport::new();
            r.class("inconclusive-environment");
            eprintln!("[C16 inprogress] inconclusive: {why}");
            Ok(r)
        }
    }
}

fn inprogress_inner(c: &InProgressCase) -> Result<CaseReport, Stop> {
    let mut rep = CaseReport::new();
    let _guard = PlanGuard;
    let (l, port) = libc_tcp_listener(0)?;
    let mut fillers = Vec::new();
    if c.full {
        fillers.push(libc_tcp_connect(port, false).map_err(|e| Stop::Inconclusive(format!("filler connect: errno {e}")))?);
    }
    let addr = loopback(port);
    // the helper accepts the filler after the hint delay: from then on the queue has room and
    // the retransmitted SYN (about 1 s later) completes the connection
    let helper_done = std::sync::Arc::new(std::sync::atomic::AtomicBool::new(!c.full));
    let hd = helper_done.clone();
    let spawn_helper = move |lfd: i32, delay: u16| {
        let hd = hd.clone();
        std::thread::spawn(move || {
            std::thread::sleep(std::time::Duration::from_micros(delay as u64));
            let r = libc_accept(lfd);
            hd.store(true, std::sync::atomic::Ordering::SeqCst);
            r
        })
    };
    // A blocking connect that is parked in an untimed wait although its connection is established - the
    // filler has been accepted and a completed connection (it can only be this one) waits in the listener's
    // queue - will not come back by itself when the peer stays silent: the harness then accepts it and
    // sends a byte, and the case is reported.
    let lfd = l.fd();
    let watch = |helper_done: std::sync::Arc<std::sync::atomic::AtomicBool>| {
        HangWatch::start(
            std::time::Duration::from_millis(2500),
            move || {
                if !helper_done.load(std::sync::atomic::Ordering::SeqCst) {
                    return false;
                }
                let mut pfd = libc::pollfd { fd: lfd, events: libc::POLLIN, revents: 0 };
                unsafe { libc::poll(&mut pfd, 1, 0) == 1 && pfd.revents & libc::POLLIN != 0 }
            },
            move || unsafe {
                let a = libc::accept(lfd, core::ptr::null_mut(), core::ptr::null_mut());
                if a >= 0 {
                    libc::write(a, b"!".as_ptr().cast(), 1);
                    libc::close(a);
                }
            },
        )
    };
    let blocking_shape = if c.full { "queue full, peer accepts later" } else { "listener has room" };
    if c.cont == 2 {
        let helper = if c.full { Some(spawn_helper(l.fd(), c.accept_delay_us)) } else { None };
        sc::verif::log_begin();
        let w = watch(helper_done.clone());
        let r = no_panic("TcpStream::connect", || TcpStream::connect(&addr));
        let stuck = w.finish();
        let log = sc::verif::log_end();
        if let Some(wait) = stuck {
            return Err(stop_fail("TcpStream::connect|never-completes|parked in an untimed wait although the connection is established", format!("blocking connect ({blocking_shape}) sat in {wait} while the completed connection was waiting in the listener's queue; it came back only after the harness accepted it and sent a byte")));
        }
        let acc = helper.map(|h| h.join().expect("helper"));
        let s = r?.map_err(|e| unexpected("TcpStream::connect", &e, blocking_shape))?;
        rep.class_if(blocked_cycles(&log, sc::nr::CONNECT, libc::EINPROGRESS) > 0, "connect-waited-in-ppoll");
        rep.class_if(c.full, "blocking-connect-while-queue-full");
        drop(s);
        drop(acc);
    } else {
        let st = no_panic("TcpStream::try_connect", || TcpStream::try_connect(&addr))?.map_err(|e| unexpected("TcpStream::try_connect", &e, "listening libc socket"))?;
        match st {
            TcpTryConnect::Connected(s) => {
                rep.class("connected-at-once");
                drop(s);
            }
            TcpTryConnect::InProgress(p) => {
                rep.class("in-progress");
                if c.cont == 0 {
                    let mut p = Some(p);
                    for i in 0..c.n.max(1) {
                        let cur = p.take().unwrap();
                        match no_panic("TcpStreamInProgress::try_connect", || cur.try_connect())? {
                            Ok(TcpTryConnect::Connected(s)) => {
                                rep.class("continued-to-connected");
                                drop(s);
                                break;
                            }
                            Ok(TcpTryConnect::InProgress(np)) => {
                                rep.class("continued-still-in-progress");
                                p = Some(np);
                            }
                            Err(e) => {
                                // nothing has failed: the peer simply has not answered yet
                                if ek(&e) == EK::Os(libc::EALREADY) {
                                    return Err(stop_fail(
                                        "TcpStreamInProgress::try_connect|EALREADY|connection still in progress",
                                        format!("continuation {i} of a connection that is still in progress (listener queue full: {}) returned {e} and dropped the socket; documented: InProgress again, errors only for connection failures", c.full),
                                    ));
                                }
                                return Err(unexpected("TcpStreamInProgress::try_connect", &e, "connection in progress"));
                            }
                        }
                    }
                } else {
                    let helper = if c.full { Some(spawn_helper(l.fd(), c.accept_delay_us)) } else { None };
                    sc::verif::log_begin();
                    let w = watch(helper_done.clone());
                    let r = no_panic("TcpStreamInProgress::connect_blocking", || p.connect_blocking());
                    let stuck = w.finish();
                    let log = sc::verif::log_end();
                    if let Some(wait) = stuck {
                        return Err(stop_fail("TcpStreamInProgress::connect_blocking|never-completes|parked in an untimed wait although the connection is established", format!("connect_blocking ({blocking_shape}) sat in {wait} while the completed connection was waiting in the listener's queue; it came back only after the harness accepted it and sent a byte")));
                    }
                    let acc = helper.map(|h| h.join().expect("helper"));
                    match r? {
                        Ok(s) => {
                            rep.class_if(blocked_cycles(&log, sc::nr::CONNECT, libc::EINPROGRESS) > 0 || blocked_cycles(&log, sc::nr::CONNECT, libc::EALREADY) > 0, "connect-blocking-waited-in-ppoll");
                            rep.class("connect-blocking-completed");
                            drop(s);
                        }
                        Err(e) => {
                            if ek(&e) == EK::Os(libc::EALREADY) {
                                return Err(stop_fail(
                                    "TcpStreamInProgress::connect_blocking|EALREADY|connection still in progress",
                                    format!("connect_blocking on a connection that is still in progress ({blocking_shape}) returned {e} at once instead of blocking until the connection is established"),
                                ));
                            }
                            return Err(unexpected("TcpStreamInProgress::connect_blocking", &e, blocking_shape));
                        }
                    }
                    drop(acc);
                }
            }
        }
    }
    rep.class(match c.cont {
        0 => "continue-with-try_connect",
        1 => "continue-with-connect_blocking",
        _ => "plain-blocking-connect",
    });
    rep.class_if(c.full, "listener-queue-full");
    rep.nontrivial = true;
    drop(fillers);
    drop(l);
    Ok(rep)
}

pub fn inprogress_strategy() -> impl Strategy<Value = InProgressCase> {
    (any::<bool>(), 0u8..3, 1u8..4, prop_oneof![Just(0u16), 100u16..5000]).prop_map(|(full, cont, n, accept_delay_us)| InProgressCase { full, cont, n, accept_delay_us })
}

pub fn try_strategy() -> impl Strategy<Value = TryCase> {
    (prop_oneof![3 => Just(0u8), 3 => Just(1u8), 4 => Just(2u8), 3 => Just(3u8), 1 => Just(4u8)], 0u8..5, 0u8..3, 0u8..4).prop_map(|(op, pending, backlog, extra)| TryCase { op, pending, backlog, extra })
}
