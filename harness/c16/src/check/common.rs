//! Shared helpers of the C16 sub-checks: descriptors with Drop, per-case temp dir, libc peers,
//! payload generation, error classification, interposer-log analysis.
use std::collections::BTreeSet;
use std::ffi::CString;
use std::sync::atomic::{AtomicU32, AtomicU64, Ordering};

use rusl::string::unix_str::UnixString;
use sc::verif::Call;
use vh::runner::Failure;

pub static WORKER: AtomicU32 = AtomicU32::new(0);
static SOCK_COUNTER: AtomicU64 = AtomicU64::new(0);

pub const EINTR: i32 = 4;
pub const EAGAIN: i32 = 11;
pub const O_NONBLOCK: usize = 0o4000;

/// Peer-side safety net: a blocking libc call of the peer gives up after this many seconds so a
/// stuck case ends as "inconclusive" instead of eating the whole run. Never a failure by itself.
pub const PEER_TIMEOUT_S: i64 = 30;

pub fn errno() -> i32 {
    unsafe { *libc::__errno_location() }
}

/// A libc descriptor closed on drop.
#[derive(Debug)]
pub struct OwnedRaw(pub i32);

impl OwnedRaw {
    pub fn fd(&self) -> i32 {
        self.0
    }
}

impl Drop for OwnedRaw {
    fn drop(&mut self) {
        if self.0 >= 0 {
            unsafe {
                libc::close(self.0);
            }
        }
    }
}

/// `/tmp/verif-c16-<pid>-<worker>/`, created fresh for one case and removed afterwards.
pub struct CaseDir {
    pub path: String,
}

impl CaseDir {
    pub fn new() -> CaseDir {
        let path = format!("/tmp/verif-c16-{}-{}", std::process::id(), WORKER.load(Ordering::Relaxed));
        let _ = std::fs::remove_dir_all(&path);
        std::fs::create_dir_all(&path).expect("create case dir");
        CaseDir { path }
    }
    /// A socket path unique in this process.
    pub fn sock(&self) -> String {
        format!("{}/s{}", self.path, SOCK_COUNTER.fetch_add(1, Ordering::Relaxed))
    }
}

impl Drop for CaseDir {
    fn drop(&mut self) {
        let _ = std::fs::remove_dir_all(&self.path);
    }
}

pub fn ustr(p: &str) -> UnixString {
    UnixString::try_from_str(p).expect("path without NUL")
}

/// Number of open descriptors of this process (harness hygiene statistic).
pub fn count_fds() -> usize {
    std::fs::read_dir("/proc/self/fd").map(|d| d.count()).unwrap_or(0)
}

// ------------------------------------------------------------------------------------------
// error classification
// ------------------------------------------------------------------------------------------

#[derive(Debug, Clone, PartialEq, Eq)]
pub enum EK {
    Timeout,
    Os(i32),
    Other(String),
}

pub fn ek(e: &tiny_std::Error) -> EK {
    match e {
        tiny_std::Error::Timeout => EK::Timeout,
        tiny_std::Error::Os { code, .. } => EK::Os(code.raw()),
        tiny_std::Error::Uncategorized(m) => EK::Other((*m).to_string()),
    }
}

pub fn ek_rusl(e: &rusl::Error) -> EK {
    match e.code {
        Some(c) => EK::Os(c.raw()),
        None => EK::Other(e.msg.to_string()),
    }
}

/// Errors that say "the machine is out of something", not "the library is wrong".
pub fn is_resource(e: &EK) -> bool {
    matches!(e, EK::Os(libc::ENOMEM | libc::ENOBUFS | libc::EMFILE | libc::ENFILE | libc::EADDRNOTAVAIL | libc::EADDRINUSE))
}

pub fn ek_name(e: &EK) -> String {
    match e {
        EK::Timeout => "Timeout".into(),
        EK::Os(EAGAIN) => "EAGAIN".into(),
        EK::Os(EINTR) => "EINTR".into(),
        EK::Os(libc::ECONNREFUSED) => "ECONNREFUSED".into(),
        EK::Os(libc::ENOENT) => "ENOENT".into(),
        EK::Os(libc::EPIPE) => "EPIPE".into(),
        EK::Os(libc::ECONNRESET) => "ECONNRESET".into(),
        EK::Os(libc::EINPROGRESS) => "EINPROGRESS".into(),
        EK::Os(libc::EINVAL) => "EINVAL".into(),
        EK::Os(libc::EBADF) => "EBADF".into(),
        EK::Os(libc::EFAULT) => "EFAULT".into(),
        EK::Os(n) => format!("errno {n}"),
        EK::Other(_) => "uncategorized".into(),
    }
}

/// Outcome of a harness-side step that is not a verdict on the library.
pub enum Stop {
    /// environment trouble (resource exhaustion, peer safety timeout): count as inconclusive
    Inconclusive(String),
    Fail(Failure),
}

impl From<Failure> for Stop {
    fn from(f: Failure) -> Stop {
        Stop::Fail(f)
    }
}

pub fn stop_fail(sig: impl Into<String>, what: impl Into<String>) -> Stop {
    Stop::Fail(Failure::new(sig, what))
}

/// Map an unexpected error of a tiny-std call to a Stop.
pub fn unexpected(op: &str, e: &tiny_std::Error, shape: &str) -> Stop {
    let k = ek(e);
    if is_resource(&k) {
        Stop::Inconclusive(format!("{op}: {e}"))
    } else {
        stop_fail(format!("{op}|{}|{shape}", ek_name(&k)), format!("{op} failed with {e} ({shape})"))
    }
}

// ------------------------------------------------------------------------------------------
// payload
// ------------------------------------------------------------------------------------------

/// Deterministic payload: 8-byte blocks of splitmix(seed, block index); every block differs, so
/// loss, duplication and reordering all show as a content divergence.
pub fn payload(seed: u32, len: usize) -> Vec<u8> {
    let mut v = Vec::with_capacity(len + 8);
    let mut i = 0u64;
    while v.len() < len {
        let x = vh::runner::splitmix(((seed as u64) << 32) ^ i);
        v.extend_from_slice(&x.to_le_bytes());
        i += 1;
    }
    v.truncate(len);
    v
}

pub fn first_divergence(a: &[u8], b: &[u8]) -> Option<usize> {
    let n = a.len().min(b.len());
    for i in 0..n {
        if a[i] != b[i] {
            return Some(i);
        }
    }
    if a.len() != b.len() {
        Some(n)
    } else {
        None
    }
}

/// Compare a received stream with the sent one. `who` names the receiving side.
pub fn compare_streams(ty: &str, who: &str, sent: &[u8], got: &[u8]) -> Result<(), Failure> {
    if let Some(at) = first_divergence(sent, got) {
        let (class, shape) = if got.len() < sent.len() && got[..] == sent[..got.len()] {
            ("bytes-missing", "received stream is a proper prefix of the sent stream")
        } else if got.len() > sent.len() && got[..sent.len()] == sent[..] {
            ("bytes-extra", "received stream continues past the sent stream")
        } else {
            ("bytes-differ", "content diverges")
        };
        return Err(Failure::new(
            format!("{ty}::stream|{class}|{shape}"),
            format!("{who} received {} bytes, {} were sent; first divergence at offset {at} (sent {:02x?}, got {:02x?})", got.len(), sent.len(), sent.get(at..(at + 8).min(sent.len())).unwrap_or(&[]), got.get(at..(at + 8).min(got.len())).unwrap_or(&[])),
        ));
    }
    Ok(())
}

// ------------------------------------------------------------------------------------------
// libc peers
// ------------------------------------------------------------------------------------------

fn set_timeouts(fd: i32) {
    let tv = libc::timeval { tv_sec: PEER_TIMEOUT_S, tv_usec: 0 };
    unsafe {
        libc::setsockopt(fd, libc::SOL_SOCKET, libc::SO_RCVTIMEO, &tv as *const _ as *const libc::c_void, core::mem::size_of::<libc::timeval>() as u32);
        libc::setsockopt(fd, libc::SOL_SOCKET, libc::SO_SNDTIMEO, &tv as *const _ as *const libc::c_void, core::mem::size_of::<libc::timeval>() as u32);
    }
}

fn sockaddr_un(path: &str) -> (libc::sockaddr_un, u32) {
    let mut sa: libc::sockaddr_un = unsafe { core::mem::zeroed() };
    sa.sun_family = libc::AF_UNIX as u16;
    let b = path.as_bytes();
    assert!(b.len() < 108, "socket path too long");
    for (i, &c) in b.iter().enumerate() {
        sa.sun_path[i] = c as libc::c_char;
    }
    (sa, (2 + b.len() + 1) as u32)
}

fn sockaddr_in(port: u16) -> libc::sockaddr_in {
    let mut sa: libc::sockaddr_in = unsafe { core::mem::zeroed() };
    sa.sin_family = libc::AF_INET as u16;
    sa.sin_port = port.to_be();
    sa.sin_addr = libc::in_addr { s_addr: u32::from_ne_bytes([127, 0, 0, 1]) };
    sa
}

/// Blocking libc Unix listener (with the peer safety timeout on accept).
pub fn libc_unix_listener(path: &str, backlog: i32) -> Result<OwnedRaw, Stop> {
    unsafe {
        let fd = libc::socket(libc::AF_UNIX, libc::SOCK_STREAM | libc::SOCK_CLOEXEC, 0);
        if fd < 0 {
            return Err(Stop::Inconclusive(format!("socket: errno {}", errno())));
        }
        let o = OwnedRaw(fd);
        let (sa, len) = sockaddr_un(path);
        if libc::bind(fd, &sa as *const _ as *const libc::sockaddr, len) != 0 {
            return Err(Stop::Inconclusive(format!("bind {path}: errno {}", errno())));
        }
        if libc::listen(fd, backlog) != 0 {
            return Err(Stop::Inconclusive(format!("listen: errno {}", errno())));
        }
        set_timeouts(fd);
        Ok(o)
    }
}

/// Blocking libc TCP listener on 127.0.0.1 port 0; returns (fd, port).
pub fn libc_tcp_listener(backlog: i32) -> Result<(OwnedRaw, u16), Stop> {
    unsafe {
        let fd = libc::socket(libc::AF_INET, libc::SOCK_STREAM | libc::SOCK_CLOEXEC, 0);
        if fd < 0 {
            return Err(Stop::Inconclusive(format!("socket: errno {}", errno())));
        }
        let o = OwnedRaw(fd);
        let sa = sockaddr_in(0);
        if libc::bind(fd, &sa as *const _ as *const libc::sockaddr, core::mem::size_of::<libc::sockaddr_in>() as u32) != 0 {
            return Err(Stop::Inconclusive(format!("bind tcp: errno {}", errno())));
        }
        if libc::listen(fd, backlog) != 0 {
            return Err(Stop::Inconclusive(format!("listen: errno {}", errno())));
        }
        set_timeouts(fd);
        let port = getsockname_port(fd).ok_or_else(|| Stop::Inconclusive("getsockname".into()))?;
        Ok((o, port))
    }
}

/// Local TCP port of a descriptor through libc getsockname.
pub fn getsockname_port(fd: i32) -> Option<u16> {
    unsafe {
        let mut sa: libc::sockaddr_in = core::mem::zeroed();
        let mut len = core::mem::size_of::<libc::sockaddr_in>() as u32;
        if libc::getsockname(fd, &mut sa as *mut _ as *mut libc::sockaddr, &mut len) != 0 {
            return None;
        }
        if sa.sin_family != libc::AF_INET as u16 {
            return None;
        }
        Some(u16::from_be(sa.sin_port))
    }
}

/// Blocking accept on a libc listener. `Err(errno)`.
/// Are these two descriptors the two ends of one TCP connection (each one's local address is the other's
/// peer address)? With many workers binding and connecting loopback ports, a listener can be reached by a
/// client that is not the one the case made; a pair that is not a pair says nothing about the library.
/// (address, port) of a TCP socket's own (`peer` false) or remote end
pub fn tcp_name(fd: i32, peer: bool) -> Option<(u32, u16)> {
    unsafe {
        let mut sa: libc::sockaddr_in = core::mem::zeroed();
        let mut len = core::mem::size_of::<libc::sockaddr_in>() as libc::socklen_t;
        let p = &mut sa as *mut libc::sockaddr_in as *mut libc::sockaddr;
        let r = if peer { libc::getpeername(fd, p, &mut len) } else { libc::getsockname(fd, p, &mut len) };
        (r == 0 && i32::from(sa.sin_family) == libc::AF_INET).then_some((sa.sin_addr.s_addr, sa.sin_port))
    }
}

pub fn tcp_same_connection(a: i32, b: i32) -> bool {
    let name = tcp_name;
    match (name(a, false), name(a, true), name(b, false), name(b, true)) {
        (Some(al), Some(ap), Some(bl), Some(bp)) => al == bp && ap == bl,
        _ => false,
    }
}

pub fn libc_accept(listener: i32) -> Result<OwnedRaw, i32> {
    loop {
        let fd = unsafe { libc::accept4(listener, core::ptr::null_mut(), core::ptr::null_mut(), libc::SOCK_CLOEXEC) };
        if fd >= 0 {
            set_timeouts(fd);
            return Ok(OwnedRaw(fd));
        }
        let e = errno();
        if e != EINTR {
            return Err(e);
        }
    }
}

/// Blocking libc connect to a Unix path.
pub fn libc_unix_connect(path: &str) -> Result<OwnedRaw, i32> {
    unsafe {
        let fd = libc::socket(libc::AF_UNIX, libc::SOCK_STREAM | libc::SOCK_CLOEXEC, 0);
        if fd < 0 {
            return Err(errno());
        }
        let o = OwnedRaw(fd);
        set_timeouts(fd);
        let (sa, len) = sockaddr_un(path);
        loop {
            if libc::connect(fd, &sa as *const _ as *const libc::sockaddr, len) == 0 {
                return Ok(o);
            }
            let e = errno();
            if e != EINTR {
                return Err(e);
            }
        }
    }
}

/// libc connect to 127.0.0.1:port; `nonblock` gives a non-blocking attempt (used for fillers).
pub fn libc_tcp_connect(port: u16, nonblock: bool) -> Result<OwnedRaw, i32> {
    unsafe {
        let fl = if nonblock { libc::SOCK_NONBLOCK } else { 0 };
        let fd = libc::socket(libc::AF_INET, libc::SOCK_STREAM | libc::SOCK_CLOEXEC | fl, 0);
        if fd < 0 {
            return Err(errno());
        }
        let o = OwnedRaw(fd);
        set_timeouts(fd);
        let sa = sockaddr_in(port);
        loop {
            if libc::connect(fd, &sa as *const _ as *const libc::sockaddr, core::mem::size_of::<libc::sockaddr_in>() as u32) == 0 {
                return Ok(o);
            }
            let e = errno();
            if e == libc::EINPROGRESS && nonblock {
                return Ok(o);
            }
            if e != EINTR {
                return Err(e);
            }
        }
    }
}

pub fn set_bufsize(fd: i32, snd: bool, bytes: i32) {
    unsafe {
        libc::setsockopt(fd, libc::SOL_SOCKET, if snd { libc::SO_SNDBUF } else { libc::SO_RCVBUF }, &bytes as *const _ as *const libc::c_void, 4);
    }
}

pub fn is_nonblocking(fd: i32) -> Option<bool> {
    let fl = unsafe { libc::fcntl(fd, libc::F_GETFL) };
    if fl < 0 {
        None
    } else {
        Some(fl & libc::O_NONBLOCK != 0)
    }
}

/// libc write of the whole buffer on a blocking descriptor. Ok(()) or Err(errno) (EAGAIN = safety timeout).
pub fn libc_write_all(fd: i32, mut b: &[u8]) -> Result<(), i32> {
    while !b.is_empty() {
        let n = unsafe { libc::send(fd, b.as_ptr() as *const libc::c_void, b.len(), libc::MSG_NOSIGNAL) };
        if n < 0 {
            let e = errno();
            if e == EINTR {
                continue;
            }
            return Err(e);
        }
        b = &b[n as usize..];
    }
    Ok(())
}

/// libc read of up to `want` bytes on a blocking descriptor, stopping at EOF.
pub fn libc_read_upto(fd: i32, want: usize) -> Result<Vec<u8>, i32> {
    let mut out = vec![0u8; want];
    let mut got = 0;
    while got < want {
        let n = unsafe { libc::read(fd, out[got..].as_mut_ptr() as *mut libc::c_void, want - got) };
        if n < 0 {
            let e = errno();
            if e == EINTR {
                continue;
            }
            return Err(e);
        }
        if n == 0 {
            break;
        }
        got += n as usize;
    }
    out.truncate(got);
    Ok(out)
}

// ------------------------------------------------------------------------------------------
// interposer helpers
// ------------------------------------------------------------------------------------------

/// Clears plan and log of the interposer when a case ends, however it ends.
pub struct PlanGuard;

impl Drop for PlanGuard {
    fn drop(&mut self) {
        sc::verif::clear_plan();
        let _ = sc::verif::log_end();
    }
}

pub fn is_errno(ret: usize, e: i32) -> bool {
    ret == sc::verif::neg_errno(e)
}

/// Number of "<nr> answered EAGAIN/EINPROGRESS, then ppoll was really executed" cycles in a log.
pub fn blocked_cycles(log: &[Call], nr: usize, block_errno: i32) -> usize {
    let mut n = 0;
    let mut armed = false;
    for c in log {
        if c.nr == nr && c.executed && is_errno(c.ret, block_errno) {
            armed = true;
        } else if c.nr == sc::nr::PPOLL && armed {
            if c.executed {
                n += 1;
                armed = false;
            }
        } else if c.nr == nr {
            armed = false;
        }
    }
    n
}

/// Cycles "read answered EAGAIN, ppoll really waited, the next read delivered data" (a wait in
/// the middle of the stream, not the final wait for EOF).
pub fn read_blocked_mid_stream(log: &[Call]) -> usize {
    let mut n = 0;
    let mut state = 0; // 0 idle, 1 read said EAGAIN, 2 ppoll executed after that
    for c in log {
        if c.nr == sc::nr::READ && c.executed {
            if is_errno(c.ret, EAGAIN) {
                state = 1;
            } else {
                if state == 2 && (c.ret as isize) > 0 {
                    n += 1;
                }
                state = 0;
            }
        } else if c.nr == sc::nr::PPOLL && c.executed && state >= 1 {
            state = 2;
        }
    }
    n
}

/// Descriptor returned by the first successful `socket` call in a log (how the harness learns
/// the descriptor of a tiny-std listener, which has no `AsRawFd`).
pub fn socket_fd_from_log(log: &[Call]) -> Option<i32> {
    log.iter().find(|c| c.nr == sc::nr::SOCKET && c.executed && (c.ret as isize) >= 0).map(|c| c.ret as i32)
}

pub const BLOCKING_NRS: [(usize, &str); 11] = [
    (sc::nr::PPOLL, "ppoll"),
    (sc::nr::POLL, "poll"),
    (sc::nr::SELECT, "select"),
    (sc::nr::PSELECT6, "pselect6"),
    (sc::nr::EPOLL_WAIT, "epoll_wait"),
    (sc::nr::EPOLL_PWAIT, "epoll_pwait"),
    (sc::nr::EPOLL_PWAIT2, "epoll_pwait2"),
    (sc::nr::NANOSLEEP, "nanosleep"),
    (sc::nr::CLOCK_NANOSLEEP, "clock_nanosleep"),
    (sc::nr::FUTEX, "futex"),
    (sc::nr::PAUSE, "pause"),
];

/// Trace property "never blocks": no waiting syscall at all, and every socket call that can
/// block (connect/accept/read/write/recv*/send*) is issued on a descriptor that is known to be
/// non-blocking (`nonblocking` = descriptors the harness verified with F_GETFL before the call,
/// plus descriptors created inside the call by `socket(.., SOCK_NONBLOCK)`).
pub fn never_blocks(op: &str, log: &[Call], nonblocking: &BTreeSet<i32>) -> Result<(), Failure> {
    let mut nb: BTreeSet<i32> = nonblocking.clone();
    for c in log {
        if let Some((_, name)) = BLOCKING_NRS.iter().find(|(n, _)| *n == c.nr) {
            return Err(Failure::new(format!("{op}|blocking-syscall|{name}"), format!("{op} issued the waiting syscall {name} (args {:x?}, ret {:#x})", &c.args[..c.nargs as usize], c.ret)));
        }
        if c.nr == sc::nr::SOCKET && (c.ret as isize) >= 0 && c.args[1] & O_NONBLOCK != 0 {
            nb.insert(c.ret as i32);
        }
        if c.nr == sc::nr::ACCEPT4 && (c.ret as isize) >= 0 && c.args[3] & O_NONBLOCK != 0 {
            nb.insert(c.ret as i32);
        }
        let may_block = [sc::nr::CONNECT, sc::nr::ACCEPT, sc::nr::ACCEPT4, sc::nr::READ, sc::nr::WRITE, sc::nr::RECVFROM, sc::nr::RECVMSG, sc::nr::SENDTO, sc::nr::SENDMSG];
        if may_block.contains(&c.nr) && !nb.contains(&(c.args[0] as i32)) {
            let flagged = matches!(c.nr, x if x == sc::nr::RECVFROM || x == sc::nr::RECVMSG || x == sc::nr::SENDTO || x == sc::nr::SENDMSG) && {
                let flags_idx = if c.nr == sc::nr::RECVMSG || c.nr == sc::nr::SENDMSG { 2 } else { 3 };
                c.args[flags_idx] & (libc::MSG_DONTWAIT as usize) != 0
            };
            if !flagged {
                return Err(Failure::new(format!("{op}|blocking-syscall|socket call on a blocking descriptor"), format!("{op} issued syscall {} on descriptor {} which is not in non-blocking mode", c.nr, c.args[0])));
            }
        }
    }
    Ok(())
}

/// A descriptor closed twice within one call, without having been handed out again in between: the second close
/// hits whatever another thread has opened under that number since.
pub fn no_double_close(op: &str, log: &[Call]) -> Result<(), Failure> {
    let mut closed: BTreeSet<i32> = BTreeSet::new();
    for c in log {
        let ret = c.ret as isize;
        // calls that hand out a descriptor number make it live again
        let creates = [sc::nr::SOCKET, sc::nr::ACCEPT, sc::nr::ACCEPT4, sc::nr::OPENAT, sc::nr::DUP3];
        if creates.contains(&c.nr) && ret >= 0 {
            closed.remove(&(ret as i32));
        }
        if c.nr == sc::nr::CLOSE {
            let fd = c.args[0] as i32;
            if !closed.insert(fd) {
                return Err(Failure::new(format!("{op}|double-close|same descriptor closed twice in one call"), format!("{op} called close({fd}) twice without the number having been handed out again in between: the second close destroys whatever another thread opened under that number meanwhile")));
            }
        }
    }
    Ok(())
}

pub fn cstring(p: &str) -> CString {
    CString::new(p).unwrap()
}

// ------------------------------------------------------------------------------------------
// definitive-hang watch
// ------------------------------------------------------------------------------------------

/// Watches the calling thread while it is inside the library. A wait that can only end through
/// the harness - read(2), or ppoll with a NULL timeout - which is still in place `after` the
/// start (sampled three times, 200 ms apart, the thread not having woken up in between) and for which `still_pointless()` holds (e.g. "the peer is
/// silent", "the socket is writable") is a *definitive* hang, not slowness: `release` is then
/// called (it makes the peer act so that the call comes back) and `finish()` reports it.
pub struct HangWatch {
    returned: std::sync::Arc<std::sync::atomic::AtomicBool>,
    stuck: std::sync::Arc<std::sync::Mutex<Option<String>>>,
    handle: Option<std::thread::JoinHandle<()>>,
}

/// "read(2)" / "ppoll without time limit" when the thread is parked in such a call
pub fn untimed_wait_of(tid: i32) -> Option<&'static str> {
    let sc = std::fs::read_to_string(format!("/proc/self/task/{tid}/syscall")).ok()?;
    let f: Vec<&str> = sc.split_whitespace().collect();
    match f.first().copied() {
        Some("0") => Some("read(2)"),
        // ppoll(fds, nfds, tmo_p, sigmask, sigsetsize)
        Some("271") if f.get(3).copied() == Some("0x0") => Some("ppoll without a time limit"),
        // connect(fd, ..) on a descriptor in blocking mode
        Some("42") => {
            let fd = i32::from_str_radix(f.get(1)?.trim_start_matches("0x"), 16).ok()?;
            (is_nonblocking(fd) == Some(false)).then_some("connect(2) on a blocking socket")
        }
        _ => None,
    }
}

fn voluntary_switches(tid: i32) -> Option<u64> {
    let st = std::fs::read_to_string(format!("/proc/self/task/{tid}/status")).ok()?;
    st.lines().find_map(|l| l.strip_prefix("voluntary_ctxt_switches:")).and_then(|v| v.trim().parse().ok())
}

impl HangWatch {
    pub fn start(after: std::time::Duration, still_pointless: impl Fn() -> bool + Send + 'static, release: impl FnOnce() + Send + 'static) -> HangWatch {
        use std::sync::atomic::Ordering::SeqCst;
        let tid = unsafe { libc::syscall(libc::SYS_gettid) } as i32;
        let returned = std::sync::Arc::new(std::sync::atomic::AtomicBool::new(false));
        let stuck = std::sync::Arc::new(std::sync::Mutex::new(None));
        let (r2, s2) = (returned.clone(), stuck.clone());
        let handle = std::thread::spawn(move || {
            let deadline = std::time::Instant::now() + after;
            while std::time::Instant::now() < deadline {
                if r2.load(SeqCst) {
                    return;
                }
                std::thread::sleep(std::time::Duration::from_millis(5));
            }
            let mut what = None;
            let mut sleeps: Option<u64> = None;
            for _ in 0..3 {
                if r2.load(SeqCst) {
                    return;
                }
                match untimed_wait_of(tid) {
                    Some(w) if still_pointless() => what = Some(w),
                    _ => return, // not (or no longer) in such a wait: leave it to the outer time limit
                }
                // ... and it is one and the same sleep: the thread did not wake up in between
                let now = voluntary_switches(tid);
                if now.is_none() || (sleeps.is_some() && sleeps != now) {
                    return;
                }
                sleeps = now;
                std::thread::sleep(std::time::Duration::from_millis(200));
            }
            if r2.load(SeqCst) {
                return;
            }
            *s2.lock().unwrap() = what.map(|w| w.to_string());
            release();
        });
        HangWatch { returned, stuck, handle: Some(handle) }
    }
    /// Call right after the library call returned. `Some(wait)` = it had to be released by the harness.
    pub fn finish(mut self) -> Option<String> {
        self.returned.store(true, std::sync::atomic::Ordering::SeqCst);
        if let Some(h) = self.handle.take() {
            let _ = h.join();
        }
        self.stuck.lock().unwrap().clone()
    }
}

// ------------------------------------------------------------------------------------------
// real interruptions: SIGUSR1 (handler installed without SA_RESTART) sent to the calling thread
// at chosen offsets while it is inside a library call, so that waits fail with EINTR after real
// time has passed
// ------------------------------------------------------------------------------------------

pub static SIGNALS_HANDLED: std::sync::atomic::AtomicU32 = std::sync::atomic::AtomicU32::new(0);

extern "C" fn on_usr1(_sig: i32) {
    SIGNALS_HANDLED.fetch_add(1, std::sync::atomic::Ordering::Relaxed);
}

pub struct Interrupter {
    stop: std::sync::Arc<std::sync::atomic::AtomicBool>,
    handle: Option<std::thread::JoinHandle<()>>,
}

impl Interrupter {
    /// Signals the CALLING thread at the given offsets (microseconds from now) until dropped.
    pub fn start(offsets_us: Vec<u64>) -> Interrupter {
        static ONCE: std::sync::Once = std::sync::Once::new();
        ONCE.call_once(|| unsafe {
            let mut sa: libc::sigaction = core::mem::zeroed();
            sa.sa_sigaction = on_usr1 as *const () as usize;
            sa.sa_flags = 0; // no SA_RESTART
            libc::sigemptyset(&mut sa.sa_mask);
            libc::sigaction(libc::SIGUSR1, &sa, core::ptr::null_mut());
        });
        let target = unsafe { libc::pthread_self() } as usize;
        let stop = std::sync::Arc::new(std::sync::atomic::AtomicBool::new(false));
        let s2 = stop.clone();
        let t0 = std::time::Instant::now();
        let handle = std::thread::spawn(move || {
            for off in offsets_us {
                let at = std::time::Duration::from_micros(off);
                loop {
                    if s2.load(std::sync::atomic::Ordering::SeqCst) {
                        return;
                    }
                    let now = t0.elapsed();
                    if now >= at {
                        break;
                    }
                    let left = at - now;
                    if left > std::time::Duration::from_micros(300) {
                        std::thread::sleep(left - std::time::Duration::from_micros(200));
                    } else {
                        std::hint::spin_loop();
                    }
                }
                if s2.load(std::sync::atomic::Ordering::SeqCst) {
                    return;
                }
                unsafe { libc::pthread_kill(target as libc::pthread_t, libc::SIGUSR1) };
            }
        });
        Interrupter { stop, handle: Some(handle) }
    }
}

impl Drop for Interrupter {
    fn drop(&mut self) {
        self.stop.store(true, std::sync::atomic::Ordering::SeqCst);
        if let Some(h) = self.handle.take() {
            let _ = h.join();
        }
    }
}
