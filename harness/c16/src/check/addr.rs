//! "addr": socket paths of every length the address structure can hold, and just beyond. The other
//! sub-checks meet at short paths; here the path is the variable: total length 1 byte more than the
//! directory up to 107 bytes (the longest `sun_path` takes with its terminator) must bind, connect and
//! carry a payload intact both ways, with the kernel reporting exactly that path as the listener's name;
//! 108 bytes and more, and paths with a byte outside 7-bit ASCII (documented as refused), must come back
//! as an error - never a panic, never a socket at a different (truncated) path.
use std::os::unix::ffi::OsStrExt;

use serde::{Deserialize, Serialize};
use tiny_std::io::{Read, Write};
use tiny_std::net::{UnixListener, UnixStream};
use vh::runner::{no_panic, CaseReport, CaseResult, Ctx};

use super::common::*;

#[derive(Debug, Clone, Serialize, Deserialize)]
pub struct AddrCase {
    /// total length of the path in bytes (without terminator)
    pub len: u8,
    /// 0 tiny-std listener, libc client; 1 libc listener, `UnixStream::connect`; 2 libc listener, `UnixStream::try_connect`
    pub mode: u8,
    /// a byte >= 0x80 at this position of the file name (None: plain ASCII)
    pub non_ascii_at: Option<u8>,
}

const MAX_OK: usize = 107;

fn listener_name(fd: i32) -> Vec<u8> {
    let mut sa: libc::sockaddr_un = unsafe { core::mem::zeroed() };
    let mut len = core::mem::size_of::<libc::sockaddr_un>() as u32;
    if unsafe { libc::getsockname(fd, &mut sa as *mut _ as *mut libc::sockaddr, &mut len) } != 0 {
        return Vec::new();
    }
    let n = (len as usize).saturating_sub(2).min(108);
    let raw: Vec<u8> = sa.sun_path[..n].iter().map(|&c| c as u8).collect();
    let end = raw.iter().position(|&c| c == 0).unwrap_or(raw.len());
    raw[..end].to_vec()
}

pub fn run_addr(c: &AddrCase) -> CaseResult {
    match inner(c) {
        Ok(r) => Ok(r),
        Err(Stop::Fail(f)) => Err(f),
        Err(Stop::Inconclusive(why)) => {
            let mut r = CaseReport::new();
            r.class("inconclusive-environment");
            eprintln!("[C16 addr] inconclusive: {why}");
            Ok(r)
        }
    }
}

fn inner(c: &AddrCase) -> Result<CaseReport, Stop> {
    let mut rep = CaseReport::new();
    let dir = CaseDir::new();
    let len = c.len as usize;
    if len < dir.path.len() + 2 {
        return Ok(rep);
    }
    let name_len = len - dir.path.len() - 1;
    let mut name: Vec<u8> = (0..name_len).map(|i| b"sockpathxyz"[i % 11]).collect();
    let ascii = match c.non_ascii_at {
        Some(at) => {
            let k = at as usize % name_len;
            name[k] = 0xe9;
            false
        }
        None => true,
    };
    let mut path: Vec<u8> = dir.path.as_bytes().to_vec();
    path.push(b'/');
    path.extend_from_slice(&name);
    let mut z = path.clone();
    z.push(0);
    let up = rusl::string::unix_str::UnixStr::try_from_bytes(&z).expect("path without NUL");
    let fits = len <= MAX_OK && ascii;
    let what = format!("a socket path of {len} bytes{}", if ascii { "" } else { " with a byte outside ASCII" });
    let data = payload(len as u32 * 31 + c.mode as u32, 3000);
    let os_path = std::path::Path::new(std::ffi::OsStr::from_bytes(&path));
    // what exists in the directory afterwards (a socket bound at a truncated path would show here)
    let stray = |dir: &CaseDir| -> Vec<Vec<u8>> { std::fs::read_dir(&dir.path).map(|d| d.filter_map(|e| e.ok()).map(|e| e.file_name().as_bytes().to_vec()).filter(|n| *n != name).collect()).unwrap_or_default() };
    match c.mode {
        0 => {
            sc::verif::log_begin();
            let r = no_panic("UnixListener::bind", || UnixListener::bind(up));
            let log = sc::verif::log_end();
            let r = r?;
            match (r, fits) {
                (Ok(mut l), true) => {
                    let lfd = socket_fd_from_log(&log).ok_or_else(|| Stop::Inconclusive("no socket call in the log of bind".into()))?;
                    let got = listener_name(lfd);
                    if got != path {
                        return Err(stop_fail("UnixListener::bind|bound-at-another-path", format!("{what}: the kernel reports the listener at {:?} ({} bytes)", String::from_utf8_lossy(&got), got.len())));
                    }
                    let p = String::from_utf8(path.clone()).unwrap();
                    let cl = libc_unix_connect(&p).map_err(|e| stop_fail("UnixListener::bind|not-reachable-at-its-path", format!("{what}: a libc connect to it fails with errno {e}")))?;
                    let mut s = no_panic("UnixListener::accept", || l.accept())?.map_err(|e| unexpected("UnixListener::accept", &e, "one pending connection"))?;
                    libc_write_all(cl.fd(), &data).map_err(|e| Stop::Inconclusive(format!("libc write: errno {e}")))?;
                    let mut got = vec![0u8; data.len()];
                    no_panic("UnixStream::read_exact", || s.read_exact(&mut got))?.map_err(|e| unexpected("UnixStream::read_exact", &e, "3000 bytes sent"))?;
                    compare_streams("unix", "tiny-std reads", &data, &got)?;
                    no_panic("UnixStream::write_all", || s.write_all(&data))?.map_err(|e| unexpected("UnixStream::write_all", &e, "peer reading"))?;
                    let back = libc_read_upto(cl.fd(), data.len()).map_err(|e| Stop::Inconclusive(format!("libc read: errno {e}")))?;
                    compare_streams("unix", "libc reads", &data, &back)?;
                    rep.class("listener-at-generated-path-length");
                }
                (Ok(_l), false) => {
                    return Err(stop_fail("UnixListener::bind|accepted-unrepresentable-path", format!("{what}: bind returned a listener (documented: error); the directory now holds {:?}", stray(&dir).iter().map(|n| String::from_utf8_lossy(n).into_owned()).collect::<Vec<_>>())));
                }
                (Err(e), true) => return Err(stop_fail("UnixListener::bind|refused-representable-path", format!("{what} (the structure holds 107 plus the terminator): bind failed: {e}"))),
                (Err(_), false) => rep.class("unrepresentable-path-refused"),
            }
        }
        _ => {
            let opname = if c.mode == 1 { "UnixStream::connect" } else { "UnixStream::try_connect" };
            // the listener is libc's, at the path if the structure can hold it (otherwise nobody listens: the
            // call must fail on its own account)
            let l = if len <= MAX_OK { Some(std::os::unix::net::UnixListener::bind(os_path).map_err(|e| Stop::Inconclusive(format!("std bind: {e}")))?) } else { None };
            let r = no_panic(opname, || if c.mode == 1 { UnixStream::connect(up).map(Some) } else { UnixStream::try_connect(up) })?;
            match (r, fits) {
                (Ok(Some(mut s)), true) => {
                    let (mut peer, _) = l.as_ref().unwrap().accept().map_err(|e| Stop::Inconclusive(format!("std accept: {e}")))?;
                    use std::io::{Read as _, Write as _};
                    no_panic("UnixStream::write_all", || s.write_all(&data))?.map_err(|e| unexpected("UnixStream::write_all", &e, "peer reading"))?;
                    let mut got = vec![0u8; data.len()];
                    peer.read_exact(&mut got).map_err(|e| Stop::Inconclusive(format!("std read: {e}")))?;
                    compare_streams("unix", "std reads", &data, &got)?;
                    peer.write_all(&data).map_err(|e| Stop::Inconclusive(format!("std write: {e}")))?;
                    let mut back = vec![0u8; data.len()];
                    // the stream may be non-blocking (try_connect): read until complete, within a generous limit
                    let t0 = std::time::Instant::now();
                    let mut have = 0;
                    while have < back.len() && t0.elapsed() < std::time::Duration::from_secs(10) {
                        match no_panic("UnixStream::read", || s.read(&mut back[have..]))? {
                            Ok(0) => break,
                            Ok(n) => have += n,
                            Err(e) if matches!(ek(&e), EK::Os(x) if x == libc::EAGAIN || x == libc::EINTR) => std::thread::sleep(std::time::Duration::from_micros(200)),
                            Err(e) => return Err(unexpected("UnixStream::read", &e, "3000 bytes sent")),
                        }
                    }
                    compare_streams("unix", "tiny-std reads", &data, &back[..have])?;
                    rep.class("connected-at-generated-path-length");
                }
                (Ok(Some(_)), false) => return Err(stop_fail(format!("{opname}|accepted-unrepresentable-path"), format!("{what}: a stream was returned (documented: error)"))),
                (Ok(None), true) => return Err(stop_fail(format!("{opname}|none-with-room|empty queue"), format!("{what}: Ok(None) although a listener with an empty queue is there"))),
                (Ok(None), false) => return Err(stop_fail(format!("{opname}|none-for-unrepresentable-path"), format!("{what}: Ok(None) (documented: error)"))),
                (Err(e), true) => return Err(stop_fail(format!("{opname}|refused-representable-path"), format!("{what} (the structure holds 107 plus the terminator), a listener is there: {e}"))),
                (Err(_), false) => rep.class("unrepresentable-path-refused"),
            }
        }
    }
    let extra = stray(&dir);
    if !extra.is_empty() {
        return Err(stop_fail("unix address|socket-at-another-path", format!("{what}: afterwards the directory also holds {:?}", extra.iter().map(|n| String::from_utf8_lossy(n).into_owned()).collect::<Vec<_>>())));
    }
    rep.nontrivial = true;
    rep.class_if(len == MAX_OK && ascii, "longest-representable-path");
    rep.class_if(len == MAX_OK + 1, "one-byte-too-long");
    rep.class_if(!ascii, "byte-outside-ascii");
    Ok(rep)
}

pub fn run(ctx: &Ctx) {
    if let Some(c) = ctx.replay_case::<AddrCase>("addr") {
        ctx.run_one("addr", &c, || run_addr(&c));
        return;
    }
    if ctx.is_replay() {
        return;
    }
    let mut k = 0u32;
    let mut ok = true;
    'all: for len in 30u8..=125 {
        for mode in 0u8..3 {
            for non_ascii_at in [None, Some(len / 3)] {
                // the non-ASCII variant at a handful of lengths only
                if non_ascii_at.is_some() && !(len % 16 == 0 || (105..=109).contains(&len)) {
                    continue;
                }
                k += 1;
                if k % ctx.nworkers != ctx.worker {
                    continue;
                }
                let c = AddrCase { len, mode, non_ascii_at };
                ok = ctx.run_one("addr", &c, || run_addr(&c));
                if !ok {
                    break 'all;
                }
            }
        }
    }
    if ok {
        ctx.note_exhaustive("addr: every total path length 30..=125 bytes (107 is the longest the address structure holds) x {tiny-std listener, connect, try_connect}; a byte outside ASCII at lengths 32, 48, ..., and 105..=109".to_string());
    }
}
