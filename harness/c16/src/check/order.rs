//! Sub-check "order": generated orders of connect / accept / close between the two ends.
//! Blocking `connect` and `accept` of tiny-std must complete when the peer acts - also when the
//! peer is a foreign (libc) listener with a tiny backlog whose queue is full at the time of the
//! call, and when nothing is pending at the time of `accept`. Afterwards every accepted
//! connection must be paired with exactly one client (a token travels each way).
use std::time::Duration;

use proptest::prelude::*;
use serde::{Deserialize, Serialize};
use tiny_std::net::{TcpStream, UnixStream};
use vh::runner::{no_panic, CaseReport, CaseResult};

use super::common::*;
use super::stream::{bind_tiny, loopback, BoundTiny, Tiny};

#[derive(Debug, Clone, Serialize, Deserialize)]
pub enum Step {
    /// next client connects (blocking API) and sends its token. `delay_us`: scheduling hint for
    /// the helper that accepts one connection when the listener's queue is full
    Connect { delay_us: u16 },
    /// accept the oldest pending connection; with nothing pending (tiny-std listener) a helper
    /// connects after `delay_us` while `accept` is blocked
    Accept { delay_us: u16 },
    CloseClient { idx: u8 },
    CloseServer { idx: u8 },
}

#[derive(Debug, Clone, Serialize, Deserialize)]
pub struct OrderCase {
    pub tcp: bool,
    /// 0: tiny-std clients, libc listener with `backlog`; 1: tiny-std listener, libc clients;
    /// 2: tiny-std on both ends
    pub mode: u8,
    pub backlog: u8,
    /// tiny-std connects made before the first step (mode 2, Unix; thorough tier: more than
    /// net.core.somaxconn so that the tiny-std listener's own queue fills)
    pub flood: u16,
    pub steps: Vec<Step>,
}

enum Conn {
    T(Tiny),
    R(OwnedRaw),
}

const REPLY_MASK: u32 = 0xA5C3_96F0;
/// how long a connect against a full queue is left alone before the helper makes room
const MIN_FULL_WAIT: Duration = Duration::from_millis(3);

fn token(i: usize) -> [u8; 4] {
    ((i as u32).wrapping_mul(0x9E37_79B1) ^ 0x00C1_6C16).to_le_bytes()
}

fn untoken(b: &[u8]) -> Option<usize> {
    let v = u32::from_le_bytes(b.try_into().ok()?) ^ 0x00C1_6C16;
    // 0x9E3779B1 is odd: invertible mod 2^32
    let inv = 0x9E37_79B1u32;
    let mut x = 1u32;
    // Newton iteration for the modular inverse
    for _ in 0..6 {
        x = x.wrapping_mul(2u32.wrapping_sub(inv.wrapping_mul(x)));
    }
    Some(v.wrapping_mul(x) as usize)
}

/// Blocking write of a few bytes through tiny-std.
fn tiny_send(t: &mut Tiny, b: &[u8]) -> Result<(), Stop> {
    let ty = t.ty();
    let mut off = 0;
    let mut spins = 0;
    while off < b.len() {
        match no_panic(&format!("{ty}::write"), || t.write(&b[off..]))? {
            Ok(0) => return Err(stop_fail(format!("{ty}::write|returned-0|non-empty buffer"), "write returned Ok(0)".to_string())),
            Ok(n) => off += n.min(b.len() - off),
            Err(e) => match ek(&e) {
                EK::Os(EINTR) if spins < 8 => spins += 1,
                EK::Os(EAGAIN) => return Err(stop_fail(format!("{ty}::write|EAGAIN|blocking write did not wait"), format!("blocking write returned {e}"))),
                _ => return Err(unexpected(&format!("{ty}::write"), &e, "fresh connection")),
            },
        }
    }
    Ok(())
}

/// Blocking read through tiny-std of up to `n` bytes, stopping at EOF. `Ok(Err(errno))` for
/// ECONNRESET (legal when the other end closed with unread data).
fn tiny_recv(t: &mut Tiny, n: usize) -> Result<Result<Vec<u8>, i32>, Stop> {
    let ty = t.ty();
    let mut out = Vec::new();
    let mut buf = [0u8; 16];
    let mut spins = 0;
    while out.len() < n {
        let want = n - out.len();
        match no_panic(&format!("{ty}::read"), || t.read(&mut buf[..want]))? {
            Ok(0) => break,
            Ok(k) => out.extend_from_slice(&buf[..k.min(want)]),
            Err(e) => match ek(&e) {
                EK::Os(EINTR) if spins < 8 => spins += 1,
                EK::Os(EAGAIN) => return Err(stop_fail(format!("{ty}::read|EAGAIN|blocking read did not wait"), format!("blocking read returned {e}"))),
                EK::Os(libc::ECONNRESET) => return Ok(Err(libc::ECONNRESET)),
                _ => return Err(unexpected(&format!("{ty}::read"), &e, "accepted/connected stream")),
            },
        }
    }
    Ok(Ok(out))
}

fn conn_fd(c: &Conn) -> i32 {
    match c {
        Conn::T(t) => t.raw(),
        Conn::R(r) => r.fd(),
    }
}

fn conn_send(c: &mut Conn, b: &[u8]) -> Result<(), Stop> {
    match c {
        Conn::T(t) => tiny_send(t, b),
        Conn::R(r) => libc_write_all(r.fd(), b).map_err(|e| Stop::Inconclusive(format!("libc send: errno {e}"))),
    }
}

fn conn_recv(c: &mut Conn, n: usize) -> Result<Result<Vec<u8>, i32>, Stop> {
    match c {
        Conn::T(t) => tiny_recv(t, n),
        Conn::R(r) => match libc_read_upto(r.fd(), n) {
            Ok(v) => Ok(Ok(v)),
            Err(libc::ECONNRESET) => Ok(Err(libc::ECONNRESET)),
            Err(e) => Err(Stop::Inconclusive(format!("libc read: errno {e}"))),
        },
    }
}

pub fn somaxconn() -> usize {
    std::fs::read_to_string("/proc/sys/net/core/somaxconn").ok().and_then(|s| s.trim().parse().ok()).unwrap_or(4096)
}

enum Listener {
    Libc { fd: OwnedRaw, path: String, port: u16 },
    Tiny(BoundTiny),
}

impl Listener {
    fn raw(&self) -> i32 {
        match self {
            Listener::Libc { fd, .. } => fd.fd(),
            Listener::Tiny(b) => b.fd,
        }
    }
    fn path(&self) -> &str {
        match self {
            Listener::Libc { path, .. } => path,
            Listener::Tiny(b) => &b.path,
        }
    }
    fn port(&self) -> u16 {
        match self {
            Listener::Libc { port, .. } => *port,
            Listener::Tiny(b) => b.port,
        }
    }
}

pub fn run_order(c: &OrderCase) -> CaseResult {
    match inner(c) {
        Ok(r) => Ok(r),
        Err(Stop::Fail(f)) => Err(f),
        Err(Stop::Inconclusive(why)) => {
            let mut r = CaseReport::new();
            r.class("inconclusive-environment");
            eprintln!("[C16 order] inconclusive: {why}");
            Ok(r)
        }
    }
}

fn inner(c: &OrderCase) -> Result<CaseReport, Stop> {
    let mut rep = CaseReport::new();
    let _guard = PlanGuard;
    let dir = CaseDir::new();
    let tcp = c.tcp;
    let mode = c.mode.min(2);
    let flood = if mode == 2 && !tcp { c.flood as usize } else { 0 };

    let mut listener = if mode == 0 {
        if tcp {
            let (fd, port) = libc_tcp_listener(64)?;
            Listener::Libc { fd, path: String::new(), port }
        } else {
            let path = dir.sock();
            let fd = libc_unix_listener(&path, c.backlog as i32)?;
            Listener::Libc { fd, path, port: 0 }
        }
    } else {
        Listener::Tiny(bind_tiny(tcp, &dir)?)
    };
    // how many un-accepted connections the listener's queue takes (Unix: backlog + 1)
    let capacity = if tcp {
        usize::MAX
    } else if mode == 0 {
        c.backlog as usize + 1
    } else {
        somaxconn() + 1
    };
    let cap_pending = if tcp { 8 } else { (flood + 8).max(8) };

    let mut clients: Vec<Option<Conn>> = Vec::new();
    // TCP: the local address of every client the case made (a connection from anybody else is not the case's)
    let mut client_addrs: Vec<Option<(u32, u16)>> = Vec::new();
    let mut client_closed: Vec<bool> = Vec::new();
    let mut servers: Vec<Option<Conn>> = Vec::new();
    let mut pending = 0usize;
    let mut blocked_connects = 0usize;
    let mut blocked_accepts = 0usize;
    let mut connects_before_first_accept = 0usize;
    let mut first_accept_seen = false;

    let mut steps: Vec<Step> = Vec::with_capacity(flood + c.steps.len());
    for _ in 0..flood {
        steps.push(Step::Connect { delay_us: 300 });
    }
    steps.extend(c.steps.iter().cloned());

    for st in &steps {
        match *st {
            Step::Connect { delay_us } => {
                if pending >= cap_pending || clients.len() >= 250 + flood {
                    continue;
                }
                let idx = clients.len();
                let mut conn = if mode == 1 {
                    let Listener::Tiny(b) = &listener else { unreachable!() };
                    Conn::R(b.libc_connect()?)
                } else {
                    let full = pending >= capacity;
                    let pending_at_call = pending;
                    // queue full: the connect can only complete once somebody accepts
                    // The helper accepts one connection once the call has been under way for
                    // MIN_FULL_WAIT + delay_us (a connect that waits is still inside the call
                    // then), or as soon as the call has returned (a connect that gave up must
                    // not keep the helper waiting). Either way it does accept, so a connect
                    // that waits for room always gets it.
                    let done = std::sync::Arc::new(std::sync::atomic::AtomicBool::new(false));
                    let helper = if full {
                        let lfd = listener.raw();
                        let done2 = done.clone();
                        Some(std::thread::spawn(move || {
                            let t0 = std::time::Instant::now();
                            let wait = MIN_FULL_WAIT + Duration::from_micros(delay_us as u64);
                            while !done2.load(std::sync::atomic::Ordering::Acquire) && t0.elapsed() < wait {
                                std::thread::sleep(Duration::from_micros(50));
                            }
                            libc_accept(lfd)
                        }))
                    } else {
                        None
                    };
                    // every other connect that has to wait takes four signals (handler without SA_RESTART) during the
                    // first 2.4 ms of the wait, which lasts 3 ms at least: each interrupts the sleeping call
                    let intr = if full && delay_us % 2 == 1 { Some(Interrupter::start(vec![600, 1200, 1800, 2400])) } else { None };
                    if intr.is_some() {
                        rep.class("waiting-connect-interrupted-by-several-signals");
                    }
                    sc::verif::log_begin();
                    let r = if tcp {
                        let addr = loopback(listener.port());
                        no_panic("TcpStream::connect", || TcpStream::connect(&addr)).map(|r| r.map(Tiny::T))
                    } else {
                        let up = ustr(listener.path());
                        no_panic("UnixStream::connect", || UnixStream::connect(&up)).map(|r| r.map(Tiny::U))
                    };
                    let log = sc::verif::log_end();
                    drop(intr);
                    done.store(true, std::sync::atomic::Ordering::Release);
                    if let Some(h) = helper {
                        match h.join().expect("helper") {
                            Ok(fd) => {
                                servers.push(Some(Conn::R(fd)));
                                pending -= 1;
                                first_accept_seen = true;
                            }
                            Err(e) => return Err(Stop::Inconclusive(format!("helper accept: errno {e}"))),
                        }
                    }
                    let opname = if tcp { "TcpStream::connect" } else { "UnixStream::connect" };
                    match r? {
                        Ok(t) => {
                            if full {
                                blocked_connects += 1;
                            }
                            let _ = log;
                            Conn::T(t)
                        }
                        Err(e) => {
                            if full && ek(&e) == EK::Os(EAGAIN) {
                                return Err(stop_fail(
                                    "UnixStream::connect|EAGAIN|backlog full",
                                    format!("blocking UnixStream::connect against a listener whose queue was full ({pending_at_call} connections pending; {} holds {capacity}) returned {e} instead of completing when the peer accepted (a helper thread accepts one connection 3 ms + {} us after the call starts, or once the call has returned)", if mode == 0 { format!("libc listener, listen backlog {}", c.backlog) } else { "tiny-std listener, backlog clamped to net.core.somaxconn".to_string() }, delay_us),
                                ));
                            }
                            return Err(unexpected(opname, &e, if full { "listener queue full, peer accepts" } else { "listener has room" }));
                        }
                    }
                };
                conn_send(&mut conn, &token(idx))?;
                client_addrs.push(tcp_name(conn_fd(&conn), false));
                clients.push(Some(conn));
                client_closed.push(false);
                pending += 1;
                if !first_accept_seen {
                    connects_before_first_accept += 1;
                }
            }
            Step::Accept { delay_us } => {
                if pending > 0 {
                    accept_one(&mut listener, &mut servers, &mut rep)?;
                    pending -= 1;
                    first_accept_seen = true;
                } else if let Listener::Tiny(b) = &mut listener {
                    // nothing pending: accept has to wait for the helper's connect
                    if clients.len() >= 250 + flood {
                        continue;
                    }
                    let idx = clients.len();
                    let (path, port) = (b.path.clone(), b.port);
                    let helper = std::thread::spawn(move || -> Result<OwnedRaw, i32> {
                        std::thread::sleep(Duration::from_micros(delay_us as u64));
                        let fd = if path.is_empty() { libc_tcp_connect(port, false)? } else { libc_unix_connect(&path)? };
                        libc_write_all(fd.fd(), &token(idx))?;
                        Ok(fd)
                    });
                    sc::verif::log_begin();
                    let r = b.accept();
                    let log = sc::verif::log_end();
                    let cl = helper.join().expect("helper");
                    let s = r?;
                    match cl {
                        Ok(fd) => {
                            client_addrs.push(tcp_name(fd.fd(), false));
                            clients.push(Some(Conn::R(fd)));
                            client_closed.push(false);
                        }
                        Err(e) => return Err(Stop::Inconclusive(format!("helper connect: errno {e}"))),
                    }
                    servers.push(Some(Conn::T(s)));
                    first_accept_seen = true;
                    if blocked_cycles(&log, sc::nr::ACCEPT4, EAGAIN) > 0 {
                        blocked_accepts += 1;
                    }
                }
            }
            Step::CloseClient { idx } => {
                let open: Vec<usize> = (0..clients.len()).filter(|&i| clients[i].is_some()).collect();
                if !open.is_empty() {
                    let i = open[idx as usize % open.len()];
                    clients[i] = None;
                    client_closed[i] = true;
                    rep.class("client-closed-early");
                }
            }
            Step::CloseServer { idx } => {
                let open: Vec<usize> = (0..servers.len()).filter(|&i| servers[i].is_some()).collect();
                if !open.is_empty() {
                    let i = open[idx as usize % open.len()];
                    servers[i] = None;
                    rep.class("server-closed-early");
                }
            }
        }
    }
    while pending > 0 {
        accept_one(&mut listener, &mut servers, &mut rep)?;
        pending -= 1;
    }

    // pairing: every open accepted connection carries the token of exactly one client
    let mut seen = vec![false; clients.len()];
    let mut paired_client_of_server: Vec<Option<usize>> = vec![None; servers.len()];
    for (j, s) in servers.iter_mut().enumerate() {
        let Some(s) = s else { continue };
        if c.tcp {
            if let Some(from) = tcp_name(conn_fd(s), true) {
                if !client_addrs.contains(&Some(from)) {
                    return Err(Stop::Inconclusive(format!("accepted connection {j} comes from a client the case did not make (a foreign client on the listener's port)")));
                }
            }
        }
        let got = conn_recv(s, 4)?;
        let bytes = match got {
            Ok(b) => b,
            Err(_) => return Err(stop_fail("order|reset-on-accepted|token unread", format!("accepted connection {j} was reset before its token could be read"))),
        };
        if bytes.len() != 4 {
            return Err(stop_fail("order|token-missing|accepted connection without data", format!("accepted connection {j} delivered {} of 4 token bytes before EOF", bytes.len())));
        }
        let i = untoken(&bytes).unwrap_or(usize::MAX);
        if i >= clients.len() || seen[i] {
            return Err(stop_fail("order|pairing|token unknown or seen twice", format!("accepted connection {j} carries token {bytes:02x?} = client {i} ({} clients, already seen: {})", clients.len(), i < seen.len() && seen[i])));
        }
        seen[i] = true;
        paired_client_of_server[j] = Some(i);
    }
    for j in 0..servers.len() {
        let Some(i) = paired_client_of_server[j] else { continue };
        let s = servers[j].as_mut().unwrap();
        if client_closed[i] {
            // client closed after sending its token: the accepted side sees EOF
            match conn_recv(s, 1)? {
                Ok(b) if b.is_empty() => {}
                Ok(b) => return Err(stop_fail("order|data-after-close|bytes from a closed client", format!("accepted connection {j}: client {i} is closed but {b:02x?} arrived"))),
                Err(_) => {}
            }
            rep.class("eof-on-accepted");
        } else {
            let reply = (u32::from_le_bytes(token(i)) ^ REPLY_MASK).to_le_bytes();
            conn_send(s, &reply)?;
            let cl = clients[i].as_mut().unwrap();
            match conn_recv(cl, 4)? {
                Ok(b) if b == reply => {}
                Ok(b) => return Err(stop_fail("order|reply-mismatch|client got other bytes", format!("client {i} expected reply {reply:02x?} from accepted connection {j}, got {b:02x?}"))),
                Err(e) => return Err(stop_fail("order|reply-reset|client got an error", format!("client {i} got errno {e} instead of the reply"))),
            }
        }
    }
    // clients whose accepted end was closed by the harness: EOF or ECONNRESET (token unread)
    for i in 0..clients.len() {
        if seen[i] {
            continue;
        }
        if let Some(cl) = clients[i].as_mut() {
            match conn_recv(cl, 1)? {
                Ok(b) if b.is_empty() => {}
                Ok(b) => return Err(stop_fail("order|data-after-close|bytes from a closed server end", format!("client {i}: its accepted end is closed but {b:02x?} arrived"))),
                Err(_) => {}
            }
        }
    }

    rep.class(if tcp { "tcp" } else { "unix" });
    rep.class(match mode {
        0 => "tiny-clients-libc-listener",
        1 => "tiny-listener-libc-clients",
        _ => "tiny-both",
    });
    rep.class_if(mode == 0 && !tcp && c.backlog == 0, "backlog-0");
    rep.class_if(blocked_connects > 0, "connect-while-backlog-full");
    rep.class_if(blocked_accepts > 0, "accept-blocked");
    rep.class_if(connects_before_first_accept >= 2, "k>=2-connects-before-first-accept");
    rep.class_if(flood > 0, "flood");
    rep.nontrivial = !clients.is_empty();
    Ok(rep)
}

fn accept_one(listener: &mut Listener, servers: &mut Vec<Option<Conn>>, _rep: &mut CaseReport) -> Result<(), Stop> {
    match listener {
        Listener::Libc { fd, .. } => {
            let s = libc_accept(fd.fd()).map_err(|e| Stop::Inconclusive(format!("libc accept: errno {e}")))?;
            servers.push(Some(Conn::R(s)));
        }
        Listener::Tiny(b) => {
            let s = b.accept()?;
            servers.push(Some(Conn::T(s)));
        }
    }
    Ok(())
}

fn step_strategy() -> impl Strategy<Value = Step> {
    prop_oneof![
        5 => prop_oneof![Just(0u16), 100u16..3000].prop_map(|delay_us| Step::Connect { delay_us }),
        4 => prop_oneof![Just(0u16), 100u16..3000].prop_map(|delay_us| Step::Accept { delay_us }),
        1 => any::<u8>().prop_map(|idx| Step::CloseClient { idx }),
        1 => any::<u8>().prop_map(|idx| Step::CloseServer { idx }),
    ]
}

pub fn order_strategy() -> impl Strategy<Value = OrderCase> {
    let steps = prop_oneof![
        // k connects first, then a free mix
        2 => (0usize..7, prop::collection::vec(step_strategy(), 0..8)).prop_map(|(k, rest)| {
            let mut v: Vec<Step> = (0..k).map(|i| Step::Connect { delay_us: 200 + 150 * i as u16 }).collect();
            v.extend(rest);
            v
        }),
        2 => prop::collection::vec(step_strategy(), 1..14),
    ];
    (any::<bool>(), prop_oneof![3 => Just(0u8), 2 => Just(1u8), 1 => Just(2u8)], 0u8..3, steps).prop_map(|(tcp, mode, backlog, steps)| OrderCase { tcp, mode, backlog, flood: 0, steps })
}
