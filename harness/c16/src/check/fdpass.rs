//! Sub-check "fdpass": descriptors sent with `rusl::network::sendmsg` as SCM_RIGHTS ancillary
//! data and received with `rusl::network::recvmsg` into a control buffer of generated size that
//! ENDS at a PROT_NONE page (start kept 8-byte aligned, as every cmsg user must).
//!
//! Oracle: `MsgHdrBorrow::control_messages()` yields exactly the descriptor lists that an
//! independent walk over the raw control bytes finds (glibc CMSG_FIRSTHDR/CMSG_NXTHDR semantics
//! over `[msg_control, msg_control + msg_controllen)` as the kernel left them), every delivered
//! descriptor is `fstat`-identical (st_dev, st_ino) to the one sent at the same position, without
//! MSG_CTRUNC all of them arrive. Reading outside the buffer faults on the guard page.
//!
//! Because such a fault kills the process, each case body runs in a forked child (the worker is
//! single-threaded at this point); the child reports over a pipe which stage it is in. A child
//! killed by a signal while inside the iterator, three times out of three, is the violation
//! `recvmsg-control-iter|SIG..|<shape>`. `C16_FDPASS_INPROCESS=1` runs the body in the worker
//! itself instead (the orchestrator's crash policy then takes over).
use std::io::Read as _;
use std::os::fd::FromRawFd;

use proptest::prelude::*;
use rusl::platform::{ControlMessageSend, Fd, IoSlice, IoSliceMut, MsgHdrBorrow};
use serde::{Deserialize, Serialize};
use vh::runner::{catch, CaseReport, CaseResult, Failure};
use vh::util::Guarded;

use super::common::*;

#[derive(Debug, Clone, Serialize, Deserialize)]
pub struct FdCase {
    /// descriptors sent (0..=32), each a distinct temp file
    pub nfds: u8,
    /// with nfds == 0: send an SCM_RIGHTS message with an empty list instead of no control data
    pub empty_rights: bool,
    /// receive control buffer length = max(0, CMSG_SPACE(4*nfds) + rel); rel == 0 is the exact fit
    pub rel: i16,
    /// pass `None` instead of an empty slice when the length is 0
    pub no_buffer: bool,
    /// what the control buffer holds before the call: 0 zeroes, 1 0xff, 2 a stale SCM_RIGHTS
    /// message image repeated (a buffer that was used before), 3 pseudo-random bytes
    pub fill: u8,
    /// MsgHdrBorrow lives in a Box (true) or on the stack (false)
    pub boxed: bool,
    pub data_len: u8,
    /// the message is built with `MsgHdr::update_control` over a caller-supplied control area of
    /// exactly CMSG_SPACE bytes that ends at a guard page (and handed to sendmsg(2) as it is),
    /// instead of `MsgHdrBorrow::create_send`
    #[serde(default)]
    pub raw_send: bool,
    /// SO_PASSCRED on the receiving socket: the kernel puts an SCM_CREDENTIALS message (28 bytes, not a multiple
    /// of 8) in front of the SCM_RIGHTS one, so the control data holds two messages
    #[serde(default)]
    pub passcred: bool,
}

pub fn cmsg_space(data: usize) -> usize {
    ((data + 7) & !7) + 16
}

impl FdCase {
    pub fn space(&self) -> usize {
        let rights = if self.nfds == 0 && !self.empty_rights { 0 } else { cmsg_space(4 * self.nfds as usize) };
        rights + self.cred_space()
    }
    /// room the credentials message takes (sizeof(struct ucred) = 12)
    pub fn cred_space(&self) -> usize {
        if self.passcred {
            cmsg_space(12)
        } else {
            0
        }
    }
    pub fn ctrl_len(&self) -> usize {
        (self.space() as i64 + self.rel as i64).clamp(0, 4000) as usize
    }
    pub fn size_class(&self) -> &'static str {
        let (l, s) = (self.ctrl_len(), self.space());
        if l == 0 {
            "zero-control-buffer"
        } else if l < s {
            "smaller-control-buffer"
        } else if l == s {
            "exact-fit-control-buffer"
        } else if l < s + 16 {
            "larger-by-less-than-a-header"
        } else {
            "larger-control-buffer"
        }
    }
}

#[derive(Debug, Clone, Serialize, Deserialize, Default)]
struct Outcome {
    /// None = passed
    fail_sig: Option<String>,
    fail_what: String,
    inconclusive: Option<String>,
    ctrunc: bool,
    delivered: usize,
    yielded_msgs: usize,
}

const ST_SETUP: u8 = b'S';
const ST_RECV: u8 = b'R';
const ST_ITER: u8 = b'I';
const ST_AFTER: u8 = b'A';

fn mark(stage_fd: i32, st: u8) {
    if stage_fd >= 0 {
        unsafe {
            libc::write(stage_fd, &st as *const u8 as *const libc::c_void, 1);
        }
    }
}

fn fstat_id(fd: i32) -> Option<(u64, u64)> {
    unsafe {
        let mut st: libc::stat = core::mem::zeroed();
        if libc::fstat(fd, &mut st) != 0 {
            None
        } else {
            Some((st.st_dev, st.st_ino))
        }
    }
}

/// Independent walk over raw control bytes: the SCM_RIGHTS descriptor lists in order.
pub fn parse_control(raw: &[u8]) -> Vec<Vec<i32>> {
    let mut out = Vec::new();
    let mut off = 0usize;
    // CMSG_FIRSTHDR / CMSG_NXTHDR: a header must lie completely inside the control data
    while off + 16 <= raw.len() {
        let len = u64::from_ne_bytes(raw[off..off + 8].try_into().unwrap()) as usize;
        let level = i32::from_ne_bytes(raw[off + 8..off + 12].try_into().unwrap());
        let ty = i32::from_ne_bytes(raw[off + 12..off + 16].try_into().unwrap());
        if len < 16 {
            break;
        }
        let data_end = (off + len).min(raw.len());
        if level == libc::SOL_SOCKET && ty == libc::SCM_RIGHTS {
            let mut fds = Vec::new();
            let mut p = off + 16;
            while p + 4 <= data_end {
                fds.push(i32::from_ne_bytes(raw[p..p + 4].try_into().unwrap()));
                p += 4;
            }
            out.push(fds);
        }
        let step = (len + 7) & !7;
        off = match off.checked_add(step) {
            Some(v) => v,
            None => break,
        };
    }
    out
}

fn fill_buffer(buf: &mut [u8], fill: u8) {
    match fill {
        0 => buf.fill(0),
        1 => buf.fill(0xff),
        2 => {
            // image of an earlier SCM_RIGHTS message carrying descriptor 0, repeated
            let mut img = [0u8; 24];
            img[0..8].copy_from_slice(&20u64.to_ne_bytes());
            img[8..12].copy_from_slice(&libc::SOL_SOCKET.to_ne_bytes());
            img[12..16].copy_from_slice(&libc::SCM_RIGHTS.to_ne_bytes());
            for (i, b) in buf.iter_mut().enumerate() {
                *b = img[i % 24];
            }
        }
        _ => {
            let mut x = 0x1234_5678_9abc_def0u64;
            for b in buf.iter_mut() {
                x = vh::runner::splitmix(x);
                *b = x as u8;
            }
        }
    }
}

/// The whole case: set up, send, receive, compare, clean up. `stage_fd` receives progress marks.
fn body(c: &FdCase, stage_fd: i32) -> Outcome {
    let mut o = Outcome::default();
    mark(stage_fd, ST_SETUP);
    // distinct temp files (created once per worker, opened per case)
    let pool = pool_dir();
    let mut sent: Vec<OwnedRaw> = Vec::new();
    let mut sent_ids = Vec::new();
    for i in 0..c.nfds {
        let p = cstring(&format!("{pool}/f{i}"));
        let fd = unsafe { libc::open(p.as_ptr(), libc::O_CREAT | libc::O_RDWR | libc::O_CLOEXEC, 0o600) };
        if fd < 0 {
            o.inconclusive = Some(format!("open temp file: errno {}", errno()));
            return o;
        }
        let fd = OwnedRaw(fd);
        match fstat_id(fd.fd()) {
            Some(id) => sent_ids.push(id),
            None => {
                o.inconclusive = Some("fstat".into());
                return o;
            }
        }
        sent.push(fd);
    }
    let mut sv = [0i32; 2];
    if unsafe { libc::socketpair(libc::AF_UNIX, libc::SOCK_STREAM | libc::SOCK_CLOEXEC, 0, sv.as_mut_ptr()) } != 0 {
        o.inconclusive = Some(format!("socketpair: errno {}", errno()));
        return o;
    }
    let (a, b) = (OwnedRaw(sv[0]), OwnedRaw(sv[1]));
    if c.passcred {
        let one: libc::c_int = 1;
        if unsafe { libc::setsockopt(b.fd(), libc::SOL_SOCKET, libc::SO_PASSCRED, (&one as *const libc::c_int).cast(), 4) } != 0 {
            o.inconclusive = Some(format!("setsockopt(SO_PASSCRED): errno {}", errno()));
            return o;
        }
    }
    let data: Vec<u8> = (0..c.data_len.max(1)).map(|i| i.wrapping_mul(37).wrapping_add(c.nfds)).collect();

    // ---- send
    let fds: Vec<Fd> = sent.iter().map(|f| Fd::try_new(f.fd()).unwrap()).collect();
    let io_out = [IoSlice::new(&data)];
    let ctrl = if c.nfds > 0 || c.empty_rights { Some(ControlMessageSend::ScmRights(&fds)) } else { None };
    let sent_n = if c.raw_send {
        let spc = (c.space() - c.cred_space()).max(8);
        let area = Guarded::at_end(spc);
        let area_ptr: *mut u8 = unsafe { area.as_ptr().add(area.len() - spc) };
        let mut iov = libc::iovec { iov_base: data.as_ptr() as *mut libc::c_void, iov_len: data.len() };
        let r = catch(|| {
            let mut hdr = rusl::platform::MsgHdr { msg_name: core::ptr::null(), msg_namelen: 0, msg_iov: (&mut iov as *mut libc::iovec).cast(), msg_iovlen: 1, msg_control: core::ptr::null_mut(), msg_controllen: 0, msg_flags: 0 };
            unsafe { hdr.update_control(ctrl, area_ptr) };
            // same layout as struct msghdr: handed to the kernel as it stands
            let n = unsafe { libc::sendmsg(a.fd(), (&hdr as *const rusl::platform::MsgHdr).cast(), 0) };
            if n < 0 {
                Err(rusl::Error { msg: "sendmsg(2)", code: Some(rusl::error::Errno::new(errno())) })
            } else {
                Ok(n as usize)
            }
        });
        drop(area);
        r
    } else {
        catch(|| {
            let snd = MsgHdrBorrow::create_send(None, &io_out, ctrl);
            rusl::network::sendmsg(Fd::try_new(a.fd()).unwrap(), &snd, 0)
        })
    };
    match sent_n {
        Err((loc, msg)) => {
            o.fail_sig = Some(format!("sendmsg|panic|{loc}"));
            o.fail_what = format!("create_send/sendmsg with {} descriptors panicked at {loc}: {msg}", c.nfds);
            return o;
        }
        Ok(Err(e)) => {
            let k = ek_rusl(&e);
            if is_resource(&k) || k == EK::Os(libc::ETOOMANYREFS) {
                o.inconclusive = Some(format!("sendmsg: {e}"));
            } else {
                o.fail_sig = Some(format!("sendmsg|{}|{} descriptors", ek_name(&k), if c.nfds == 0 { "0" } else { "n" }));
                o.fail_what = format!("sendmsg of {} data bytes and {} descriptors failed: {e}", data.len(), c.nfds);
            }
            return o;
        }
        Ok(Ok(n)) => {
            if n != data.len() {
                o.fail_sig = Some("sendmsg|short|data bytes".into());
                o.fail_what = format!("sendmsg of {} data bytes returned {n}", data.len());
                return o;
            }
        }
    }

    // ---- receive
    let clen = c.ctrl_len();
    let alloc_len = (clen + 7) & !7;
    let g = Guarded::at_end(alloc_len.max(8));
    // start 8-byte aligned, end as close to the guard page as alignment permits (exact for
    // every multiple of 8, in particular for every CMSG_SPACE value)
    let start: *mut u8 = unsafe { g.as_ptr().add(g.len() - alloc_len) };
    let ctrl_slice: &'static mut [u8] = unsafe { core::slice::from_raw_parts_mut(start, clen) };
    fill_buffer(ctrl_slice, c.fill);
    let mut space = [0u8; 96];
    let space_ptr = space.as_mut_ptr();
    let space_static: &'static mut [u8] = unsafe { core::slice::from_raw_parts_mut(space_ptr, 96) };
    let mut io_in = [IoSliceMut::new(space_static)];
    let io_static: &'static mut [IoSliceMut<'static>] = unsafe { core::slice::from_raw_parts_mut(io_in.as_mut_ptr(), 1) };
    let cbuf: Option<&'static mut [u8]> = if clen == 0 && c.no_buffer { None } else { Some(ctrl_slice) };

    mark(stage_fd, ST_RECV);
    let mut stack_hdr: MsgHdrBorrow<'static> = MsgHdrBorrow::create_recv(io_static, cbuf);
    let mut boxed: Option<Box<MsgHdrBorrow<'static>>> = None;
    let hdr_ptr: *mut MsgHdrBorrow<'static> = if c.boxed {
        // move the header into a Box; `stack_hdr` is not used afterwards
        let bx = Box::new(unsafe { core::ptr::read(&stack_hdr) });
        boxed = Some(bx);
        &mut **boxed.as_mut().unwrap() as *mut _
    } else {
        &mut stack_hdr as *mut _
    };
    let rn = catch(|| rusl::network::recvmsg(Fd::try_new(b.fd()).unwrap(), unsafe { &mut *hdr_ptr }, libc::MSG_CMSG_CLOEXEC));
    // what the kernel left in the header (same layout as struct msghdr); only meaningful (and
    // only looked at) when the call succeeded
    let raw_hdr: libc::msghdr = unsafe { core::ptr::read(hdr_ptr as *const libc::msghdr) };
    let ok = matches!(rn, Ok(Ok(_)));
    let after_len = if ok { raw_hdr.msg_controllen as usize } else { 0 };
    let raw: Vec<u8> = if after_len > 0 && after_len <= clen { unsafe { core::slice::from_raw_parts(start, after_len).to_vec() } } else { Vec::new() };
    let expected = parse_control(&raw);
    // from here on the received descriptors are owned (closed on every path)
    let received: Vec<OwnedRaw> = expected.iter().flatten().map(|&fd| OwnedRaw(fd)).collect();
    o.delivered = received.len();
    o.ctrunc = ok && raw_hdr.msg_flags & libc::MSG_CTRUNC != 0;
    match rn {
        Err((loc, msg)) => {
            o.fail_sig = Some(format!("recvmsg|panic|{loc}"));
            o.fail_what = format!("recvmsg panicked at {loc}: {msg}");
            return o;
        }
        Ok(Err(e)) => {
            let k = ek_rusl(&e);
            if is_resource(&k) {
                o.inconclusive = Some(format!("recvmsg: {e}"));
            } else {
                o.fail_sig = Some(format!("recvmsg|{}|{}", ek_name(&k), c.size_class()));
                o.fail_what = format!("recvmsg with a {clen}-byte control buffer failed: {e}");
            }
            return o;
        }
        Ok(Ok(n)) => {
            if n != data.len() || space[..n] != data[..] {
                o.fail_sig = Some("recvmsg|data-differs|payload".into());
                o.fail_what = format!("recvmsg returned {n} data bytes {:02x?}, sent {:02x?}", &space[..n.min(96)], data);
                return o;
            }
        }
    }
    if after_len > clen {
        o.inconclusive = Some(format!("kernel reports msg_controllen {after_len} > buffer {clen}"));
        return o;
    }

    // ---- the iterator under test
    mark(stage_fd, ST_ITER);
    let it = catch(|| {
        let hdr: &'static MsgHdrBorrow<'static> = unsafe { &*hdr_ptr };
        let mut v: Vec<Vec<i32>> = Vec::new();
        for m in hdr.control_messages() {
            match m {
                ControlMessageSend::ScmRights(fds) => v.push(fds.iter().map(|f| f.value()).collect()),
            }
            if v.len() > 64 {
                break;
            }
        }
        v
    });
    mark(stage_fd, ST_AFTER);
    let yielded = match it {
        Ok(v) => v,
        Err((loc, msg)) => {
            o.fail_sig = Some(format!("recvmsg-control-iter|panic|{loc}"));
            o.fail_what = format!("iterating the control messages of a {clen}-byte control buffer ({}; kernel delivered {after_len} bytes, {} descriptors sent, header {}) panicked at {loc}: {msg}", c.size_class(), c.nfds, if c.boxed { "boxed" } else { "on the stack" });
            return o;
        }
    };
    o.yielded_msgs = yielded.len();
    if yielded != expected {
        let shape = if yielded.len() > expected.len() && yielded[..expected.len()] == expected[..] {
            "extra messages after the delivered control data"
        } else if yielded.len() < expected.len() {
            "messages missing"
        } else if yielded.len() == expected.len() && yielded.iter().zip(&expected).all(|(y, e)| y.len() < e.len() && e[..y.len()] == y[..]) {
            "descriptors missing from a message"
        } else {
            "different descriptors"
        };
        o.fail_sig = Some(format!("recvmsg-control-iter|wrong-descriptors|{shape}"));
        o.fail_what = format!("control_messages() yielded {yielded:?}, the raw control bytes ({after_len} of {clen} bytes, MSG_CTRUNC={}) hold {expected:?}; buffer pre-filled with pattern {}", o.ctrunc, c.fill);
        return o;
    }

    // ---- delivery itself: identity and count
    if received.len() > sent_ids.len() {
        o.fail_sig = Some("fdpass|more-descriptors-than-sent|count".into());
        o.fail_what = format!("{} descriptors received, {} sent", received.len(), sent_ids.len());
        return o;
    }
    for (i, r) in received.iter().enumerate() {
        let id = fstat_id(r.fd());
        if id != Some(sent_ids[i]) {
            o.fail_sig = Some("fdpass|wrong-file|fstat identity differs".into());
            o.fail_what = format!("received descriptor {i} (fd {}) is {:?}, the one sent at that position is {:?}", r.fd(), id, sent_ids[i]);
            return o;
        }
        if sent.iter().any(|s| s.fd() == r.fd()) {
            o.fail_sig = Some("fdpass|not-a-new-descriptor|same number as sent".into());
            o.fail_what = format!("received descriptor {i} has the number {} of a descriptor that is still open in this process", r.fd());
            return o;
        }
    }
    // the kernel hands over as many descriptors as the supplied buffer has room for after one header:
    // (len - sizeof(cmsghdr)) / sizeof(int) (scm_max_fds), the last message needs no trailing padding
    // (with SO_PASSCRED the credentials message comes first and takes its 32 bytes)
    let room = if clen > 16 + c.cred_space() { (clen - 16 - c.cred_space()) / 4 } else { 0 };
    if received.len() < sent_ids.len().min(room) {
        o.fail_sig = Some(format!("fdpass|descriptors-lost|the supplied control buffer has room for them|{}", c.size_class()));
        o.fail_what = format!("{} descriptors sent, control buffer of {clen} bytes has room for {room} (one 16-byte header + 4 bytes each), {} received (MSG_CTRUNC={}): the kernel was not offered the whole buffer", sent_ids.len(), received.len(), o.ctrunc);
        return o;
    }
    if !o.ctrunc && received.len() != sent_ids.len() {
        o.fail_sig = Some("fdpass|descriptors-lost|no MSG_CTRUNC".into());
        o.fail_what = format!("{} descriptors sent, {} received, MSG_CTRUNC not set (control buffer {clen} bytes)", sent_ids.len(), received.len());
        return o;
    }
    drop(received);
    drop(boxed);
    drop(sent);
    drop(a);
    drop(b);
    drop(g);
    o
}

static POOL: std::sync::OnceLock<String> = std::sync::OnceLock::new();

/// `/tmp/verif-c16-<pid>-<worker>-files/` holding the 32 distinct files whose descriptors are
/// passed (creating 32 files per case would dominate the run time). Removed by `remove_pool`.
pub fn pool_dir() -> &'static str {
    POOL.get_or_init(|| {
        let p = format!("/tmp/verif-c16-{}-{}-files", std::process::id(), WORKER.load(std::sync::atomic::Ordering::Relaxed));
        let _ = std::fs::remove_dir_all(&p);
        std::fs::create_dir_all(&p).expect("create pool dir");
        for i in 0..32 {
            std::fs::write(format!("{p}/f{i}"), format!("file {i}\n")).expect("create pool file");
        }
        p
    })
}

pub fn remove_pool() {
    if let Some(p) = POOL.get() {
        let _ = std::fs::remove_dir_all(p);
    }
}

enum ChildEnd {
    Exited(Outcome),
    Signaled { sig: i32, stage: u8 },
    Broken(String),
}

fn run_in_child(c: &FdCase) -> ChildEnd {
    let mut res = [0i32; 2];
    let mut stg = [0i32; 2];
    unsafe {
        if libc::pipe2(res.as_mut_ptr(), libc::O_CLOEXEC) != 0 || libc::pipe2(stg.as_mut_ptr(), libc::O_CLOEXEC) != 0 {
            return ChildEnd::Broken(format!("pipe2: errno {}", errno()));
        }
    }
    let pid = unsafe { libc::fork() };
    if pid < 0 {
        unsafe {
            for fd in res.iter().chain(stg.iter()) {
                libc::close(*fd);
            }
        }
        return ChildEnd::Broken(format!("fork: errno {}", errno()));
    }
    if pid == 0 {
        // child: single-threaded copy of the worker
        unsafe {
            libc::close(res[0]);
            libc::close(stg[0]);
            // a fault here is an answer, not something to journal or dump
            let no_core = libc::rlimit { rlim_cur: 0, rlim_max: 0 };
            libc::setrlimit(libc::RLIMIT_CORE, &no_core);
            for sig in [libc::SIGSEGV, libc::SIGBUS, libc::SIGILL, libc::SIGABRT, libc::SIGFPE] {
                libc::signal(sig, libc::SIG_DFL);
            }
        }
        let o = body(c, stg[1]);
        let js = serde_json::to_vec(&o).unwrap_or_default();
        unsafe {
            let mut off = 0;
            while off < js.len() {
                let n = libc::write(res[1], js[off..].as_ptr() as *const libc::c_void, js.len() - off);
                if n <= 0 {
                    break;
                }
                off += n as usize;
            }
            libc::_exit(0);
        }
    }
    unsafe {
        libc::close(res[1]);
        libc::close(stg[1]);
    }
    let mut rf = unsafe { std::fs::File::from_raw_fd(res[0]) };
    let mut sf = unsafe { std::fs::File::from_raw_fd(stg[0]) };
    let mut js = Vec::new();
    let _ = rf.read_to_end(&mut js);
    let mut stages = Vec::new();
    let _ = sf.read_to_end(&mut stages);
    let mut status = 0i32;
    loop {
        let r = unsafe { libc::waitpid(pid, &mut status, 0) };
        if r == pid {
            break;
        }
        if r < 0 && errno() != EINTR {
            return ChildEnd::Broken(format!("waitpid: errno {}", errno()));
        }
    }
    // a crashed child cannot remove its temp dir
    let _ = std::fs::remove_dir_all(format!("/tmp/verif-c16-{}-{}", pid, WORKER.load(std::sync::atomic::Ordering::Relaxed)));
    if libc::WIFSIGNALED(status) {
        return ChildEnd::Signaled { sig: libc::WTERMSIG(status), stage: stages.last().copied().unwrap_or(b'?') };
    }
    match serde_json::from_slice::<Outcome>(&js) {
        Ok(o) => ChildEnd::Exited(o),
        Err(e) => ChildEnd::Broken(format!("child exited with status {status:#x} without a readable outcome: {e}")),
    }
}

fn signame(s: i32) -> String {
    match s {
        libc::SIGSEGV => "SIGSEGV".into(),
        libc::SIGBUS => "SIGBUS".into(),
        libc::SIGABRT => "SIGABRT".into(),
        libc::SIGILL => "SIGILL".into(),
        n => format!("signal {n}"),
    }
}

pub fn run_fdpass(c: &FdCase) -> CaseResult {
    let _ = pool_dir(); // before any fork, so that children inherit it
    let inproc = std::env::var("C16_FDPASS_INPROCESS").map(|v| v == "1").unwrap_or(false);
    let outcome = if inproc {
        body(c, -1)
    } else {
        match run_in_child(c) {
            ChildEnd::Exited(o) => o,
            ChildEnd::Broken(why) => {
                eprintln!("[C16 fdpass] inconclusive: {why}");
                let mut r = CaseReport::new();
                r.class("inconclusive-environment");
                return Ok(r);
            }
            ChildEnd::Signaled { sig, stage } => {
                // the crash policy, locally: the same case twice more in fresh children
                let mut again = 0;
                for _ in 0..2 {
                    if let ChildEnd::Signaled { sig: s2, stage: st2 } = run_in_child(c) {
                        if s2 == sig && st2 == stage {
                            again += 1;
                        }
                    }
                }
                if again < 2 {
                    eprintln!("[C16 fdpass] crash with {} in stage {} not reproducible: inconclusive", signame(sig), stage as char);
                    let mut r = CaseReport::new();
                    r.class("inconclusive-environment");
                    return Ok(r);
                }
                let hdr = if c.boxed { "boxed" } else { "on the stack" };
                if stage == ST_ITER {
                    return Err(Failure::new(
                        format!("recvmsg-control-iter|{}|{}", signame(sig), c.size_class()),
                        format!(
                            "iterating control_messages() after recvmsg into a {}-byte control buffer ending at a PROT_NONE page ({}; {} descriptors sent, CMSG_SPACE = {}, MsgHdrBorrow {hdr}) killed the process with {} - reproduced 3 times out of 3: the iterator reads outside the supplied buffer",
                            c.ctrl_len(),
                            c.size_class(),
                            c.nfds,
                            c.space(),
                            signame(sig)
                        ),
                    ));
                }
                return Err(Failure::new(format!("fdpass|{}|stage {}", signame(sig), stage as char), format!("child died with {} outside the iterator (stage {}), 3 times out of 3", signame(sig), stage as char)));
            }
        }
    };
    if let Some(why) = outcome.inconclusive {
        eprintln!("[C16 fdpass] inconclusive: {why}");
        let mut r = CaseReport::new();
        r.class("inconclusive-environment");
        return Ok(r);
    }
    if let Some(sig) = outcome.fail_sig {
        return Err(Failure::new(sig, outcome.fail_what));
    }
    let mut rep = CaseReport::new();
    rep.class(c.size_class());
    rep.class(if c.boxed { "header-boxed" } else { "header-on-stack" });
    rep.class_if(outcome.ctrunc, "truncated-MSG_CTRUNC");
    rep.class_if(outcome.ctrunc && outcome.delivered > 0, "truncated-some-delivered");
    rep.class_if(c.nfds == 0, "no-descriptors");
    rep.class_if(c.nfds == 32, "32-descriptors");
    rep.class_if(c.raw_send, "sent-through-MsgHdr-update_control");
    rep.class_if(c.passcred && outcome.delivered > 0, "credentials-message-in-front-of-the-descriptors");
    rep.class_if(c.fill == 2, "stale-message-in-buffer");
    rep.class_if(outcome.delivered > 0, "descriptors-delivered");
    // non-trivial: a control buffer that is not the comfortable zeroed oversize one of the tests
    rep.nontrivial = c.nfds > 0 && !(c.ctrl_len() == 64 && c.fill == 0);
    Ok(rep)
}

pub fn fd_strategy() -> impl Strategy<Value = FdCase> {
    let nfds = prop_oneof![2 => Just(0u8), 3 => Just(1u8), 2 => Just(2u8), 4 => 3u8..32, 1 => Just(32u8)];
    // stratified over the size classes: zero, smaller, exact fit, larger by 1..64
    let rel = prop_oneof![
        3 => Just(0i16),
        2 => 1i16..=64,
        1 => 1i16..16,
        2 => -160i16..0,
        1 => Just(-4000i16),
        1 => prop::sample::select(vec![-4i16, -8, -12, -16, -20, -24]),
    ];
    (nfds, any::<bool>(), rel, any::<bool>(), 0u8..4, any::<bool>(), 1u8..=64, prop::bool::weighted(0.25), prop::bool::weighted(0.3)).prop_map(|(nfds, empty_rights, rel, no_buffer, fill, boxed, data_len, raw_send, passcred)| FdCase { nfds, empty_rights, rel, no_buffer, fill, boxed, data_len, raw_send, passcred })
}
