//! C16 — Stream sockets deliver bytes intact; waits, timeouts, fd passing as specified.
//!
//! Code under test: `tiny_std::net` (Unix and TCP streams/listeners over non-blocking sockets:
//! operation, on EAGAIN/EINPROGRESS `ppoll`, then one retry), `rusl::network::{sendmsg, recvmsg}`
//! with `ControlMessageSend::ScmRights` and the control-message iterator of `MsgHdrBorrow`.
//!
//! Sub-checks (each a proptest strategy over a serialisable case, see the modules):
//!   stream    one end tiny-std (harness thread), other end libc (peer thread); payload
//!             0..8 MiB, chunk sequences 1..256 KiB on both sides, stalls, small socket buffers;
//!             received stream == sent stream, `read` == 0 only after the peer closed
//!   eintr     the same with EINTR injected (E2) into ppoll/read/write of the tiny-std side
//!   timeouts  accept_with_timeout / connect_with_timeout / read_with_timeout, silent peer:
//!             Timeout, and monotonic elapsed >= requested
//!   try       try_accept / try_connect: no waiting syscall, socket calls only on non-blocking
//!             descriptors (trace property from the E2 log)
//!   order     orders of connect/accept/close, k connects before the first accept, libc
//!             listeners with backlog 0..2, accept with nothing pending
//!   fdpass    SCM_RIGHTS with 0..32 descriptors into control buffers of every size class that
//!             end at a PROT_NONE page; runs LAST, each case body in a forked child
//!
//! Wall-clock time is never an upper bound anywhere; the delays in the cases are scheduling
//! hints for the peer thread, and whether a wait really happened is read from the E2 log.
mod common;
mod fdpass;
mod order;
mod stream;
mod timeouts;
mod trycalls;

use std::cell::Cell;
use std::sync::atomic::Ordering;

use serde_json::json;
use vh::runner::Ctx;

pub fn run(ctx: &Ctx) {
    common::WORKER.store(ctx.worker, Ordering::Relaxed);
    // a peer that went away must surface as EPIPE, not kill the worker
    unsafe {
        libc::signal(libc::SIGPIPE, libc::SIG_IGN);
    }
    let fds0 = common::count_fds();
    let max_leak = Cell::new(0i64);
    let track = |before: usize| {
        let d = common::count_fds() as i64 - before as i64;
        if d > max_leak.get() {
            max_leak.set(d);
        }
    };
    let th = ctx.thorough();

    ctx.run_prop("stream", ctx.cases(220, 6000), stream::stream_strategy(th, false), |c| {
        let b = common::count_fds();
        let r = stream::run_stream(c);
        track(b);
        r
    });
    ctx.run_prop("eintr", ctx.cases(120, 4000), stream::stream_strategy(th, true), |c| {
        let b = common::count_fds();
        let r = stream::run_stream(c);
        track(b);
        r
    });
    ctx.run_prop("timeouts", ctx.cases(60, 1200), timeouts::timeout_strategy(), |c| {
        let b = common::count_fds();
        let r = timeouts::run_timeout(c);
        track(b);
        r
    });
    ctx.run_prop("try", ctx.cases(150, 5000), trycalls::try_strategy(), |c| {
        let b = common::count_fds();
        let r = trycalls::run_try(c);
        track(b);
        r
    });
    ctx.run_prop("order", ctx.cases(150, 5000), order::order_strategy(), |c| {
        let b = common::count_fds();
        let r = order::run_order(c);
        track(b);
        r
    });
    // more connects than net.core.somaxconn against a tiny-std listener (it listens with
    // i32::MAX, clamped by the kernel): thorough tier, one worker
    if (th && ctx.worker == 0) || ctx.is_replay() {
        let k = order::somaxconn() + 3;
        let case = order::OrderCase { tcp: false, mode: 2, backlog: 0, flood: k.min(60_000) as u16, steps: vec![order::Step::Accept { delay_us: 0 }, order::Step::Connect { delay_us: 500 }] };
        let mut lim = libc::rlimit { rlim_cur: 0, rlim_max: 0 };
        let enough = unsafe { libc::getrlimit(libc::RLIMIT_NOFILE, &mut lim) == 0 && (lim.rlim_cur as usize) > 2 * k + 200 };
        if ctx.is_replay() {
            if let Some(c) = ctx.replay_case::<order::OrderCase>("order-flood") {
                ctx.run_one("order-flood", &c, || order::run_order(&c));
            }
        } else if enough && k < 30_000 {
            ctx.run_one("order-flood", &case, || order::run_order(&case));
        }
    }
    ctx.extra("max_fd_delta_per_case_before_fdpass", json!(max_leak.get()));
    let _ = fds0;

    // LAST: a fault inside the control-message iterator kills the process that runs the case
    // body (a forked child by default, the worker itself with C16_FDPASS_INPROCESS=1)
    ctx.run_prop("fdpass", ctx.cases(400, 20_000), fdpass::fd_strategy(), |c| fdpass::run_fdpass(c));
}
