//! C16 — Stream sockets deliver bytes intact; waits, timeouts, fd passing as specified.
//!
//! Code under test: `tiny_std::net` (Unix and TCP streams/listeners over non-blocking sockets:
//! operation, on EAGAIN/EINPROGRESS `ppoll`, then one retry), `rusl::network::{sendmsg, recvmsg}`
//! with `ControlMessageSend::ScmRights` and the control-message iterator of `MsgHdrBorrow`.
//!
//! Sub-checks (each a proptest strategy over a serialisable case, see the modules):
//!   stream    one end tiny-std (harness thread), other end libc (peer thread); payload
//!             0..8 MiB, chunk sequences 1..256 KiB on both sides, stalls, small socket buffers;
//!             received stream == sent stream, `read` == 0 only after the peer closed
//!   eintr     the same with EINTR injected (E2) into ppoll/read/write of the tiny-std side
//!   timeouts  accept_with_timeout / connect_with_timeout / read_with_timeout, silent peer:
//!             Timeout, and monotonic elapsed >= requested
//!   try       try_accept / try_connect: no waiting syscall, socket calls only on non-blocking
//!             descriptors (trace property from the E2 log)
//!   inprogress continuing a TCP connection left in progress by try_connect (try_connect again /
//!             connect_blocking) and plain blocking connect against a full accept queue
//!   order     orders of connect/accept/close, k connects before the first accept, libc
//!             listeners with backlog 0..2, accept with nothing pending
//!   fdpass    SCM_RIGHTS with 0..32 descriptors into control buffers of every size class that
//!             end at a PROT_NONE page; runs LAST, each case body in a forked child
//!
//! Wall-clock time is never an upper bound anywhere; the delays in the cases are scheduling
//! hints for the peer thread, and whether a wait really happened is read from the E2 log.
mod addr;
mod common;
mod fdpass;
mod order;
mod stream;
mod timeouts;
mod trycalls;

use std::cell::Cell;
use std::sync::atomic::Ordering;

use serde_json::json;
use vh::runner::{CaseResult, Ctx};

pub fn run(ctx: &Ctx) {
    common::WORKER.store(ctx.worker, Ordering::Relaxed);
    // a peer that went away must surface as EPIPE, not kill the worker
    unsafe {
        libc::signal(libc::SIGPIPE, libc::SIG_IGN);
    }
    let max_delta = Cell::new(0i64);
    let th = ctx.thorough();
    // development aids: C16_ONLY=stream,order restricts the run to the named sub-checks,
    // C16_TIMING=1 prints the elapsed time after each sub-check
    let only: Option<Vec<String>> = std::env::var("C16_ONLY").ok().map(|v| v.split(',').map(|x| x.to_string()).collect());
    let on = |name: &str| only.as_ref().map(|o| o.iter().any(|x| x == name)).unwrap_or(true);
    let t_start = std::time::Instant::now();
    let lap = |name: &str| {
        if std::env::var("C16_TIMING").is_ok() {
            eprintln!("[C16 timing] worker {} after {name}: {:?}", ctx.worker, t_start.elapsed());
        }
    };
    // descriptor hygiene of the harness: open descriptors before/after every case (statistic)
    fn tracked<'a, C: std::fmt::Debug>(max_delta: &'a Cell<i64>, f: impl Fn(&C) -> CaseResult + 'a) -> impl Fn(&C) -> CaseResult + 'a {
        move |c| {
            let before = common::count_fds() as i64;
            let t0 = std::time::Instant::now();
            let r = f(c);
            if t0.elapsed().as_millis() > 100 && std::env::var("C16_TIMING").is_ok() {
                eprintln!("[C16 timing] slow case {:?}: {:?}", t0.elapsed(), c);
            }
            let d = common::count_fds() as i64 - before;
            if d > max_delta.get() {
                max_delta.set(d);
            }
            r
        }
    }

    if on("stream") {
        ctx.run_prop("stream", ctx.cases(180, 4500), stream::stream_strategy(th, false), tracked(&max_delta, stream::run_stream));
        lap("stream");
    }
    if on("eintr") {
        ctx.run_prop("eintr", ctx.cases(100, 3000), stream::stream_strategy(th, true), tracked(&max_delta, stream::run_stream));
        lap("eintr");
    }
    if on("timeouts") {
        ctx.run_prop("timeouts", ctx.cases(60, 1200), timeouts::timeout_strategy(), tracked(&max_delta, timeouts::run_timeout));
        lap("timeouts");
    }
    if on("try") {
        ctx.run_prop("try", ctx.cases(150, 5000), trycalls::try_strategy(), tracked(&max_delta, trycalls::run_try));
        lap("try");
    }
    if on("inprogress") {
        // up to ~1 s per case (SYN retransmission) when the listener's queue is full
        ctx.run_prop("inprogress", ctx.cases(8, 120), trycalls::inprogress_strategy(), tracked(&max_delta, trycalls::run_inprogress));
        lap("inprogress");
    }
    if on("addr") {
        addr::run(ctx);
        lap("addr");
    }
    if on("order") {
        ctx.run_prop("order", ctx.cases(150, 5000), order::order_strategy(), tracked(&max_delta, order::run_order));
        lap("order");
    }
    // more connects than net.core.somaxconn against a tiny-std listener (it listens with
    // i32::MAX, clamped by the kernel): thorough tier, one worker
    if on("order-flood") {
        if ctx.is_replay() {
            if let Some(c) = ctx.replay_case::<order::OrderCase>("order-flood") {
                ctx.run_one("order-flood", &c, || order::run_order(&c));
            }
        } else if th && ctx.worker == 0 {
            let k = order::somaxconn() + 3;
            let case = order::OrderCase { tcp: false, mode: 2, backlog: 0, flood: k.min(60_000) as u16, steps: vec![order::Step::Accept { delay_us: 0 }, order::Step::Connect { delay_us: 500 }] };
            let mut lim = libc::rlimit { rlim_cur: 0, rlim_max: 0 };
            let enough = unsafe { libc::getrlimit(libc::RLIMIT_NOFILE, &mut lim) == 0 && (lim.rlim_cur as usize) > 2 * k + 200 };
            if enough && k < 30_000 {
                ctx.run_one("order-flood", &case, || order::run_order(&case));
            }
            lap("order-flood");
        }
    }
    ctx.extra("max_fd_delta_per_case", json!(max_delta.get()));

    // LAST: a fault inside the control-message iterator kills the process that runs the case
    // body (a forked child by default, the worker itself with C16_FDPASS_INPROCESS=1)
    if on("fdpass") {
        ctx.run_prop("fdpass", ctx.cases(800, 20_000), fdpass::fd_strategy(), fdpass::run_fdpass);
        fdpass::remove_pool();
        lap("fdpass");
    }
}
