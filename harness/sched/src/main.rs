//! E3 — owned-schedule explorer for tiny-std's Mutex (C01) and RwLock (C02).
//!
//! The lock sources are the repository's text (see build.rs), compiled against the
//! deterministic runtime in `shim.rs`.
use std::rc::Rc;

use proptest::prelude::*;
use serde::{Deserialize, Serialize};

use vh::runner::{CaseReport, CaseResult, Ctx, Failure};

pub mod shim;

include!(concat!(env!("OUT_DIR"), "/gen_sync.rs"));

mod real;

use shim::{Events, ExecStats, Sched, Tracked};
use sync::{Mutex, RwLock};

#[derive(Debug, Clone, Copy, Serialize, Deserialize, PartialEq, Eq, Hash)]
pub enum MKind {
    Lock,
    TryLock,
    /// `{:?}` of the mutex itself: takes the lock (try_lock) for as long as the value is formatted
    Debug,
}

#[derive(Debug, Clone, Copy, Serialize, Deserialize, PartialEq, Eq, Hash)]
pub enum RKind {
    Read,
    Write,
    TryRead,
    TryWrite,
}

#[derive(Debug, Clone, Serialize, Deserialize)]
pub struct MutexCase {
    /// per thread: list of (operation, extra scheduling points inside the critical section)
    pub prog: Vec<Vec<(MKind, u8)>>,
    pub sched: Sched,
    pub events: Events,
}

#[derive(Debug, Clone, Serialize, Deserialize)]
pub struct RwCase {
    pub prog: Vec<Vec<(RKind, u8)>>,
    pub sched: Sched,
    pub events: Events,
}

const STEP_BUDGET: u32 = 20_000;

struct Monitor {
    writers: std::cell::Cell<u32>,
    readers: std::cell::Cell<u32>,
    /// threads between the start of an acquire call and the end of the guard's drop
    active: std::cell::RefCell<[bool; shim::MAXT]>,
    activations: std::cell::Cell<u64>,
    sections: std::cell::Cell<u64>,
    last_written: std::cell::Cell<u64>,
    try_fail: std::cell::Cell<u32>,
    try_ok: std::cell::Cell<u32>,
}

impl Monitor {
    fn new() -> Self {
        Monitor {
            writers: 0.into(),
            readers: 0.into(),
            active: [false; shim::MAXT].into(),
            activations: 0.into(),
            sections: 0.into(),
            last_written: 0.into(),
            try_fail: 0.into(),
            try_ok: 0.into(),
        }
    }
    fn activate(&self, t: usize) {
        self.active.borrow_mut()[t] = true;
        self.activations.set(self.activations.get() + 1);
    }
    fn deactivate(&self, t: usize) {
        self.active.borrow_mut()[t] = false;
    }
    fn others_active(&self, t: usize) -> bool {
        self.active.borrow().iter().enumerate().any(|(i, &a)| a && i != t)
    }
    fn enter_excl(&self, what: &str) {
        if self.writers.get() != 0 || self.readers.get() != 0 {
            shim::fail(format!("exclusion|{what} obtained while another guard is alive"), format!("thread {} obtained {what} while {} writer(s) and {} reader(s) hold guards", shim::current(), self.writers.get(), self.readers.get()));
        }
        self.writers.set(self.writers.get() + 1);
        shim::ex().holders += 1;
    }
    fn exit_excl(&self) {
        self.writers.set(self.writers.get() - 1);
        shim::ex().holders -= 1;
    }
    fn enter_shared(&self) {
        if self.writers.get() != 0 {
            shim::fail("exclusion|read guard obtained while a write guard is alive", format!("thread {} obtained a read guard while a writer holds the lock", shim::current()));
        }
        self.readers.set(self.readers.get() + 1);
        shim::ex().holders += 1;
    }
    fn exit_shared(&self) {
        self.readers.set(self.readers.get() - 1);
        shim::ex().holders -= 1;
    }
}

// `{:?}` of a lock formats the protected value while holding the lock: the value's Debug impl is the
// critical section. Which monitor and how many extra scheduling points: per modelled thread.
struct DbgCtx {
    mon: std::cell::RefCell<Option<Rc<Monitor>>>,
    hold: [std::cell::Cell<u8>; shim::MAXT],
}
unsafe impl Sync for DbgCtx {}
static DBG: DbgCtx = DbgCtx { mon: std::cell::RefCell::new(None), hold: [const { std::cell::Cell::new(0) }; shim::MAXT] };

impl std::fmt::Debug for Tracked {
    fn fmt(&self, f: &mut std::fmt::Formatter<'_>) -> std::fmt::Result {
        let mon = DBG.mon.borrow().clone();
        let Some(mon) = mon else { return write!(f, "{}", self.peek()) };
        let t = shim::current();
        mon.enter_excl("the lock inside Debug::fmt");
        critical_read(&mon, self, DBG.hold[t.min(shim::MAXT - 1)].get());
        mon.exit_excl();
        write!(f, "{}", self.peek())
    }
}

struct NullSink(usize);
impl std::fmt::Write for NullSink {
    fn write_str(&mut self, s: &str) -> std::fmt::Result {
        self.0 += s.len();
        Ok(())
    }
}

fn critical_write(mon: &Monitor, data: &Tracked, hold: u8) {
    let v = data.read();
    for _ in 0..hold {
        shim::yield_point();
    }
    if v != mon.last_written.get() {
        shim::fail("visibility|stale value under the lock", format!("thread {} read {} under the lock, last value written under the lock was {}", shim::current(), v, mon.last_written.get()));
    }
    data.write(v + 1);
    mon.last_written.set(v + 1);
    mon.sections.set(mon.sections.get() + 1);
}

fn critical_read(mon: &Monitor, data: &Tracked, hold: u8) {
    let v = data.read();
    for _ in 0..hold {
        shim::yield_point();
    }
    if v != mon.last_written.get() {
        shim::fail("visibility|stale value under the read lock", format!("reader thread {} saw {}, last value written under a write guard was {}", shim::current(), v, mon.last_written.get()));
    }
}

struct ExecSummary {
    stats: ExecStats,
    trace_hash: u64,
    budget_hit: bool,
    try_fail: u32,
    try_ok: u32,
}

fn run_mutex(c: &MutexCase) -> Result<ExecSummary, Failure> {
    if shim::leaked_stacks() > 40_000 {
        // too many abandoned executions in this process (a livelocking build): stop exploring
        return Ok(ExecSummary { stats: ExecStats::default(), trace_hash: 0, budget_hit: true, try_fail: 0, try_ok: 0 });
    }
    let mutex = Rc::new(Mutex::new(Tracked::new(0)));
    let mon = Rc::new(Monitor::new());
    *DBG.mon.borrow_mut() = Some(mon.clone());
    let mut bodies: Vec<Box<dyn FnOnce() + 'static>> = Vec::new();
    for (t, ops) in c.prog.iter().enumerate().take(shim::MAXT) {
        let ops = ops.clone();
        let mutex = mutex.clone();
        let mon = mon.clone();
        bodies.push(Box::new(move || {
            for (kind, hold) in ops {
                match kind {
                    MKind::Lock => {
                        mon.activate(t);
                        let g = mutex.lock();
                        mon.enter_excl("a mutex guard");
                        critical_write(&mon, &g, hold);
                        mon.exit_excl();
                        drop(g);
                        mon.deactivate(t);
                    }
                    MKind::TryLock => {
                        let others_at_start = mon.others_active(t);
                        let act0 = mon.activations.get();
                        mon.activate(t);
                        shim::ex().threads[t].in_try = true;
                        let r = mutex.try_lock();
                        shim::ex().threads[t].in_try = false;
                        match r {
                            Some(g) => {
                                mon.try_ok.set(mon.try_ok.get() + 1);
                                mon.enter_excl("a mutex guard (try_lock)");
                                critical_write(&mon, &g, hold);
                                mon.exit_excl();
                                drop(g);
                            }
                            None => {
                                mon.try_fail.set(mon.try_fail.get() + 1);
                                // own activation counted once
                                if !others_at_start && mon.activations.get() == act0 + 1 && !shim::ex().aborting {
                                    shim::fail("try_lock|failed although the mutex was never held during the call", format!("thread {t}: try_lock returned None while no other thread held a guard or was inside an acquire call at any instant of the call"));
                                }
                            }
                        }
                        mon.deactivate(t);
                    }
                    MKind::Debug => {
                        use std::fmt::Write as _;
                        // (a formatter that finds the mutex locked prints a placeholder and touches nothing)
                        DBG.hold[t.min(shim::MAXT - 1)].set(hold);
                        mon.activate(t);
                        shim::ex().threads[t].in_try = true;
                        let mut sink = NullSink(0);
                        let _ = write!(sink, "{:?}", &*mutex);
                        shim::ex().threads[t].in_try = false;
                        mon.deactivate(t);
                    }
                }
            }
        }));
    }
    let out = shim::run_execution(c.sched.clone(), c.events.clone(), STEP_BUDGET, bodies);
    *DBG.mon.borrow_mut() = None;
    if let Some((sig, what)) = out.failure {
        return Err(Failure::new(format!("Mutex|{sig}"), what));
    }
    if !out.budget_hit {
        if !out.finished.iter().all(|&f| f) {
            return Err(Failure::new("Mutex|harness|thread unfinished without deadlock", "internal"));
        }
        let v = mutex.lock_peek();
        if v != mon.sections.get() {
            return Err(Failure::new("Mutex|visibility|final value differs from number of critical sections", format!("final value {v}, {} critical sections ran", mon.sections.get())));
        }
        // the lock must be free again: a lone try_lock in a fresh execution must succeed
        let m2 = mutex.clone();
        let got = Rc::new(std::cell::Cell::new(false));
        let g2 = got.clone();
        let o2 = shim::run_execution(Sched::Preempt(vec![]), Events::default(), 1000, vec![Box::new(move || {
            g2.set(m2.try_lock().is_some());
        })]);
        if o2.failure.is_some() || !got.get() {
            return Err(Failure::new("Mutex|state|mutex not free after all guards dropped", "a lone try_lock after every thread finished returned None".to_string()));
        }
    }
    Ok(ExecSummary { stats: out.stats, trace_hash: out.trace_hash, budget_hit: out.budget_hit, try_fail: mon.try_fail.get(), try_ok: mon.try_ok.get() })
}

fn run_rw(c: &RwCase) -> Result<ExecSummary, Failure> {
    if shim::leaked_stacks() > 40_000 {
        // too many abandoned executions in this process (a livelocking build): stop exploring
        return Ok(ExecSummary { stats: ExecStats::default(), trace_hash: 0, budget_hit: true, try_fail: 0, try_ok: 0 });
    }
    let lock = Rc::new(RwLock::new(Tracked::new(0)));
    let mon = Rc::new(Monitor::new());
    let mut bodies: Vec<Box<dyn FnOnce() + 'static>> = Vec::new();
    for (t, ops) in c.prog.iter().enumerate().take(shim::MAXT) {
        let ops = ops.clone();
        let lock = lock.clone();
        let mon = mon.clone();
        bodies.push(Box::new(move || {
            for (kind, hold) in ops {
                match kind {
                    RKind::Write => {
                        let g = lock.write();
                        mon.enter_excl("a write guard");
                        critical_write(&mon, &g, hold);
                        mon.exit_excl();
                        drop(g);
                    }
                    RKind::Read => {
                        let g = lock.read();
                        mon.enter_shared();
                        critical_read(&mon, &g, hold);
                        mon.exit_shared();
                        drop(g);
                    }
                    RKind::TryWrite => {
                        shim::ex().threads[t].in_try = true;
                        let r = lock.try_write();
                        shim::ex().threads[t].in_try = false;
                        if let Some(g) = r {
                            mon.try_ok.set(mon.try_ok.get() + 1);
                            mon.enter_excl("a write guard (try_write)");
                            critical_write(&mon, &g, hold);
                            mon.exit_excl();
                            drop(g);
                        } else {
                            mon.try_fail.set(mon.try_fail.get() + 1);
                        }
                    }
                    RKind::TryRead => {
                        shim::ex().threads[t].in_try = true;
                        let r = lock.try_read();
                        shim::ex().threads[t].in_try = false;
                        if let Some(g) = r {
                            mon.try_ok.set(mon.try_ok.get() + 1);
                            mon.enter_shared();
                            critical_read(&mon, &g, hold);
                            mon.exit_shared();
                            drop(g);
                        } else {
                            mon.try_fail.set(mon.try_fail.get() + 1);
                        }
                    }
                }
            }
        }));
    }
    let out = shim::run_execution(c.sched.clone(), c.events.clone(), STEP_BUDGET, bodies);
    if let Some((sig, what)) = out.failure {
        return Err(Failure::new(format!("RwLock|{sig}"), what));
    }
    if !out.budget_hit {
        if !out.finished.iter().all(|&f| f) {
            return Err(Failure::new("RwLock|harness|thread unfinished without deadlock", "internal"));
        }
        let v = lock.data_peek();
        if v != mon.sections.get() {
            return Err(Failure::new("RwLock|visibility|final value differs from number of write sections", format!("final value {v}, {} write sections ran", mon.sections.get())));
        }
    }
    Ok(ExecSummary { stats: out.stats, trace_hash: out.trace_hash, budget_hit: out.budget_hit, try_fail: mon.try_fail.get(), try_ok: mon.try_ok.get() })
}

// accessors that bypass the lock (harness only, after all threads are done)
impl Mutex<Tracked> {
    fn lock_peek(&self) -> u64 {
        unsafe { (*(self as *const Self as *mut Self)).get_mut().peek() }
    }
}

impl RwLock<Tracked> {
    fn data_peek(&self) -> u64 {
        unsafe { (*(self as *const Self as *mut Self)).get_mut().peek() }
    }
}

fn classify(rep: &mut CaseReport, s: &ExecSummary, sched: &Sched) {
    let st = &s.stats;
    rep.nontrivial_if(st.futex_blocked > 0 || st.switches_while_held > 0);
    rep.class_if(st.futex_blocked > 0, "futex-wait-blocked");
    rep.class_if(st.wakes_that_woke > 0, "unlock-woke-a-sleeper");
    rep.class_if(st.wakes_none_asleep > 0, "wake-with-nobody-asleep");
    rep.class_if(st.futex_eagain > 0, "futex-wait-eagain");
    rep.class_if(st.futex_spurious > 0, "spurious-wake");
    rep.class_if(st.futex_eintr > 0, "eintr");
    rep.class_if(st.weak_cas_spurious > 0, "weak-cas-spurious-fail");
    rep.class_if(st.multi_waiter_wake_choice > 0, "wake-chose-among-several-waiters");
    rep.class_if(st.switches_while_held > 0, "switch-while-held");
    rep.class_if(s.try_fail > 0, "try-failed");
    rep.class_if(s.try_ok > 0, "try-succeeded");
    rep.class_if(s.budget_hit, "step-budget-hit");
    rep.distinct_key = Some(s.trace_hash);
    rep.class(match sched {
        Sched::Random(_) => "sched-random",
        Sched::Preempt(_) => "sched-bounded-preemption",
        Sched::Pct { .. } => "sched-pct",
    });
}

pub fn check_mutex(c: &MutexCase) -> CaseResult {
    let s = run_mutex(c)?;
    let mut rep = CaseReport::new();
    classify(&mut rep, &s, &c.sched);
    rep.distinct_key = Some(vh::runner::hash_of(&(s.trace_hash, &c.prog)));
    Ok(rep)
}

// ------------------------------------------------------------------------------------------
// reader limit: the lock starts with (almost) the maximum number of read guards alive - the
// state after that many leaked guards - and try_read must stop admitting readers at the maximum
// (a blocking read() at the maximum panics by design, as in std, and is not part of this domain)
// ------------------------------------------------------------------------------------------

#[derive(Debug, Clone, Copy, Serialize, Deserialize, PartialEq)]
pub enum LOp {
    TryRead,
    /// one of the pre-existing readers leaves
    Release,
    /// the oldest guard obtained in this case is dropped
    DropGuard,
    TryWrite,
}

#[derive(Debug, Clone, Serialize, Deserialize)]
pub struct LimitCase {
    /// the lock starts with MAX_READERS - below read guards alive
    pub below: u8,
    pub ops: Vec<LOp>,
}

pub fn check_rw_limit(c: &LimitCase) -> CaseResult {
    let mut rep = CaseReport::new();
    let Some(max) = RwLock::<Tracked>::VERIF_MAX_READERS else {
        rep.class("reader-limit-not-reachable(lock internals changed shape)");
        return Ok(rep);
    };
    let start = max - u32::from(c.below.min(4));
    let ops = c.ops.clone();
    let result: Rc<std::cell::RefCell<Result<(bool, bool), (String, String)>>> = Rc::new(std::cell::RefCell::new(Ok((false, false))));
    let r2 = result.clone();
    let out = shim::run_execution(Sched::Preempt(vec![]), Events::default(), 100_000, vec![Box::new(move || {
        let lock = RwLock::new(Tracked::new(0));
        lock.verif_preload_readers(start);
        let mut phantom: u64 = u64::from(start);
        let mut guards = std::collections::VecDeque::new();
        let (mut at_max, mut refused_at_max) = (false, false);
        for (i, op) in ops.iter().enumerate() {
            let alive = phantom + guards.len() as u64;
            match op {
                LOp::TryRead => match lock.try_read() {
                    Some(g) => {
                        if alive >= u64::from(max) {
                            *r2.borrow_mut() = Err(("reader-limit|try_read admitted a reader beyond the maximum".into(), format!("step {i}: {alive} read guards alive (maximum {max}) and try_read returned a guard; the state word now reads as write-locked although only readers hold it")));
                            return;
                        }
                        guards.push_back(g);
                        if alive + 1 == u64::from(max) {
                            at_max = true;
                        }
                    }
                    None => {
                        if alive >= u64::from(max) {
                            refused_at_max = true;
                        }
                    }
                },
                LOp::Release => {
                    if phantom > 0 {
                        phantom -= 1;
                        lock.verif_release_reader();
                    }
                }
                LOp::DropGuard => {
                    guards.pop_front();
                }
                LOp::TryWrite => {
                    if let Some(_g) = lock.try_write() {
                        if alive > 0 {
                            *r2.borrow_mut() = Err(("reader-limit|try_write succeeded while read guards are alive".into(), format!("step {i}: {alive} read guards alive")));
                            return;
                        }
                    }
                }
            }
        }
        *r2.borrow_mut() = Ok((at_max, refused_at_max));
    })]);
    if let Some((sig, what)) = out.failure {
        return Err(Failure::new(format!("RwLock|{sig}"), what));
    }
    let verdict = result.borrow().clone();
    match verdict {
        Err((sig, what)) => Err(Failure::new(format!("RwLock|{sig}"), what)),
        Ok((at_max, refused)) => {
            rep.nontrivial_if(at_max || refused);
            rep.class_if(at_max, "reader-count-reached-the-maximum");
            rep.class_if(refused, "try_read-refused-at-the-maximum");
            Ok(rep)
        }
    }
}

fn limit_case() -> impl Strategy<Value = LimitCase> {
    let op = prop_oneof![5 => Just(LOp::TryRead), 2 => Just(LOp::Release), 2 => Just(LOp::DropGuard), 1 => Just(LOp::TryWrite)];
    (0u8..=3, prop::collection::vec(op, 1..14)).prop_map(|(below, ops)| LimitCase { below, ops })
}

pub fn check_rw(c: &RwCase) -> CaseResult {
    let s = run_rw(c)?;
    let mut rep = CaseReport::new();
    classify(&mut rep, &s, &c.sched);
    rep.distinct_key = Some(vh::runner::hash_of(&(s.trace_hash, &c.prog)));
    Ok(rep)
}

// ------------------------------------------------------------------------------------------
// generators
// ------------------------------------------------------------------------------------------

fn sched_strategy() -> impl Strategy<Value = Sched> {
    prop_oneof![
        3 => prop::collection::vec(any::<u8>(), 0..600).prop_map(Sched::Random),
        3 => prop::collection::vec((0u32..700, 0u8..4), 0..=4).prop_map(Sched::Preempt),
        4 => (prop::collection::vec(0u8..8, 4), prop::collection::vec(0u32..500, 0..=3)).prop_map(|(prio, drops)| Sched::Pct { prio, drops }),
    ]
}

fn events_strategy() -> impl Strategy<Value = Events> {
    let b = prop_oneof![5 => 0u8..200, 2 => 200u8..228, 2 => 228u8..=255];
    prop::collection::vec(b, 0..12).prop_map(|tape| Events { tape })
}

fn mutex_case() -> impl Strategy<Value = MutexCase> {
    let op = (prop_oneof![6 => Just(MKind::Lock), 2 => Just(MKind::TryLock), 1 => Just(MKind::Debug)], 0u8..4);
    let thread = prop::collection::vec(op, 1..=3);
    (prop::collection::vec(thread, 2..=4), sched_strategy(), events_strategy()).prop_map(|(prog, sched, events)| MutexCase { prog, sched, events })
}

fn rw_case() -> impl Strategy<Value = RwCase> {
    let op = (prop_oneof![3 => Just(RKind::Read), 3 => Just(RKind::Write), 1 => Just(RKind::TryRead), 1 => Just(RKind::TryWrite)], 0u8..4);
    let thread = prop::collection::vec(op, 1..=3);
    (prop::collection::vec(thread, 2..=4), sched_strategy(), events_strategy()).prop_map(|(prog, sched, events)| RwCase { prog, sched, events })
}

/// All placements of <= 2 forced preemptions for small 2-thread programs.
fn exhaustive_mutex(ctx: &Ctx) {
    let ops = [(MKind::Lock, 0u8), (MKind::Lock, 1), (MKind::TryLock, 0)];
    let mut threads: Vec<Vec<(MKind, u8)>> = Vec::new();
    for a in ops {
        threads.push(vec![a]);
        for b in ops {
            threads.push(vec![a, b]);
        }
    }
    let mut progs = Vec::new();
    for a in &threads {
        for b in &threads {
            progs.push(vec![a.clone(), b.clone()]);
        }
    }
    let mut idx = 0usize;
    let mut total = 0u64;
    let mut ok = true;
    'outer: for prog in &progs {
        let mine = idx % ctx.nworkers as usize == ctx.worker as usize;
        idx += 1;
        if !mine {
            continue;
        }
        // horizon: longest run seen so far for this program (grows as preemptions add spins)
        let mut horizon = 8u32;
        let mut s1 = 0u32;
        while s1 <= horizon {
            // one preemption at s1, then every second one after it
            let mut s2 = s1; // s2 == s1 encodes "single preemption"
            loop {
                let pts = if s2 == s1 { vec![(s1, 1u8)] } else { vec![(s1, 1u8), (s2, 1u8)] };
                let case = MutexCase { prog: prog.clone(), sched: Sched::Preempt(pts), events: Events::default() };
                let mut steps = 0;
                ok = ctx.run_one("mutex-exh2", &case, || {
                    let s = run_mutex(&case)?;
                    steps = s.stats.steps;
                    let mut rep = CaseReport::new();
                    classify(&mut rep, &s, &case.sched);
                    rep.distinct_key = Some(vh::runner::hash_of(&(s.trace_hash, &case.prog)));
                    Ok(rep)
                });
                total += 1;
                if !ok {
                    break 'outer;
                }
                if steps + 1 > horizon {
                    horizon = steps + 1;
                }
                s2 += 1;
                if s2 > horizon {
                    break;
                }
            }
            s1 += 1;
        }
    }
    if ok {
        ctx.note_exhaustive(format!("mutex-exh2: every placement of <=2 forced preemptions (run-to-block otherwise, no spurious events) for all {} two-thread programs with <=2 ops per thread over {{lock h0, lock h1, try_lock}}; {} executions on this worker", progs.len(), total));
    }
}

/// "storm": a parked waiter is woken for nothing hundreds of times (the event tape holds K spurious returns of
/// futex_wait, K around 255 / 256 and 511 / 512 - where a narrow counter of such returns wraps) while the holder is
/// preempted inside its critical section; then a second waiter parks and the holder releases. Every placement of
/// the one forced preemption; run-to-block otherwise.
fn storm_mutex(ctx: &Ctx) {
    let prog = vec![vec![(MKind::Lock, 1u8)], vec![(MKind::Lock, 0u8)], vec![(MKind::Lock, 0u8)]];
    let mut k = 0u32;
    for spurious in [3usize, 254, 255, 256, 257, 511, 512] {
        for s1 in 0u32..24 {
            k += 1;
            if k % ctx.nworkers != ctx.worker {
                continue;
            }
            let case = MutexCase { prog: prog.clone(), sched: Sched::Preempt(vec![(s1, 1u8)]), events: Events { tape: vec![210u8; spurious] } };
            if !ctx.run_one("mutex-storm", &case, || check_mutex(&case)) {
                return;
            }
        }
    }
}

fn storm_rw(ctx: &Ctx) {
    let progs = [
        vec![vec![(RKind::Write, 1u8)], vec![(RKind::Write, 0u8)], vec![(RKind::Read, 0u8)]],
        vec![vec![(RKind::Write, 1u8)], vec![(RKind::Read, 0u8)], vec![(RKind::Write, 0u8)]],
        vec![vec![(RKind::Read, 1u8)], vec![(RKind::Write, 0u8)], vec![(RKind::Read, 0u8)]],
    ];
    let mut k = 0u32;
    for prog in &progs {
        for spurious in [3usize, 255, 256, 511] {
            for s1 in 0u32..24 {
                k += 1;
                if k % ctx.nworkers != ctx.worker {
                    continue;
                }
                let case = RwCase { prog: prog.clone(), sched: Sched::Preempt(vec![(s1, 1u8)]), events: Events { tape: vec![210u8; spurious] } };
                if !ctx.run_one("rw-storm", &case, || check_rw(&case)) {
                    return;
                }
            }
        }
    }
}

fn exhaustive_rw(ctx: &Ctx) {
    let ops = [(RKind::Read, 0u8), (RKind::Write, 0), (RKind::Write, 1), (RKind::TryWrite, 0), (RKind::TryRead, 0)];
    let mut threads: Vec<Vec<(RKind, u8)>> = Vec::new();
    for a in ops {
        threads.push(vec![a]);
        for b in [(RKind::Read, 0u8), (RKind::Write, 0)] {
            threads.push(vec![a, b]);
        }
    }
    let mut progs = Vec::new();
    for a in &threads {
        for b in &threads {
            progs.push(vec![a.clone(), b.clone()]);
        }
    }
    let mut idx = 0usize;
    let mut total = 0u64;
    let mut ok = true;
    'outer: for prog in &progs {
        let mine = idx % ctx.nworkers as usize == ctx.worker as usize;
        idx += 1;
        if !mine {
            continue;
        }
        let mut horizon = 8u32;
        let mut s1 = 0u32;
        while s1 <= horizon {
            let mut s2 = s1;
            loop {
                let pts = if s2 == s1 { vec![(s1, 1u8)] } else { vec![(s1, 1u8), (s2, 1u8)] };
                let case = RwCase { prog: prog.clone(), sched: Sched::Preempt(pts), events: Events::default() };
                let mut steps = 0;
                ok = ctx.run_one("rw-exh2", &case, || {
                    let s = run_rw(&case)?;
                    steps = s.stats.steps;
                    let mut rep = CaseReport::new();
                    classify(&mut rep, &s, &case.sched);
                    rep.distinct_key = Some(vh::runner::hash_of(&(s.trace_hash, &case.prog)));
                    Ok(rep)
                });
                total += 1;
                if !ok {
                    break 'outer;
                }
                if steps + 1 > horizon {
                    horizon = steps + 1;
                }
                s2 += 1;
                if s2 > horizon {
                    break;
                }
            }
            s1 += 1;
        }
    }
    if ok {
        ctx.note_exhaustive(format!("rw-exh2: every placement of <=2 forced preemptions for all {} two-thread programs with <=2 ops per thread; {} executions on this worker", progs.len(), total));
    }
}

/// Three threads, one operation each: every placement of <= 2 forced preemptions, each with every
/// choice of the thread switched to.
fn exhaustive3<K: Copy + Serialize + PartialEq + std::hash::Hash>(
    ctx: &Ctx,
    name: &str,
    ops: &[(K, u8)],
    mk_run: &dyn Fn(&Vec<Vec<(K, u8)>>, Sched) -> (Box<dyn Serialize3>, Result<ExecSummary, Failure>),
) {
    let mut progs = Vec::new();
    for a in ops {
        for b in ops {
            for c in ops {
                progs.push(vec![vec![*a], vec![*b], vec![*c]]);
            }
        }
    }
    let mut idx = 0usize;
    let mut total = 0u64;
    let mut ok = true;
    'outer: for prog in &progs {
        let mine = idx % ctx.nworkers as usize == ctx.worker as usize;
        idx += 1;
        if !mine {
            continue;
        }
        let mut horizon = 8u32;
        let mut s1 = 0u32;
        while s1 <= horizon {
            let mut s2 = s1;
            loop {
                let single = s2 == s1;
                for t1 in 0u8..3 {
                    for t2 in 0u8..if single { 1 } else { 3 } {
                        let pts = if single { vec![(s1, t1)] } else { vec![(s1, t1), (s2, t2)] };
                        let sched = Sched::Preempt(pts);
                        let (case, res) = mk_run(prog, sched.clone());
                        let mut steps = 0;
                        ok = ctx.run_one(name, &case.as_value(), || {
                            let s = res?;
                            steps = s.stats.steps;
                            let mut rep = CaseReport::new();
                            classify(&mut rep, &s, &sched);
                            rep.distinct_key = Some(vh::runner::hash_of(&(s.trace_hash, prog)));
                            Ok(rep)
                        });
                        total += 1;
                        if !ok {
                            break 'outer;
                        }
                        if steps + 1 > horizon {
                            horizon = steps + 1;
                        }
                    }
                }
                s2 += 1;
                if s2 > horizon {
                    break;
                }
            }
            s1 += 1;
        }
    }
    if ok {
        ctx.note_exhaustive(format!("{name}: every placement of <=2 forced preemptions x every switch target for all {} three-thread programs with one operation per thread; {} executions on this worker", progs.len(), total));
    }
}

/// object-safe "serialise to a JSON value" for the two case types
pub trait Serialize3 {
    fn as_value(&self) -> serde_json::Value;
}
impl Serialize3 for MutexCase {
    fn as_value(&self) -> serde_json::Value {
        serde_json::to_value(self).unwrap()
    }
}
impl Serialize3 for RwCase {
    fn as_value(&self) -> serde_json::Value {
        serde_json::to_value(self).unwrap()
    }
}

fn main() {
    vh::runner::main_for(|ctx| match ctx.prop.as_str() {
        "C01" => {
            if ctx.is_replay() {
                if let Some(c) = ctx.replay_case::<MutexCase>("mutex-exh2") {
                    ctx.run_one("mutex-exh2", &c, || check_mutex(&c));
                }
                if let Some(c) = ctx.replay_case::<MutexCase>("mutex-exh3") {
                    ctx.run_one("mutex-exh3", &c, || check_mutex(&c));
                }
                if let Some(c) = ctx.replay_case::<MutexCase>("mutex-storm") {
                    ctx.run_one("mutex-storm", &c, || check_mutex(&c));
                }
            } else {
                exhaustive_mutex(ctx);
                storm_mutex(ctx);
                {
                    exhaustive3(ctx, "mutex-exh3", &[(MKind::Lock, 0u8), (MKind::Lock, 1), (MKind::TryLock, 0), (MKind::Debug, 1)], &|prog, sched| {
                        let case = MutexCase { prog: prog.clone(), sched, events: Events::default() };
                        let r = run_mutex(&case);
                        (Box::new(case), r)
                    });
                }
            }
            ctx.run_prop("mutex", ctx.cases(40_000, 6_000_000), mutex_case(), check_mutex);
            real::run_mutex(ctx);
        }
        "C02" => {
            if ctx.is_replay() {
                if let Some(c) = ctx.replay_case::<RwCase>("rw-exh2") {
                    ctx.run_one("rw-exh2", &c, || check_rw(&c));
                }
                if let Some(c) = ctx.replay_case::<RwCase>("rw-exh3") {
                    ctx.run_one("rw-exh3", &c, || check_rw(&c));
                }
                if let Some(c) = ctx.replay_case::<RwCase>("rw-storm") {
                    ctx.run_one("rw-storm", &c, || check_rw(&c));
                }
            } else {
                exhaustive_rw(ctx);
                storm_rw(ctx);
                {
                    exhaustive3(ctx, "rw-exh3", &[(RKind::Read, 0u8), (RKind::Write, 0), (RKind::TryWrite, 0), (RKind::TryRead, 0)], &|prog, sched| {
                        let case = RwCase { prog: prog.clone(), sched, events: Events::default() };
                        let r = run_rw(&case);
                        (Box::new(case), r)
                    });
                }
            }
            ctx.run_prop("rwlock", ctx.cases(40_000, 6_000_000), rw_case(), check_rw);
            ctx.run_prop("rw-reader-limit", ctx.cases(1_500, 100_000), limit_case(), check_rw_limit);
            real::run_rwlock(ctx);
        }
        p => {
            eprintln!("unknown property {p}");
            std::process::exit(2);
        }
    });
}
