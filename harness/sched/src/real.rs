//! Real-thread stress of the unmodified `tiny_std::sync` types (real futex syscalls through
//! rusl). Covers what the source rewrite bypasses: rusl's futex argument encoding and the
//! agreement of wait/wake on the futex key. OS schedules are sampled, not owned: only
//! definitive observations are reported (two holders at once, a lost update, or every worker
//! thread parked in an untimed futex wait).
use std::sync::atomic::{AtomicU32, AtomicU64, Ordering};
use std::sync::Arc;
use std::time::{Duration, Instant};

use proptest::prelude::*;
use serde::{Deserialize, Serialize};

use vh::runner::{CaseReport, CaseResult, Ctx, Failure};

#[derive(Debug, Clone, Copy, Serialize, Deserialize, PartialEq)]
pub enum ROp {
    Lock,
    TryLock,
    Read,
    Write,
    TryRead,
    TryWrite,
}

#[derive(Debug, Clone, Serialize, Deserialize)]
pub struct RealCase {
    /// per thread: (operation, busy iterations inside the critical section, busy iterations
    /// before the next operation)
    pub prog: Vec<Vec<(ROp, u16, u16)>>,
    pub rounds: u16,
}

fn busy(n: u16) {
    for _ in 0..n {
        std::hint::spin_loop();
    }
}

struct Shared {
    writers: AtomicU32,
    readers: AtomicU32,
    violations: AtomicU32,
    sections: AtomicU64,
    done: AtomicU32,
}

fn all_parked_in_futex(tids: &[i32]) -> bool {
    // /proc/self/task/<tid>/syscall: "202 0x.. 0x0 ..." = futex(FUTEX_WAIT, no timeout)
    let mut parked = 0;
    let mut alive = 0;
    for tid in tids {
        let Ok(s) = std::fs::read_to_string(format!("/proc/self/task/{tid}/syscall")) else { continue };
        alive += 1;
        let f: Vec<&str> = s.split_whitespace().collect();
        if f.len() >= 5 && f[0] == "202" {
            let op = u64::from_str_radix(f[2].trim_start_matches("0x"), 16).unwrap_or(99);
            let timeout = u64::from_str_radix(f[4].trim_start_matches("0x"), 16).unwrap_or(1);
            if op & 0x7f == 0 && timeout == 0 {
                parked += 1;
            }
        }
    }
    alive > 0 && parked == alive
}

fn run_real(c: &RealCase, rw: bool) -> CaseResult {
    let mutex = Arc::new(tiny_std::sync::Mutex::new(0u64));
    let rwlock = Arc::new(tiny_std::sync::RwLock::new(0u64));
    let sh = Arc::new(Shared { writers: 0.into(), readers: 0.into(), violations: 0.into(), sections: 0.into(), done: 0.into() });
    let n = c.prog.len();
    let tids = Arc::new(std::sync::Mutex::new(Vec::<i32>::new()));
    let barrier = Arc::new(std::sync::Barrier::new(n));
    let mut handles = Vec::new();
    for ops in c.prog.iter().cloned() {
        let (mutex, rwlock, sh, tids, barrier) = (mutex.clone(), rwlock.clone(), sh.clone(), tids.clone(), barrier.clone());
        let rounds = c.rounds;
        handles.push(std::thread::spawn(move || {
            tids.lock().unwrap().push(unsafe { libc::syscall(libc::SYS_gettid) } as i32);
            barrier.wait();
            let excl = |sh: &Shared, v: &mut u64, hold: u16| {
                if sh.writers.fetch_add(1, Ordering::SeqCst) != 0 || sh.readers.load(Ordering::SeqCst) != 0 {
                    sh.violations.fetch_add(1, Ordering::SeqCst);
                }
                let x = *v;
                busy(hold);
                *v = x + 1;
                sh.sections.fetch_add(1, Ordering::SeqCst);
                sh.writers.fetch_sub(1, Ordering::SeqCst);
            };
            let shared = |sh: &Shared, hold: u16| {
                sh.readers.fetch_add(1, Ordering::SeqCst);
                if sh.writers.load(Ordering::SeqCst) != 0 {
                    sh.violations.fetch_add(1, Ordering::SeqCst);
                }
                busy(hold);
                sh.readers.fetch_sub(1, Ordering::SeqCst);
            };
            for _ in 0..rounds {
                for &(op, hold, gap) in &ops {
                    match op {
                        ROp::Lock => {
                            let mut g = mutex.lock();
                            excl(&sh, &mut g, hold);
                        }
                        ROp::TryLock => {
                            if let Some(mut g) = mutex.try_lock() {
                                excl(&sh, &mut g, hold);
                            }
                        }
                        ROp::Write => {
                            let mut g = rwlock.write();
                            excl(&sh, &mut g, hold);
                        }
                        ROp::TryWrite => {
                            if let Some(mut g) = rwlock.try_write() {
                                excl(&sh, &mut g, hold);
                            }
                        }
                        ROp::Read => {
                            let _g = rwlock.read();
                            shared(&sh, hold);
                        }
                        ROp::TryRead => {
                            if let Some(_g) = rwlock.try_read() {
                                shared(&sh, hold);
                            }
                        }
                    }
                    busy(gap);
                }
            }
            sh.done.fetch_add(1, Ordering::SeqCst);
        }));
    }
    // watchdog
    let t0 = Instant::now();
    let mut deadlocked = false;
    loop {
        if sh.done.load(Ordering::SeqCst) as usize == n {
            break;
        }
        std::thread::sleep(Duration::from_micros(200));
        if t0.elapsed() > Duration::from_secs(5) {
            // definitive only if every live worker is parked in an untimed FUTEX_WAIT, twice
            let t = tids.lock().unwrap().clone();
            if all_parked_in_futex(&t) {
                std::thread::sleep(Duration::from_millis(200));
                if all_parked_in_futex(&t) && (sh.done.load(Ordering::SeqCst) as usize) < n {
                    deadlocked = true;
                    break;
                }
            }
            if t0.elapsed() > Duration::from_secs(30) {
                break;
            }
        }
    }
    let what = if rw { "RwLock" } else { "Mutex" };
    if deadlocked {
        // threads are leaked (parked forever); the worker process is recycled by the runner
        return Err(Failure::new(format!("{what}|real-threads|deadlock: every worker parked in untimed futex wait"), format!("{} of {} threads finished; the rest are all parked in futex(FUTEX_WAIT) without timeout", sh.done.load(Ordering::SeqCst), n)));
    }
    if (sh.done.load(Ordering::SeqCst) as usize) < n {
        return Err(Failure::new(format!("{what}|real-threads|inconclusive-timeout"), "threads did not finish within 30 s but are not all parked".to_string()));
    }
    for h in handles {
        let _ = h.join();
    }
    if sh.violations.load(Ordering::SeqCst) != 0 {
        return Err(Failure::new(format!("{what}|real-threads|exclusion violated"), format!("{} critical sections overlapped", sh.violations.load(Ordering::SeqCst))));
    }
    let total = *mutex.lock() + *rwlock.write();
    if total != sh.sections.load(Ordering::SeqCst) {
        return Err(Failure::new(format!("{what}|real-threads|lost update"), format!("counter sum {} but {} exclusive sections ran", total, sh.sections.load(Ordering::SeqCst))));
    }
    let mut rep = CaseReport::new();
    rep.nontrivial_if(n >= 2);
    rep.class_if(n >= 4, "4+threads");
    Ok(rep)
}

fn real_case(rw: bool) -> impl Strategy<Value = RealCase> {
    let kinds: Vec<ROp> = if rw { vec![ROp::Read, ROp::Write, ROp::Write, ROp::TryRead, ROp::TryWrite, ROp::Read] } else { vec![ROp::Lock, ROp::Lock, ROp::Lock, ROp::TryLock] };
    let op = (prop::sample::select(kinds), prop_oneof![Just(0u16), 1u16..50, 50u16..3000], prop_oneof![Just(0u16), 1u16..200]);
    (prop::collection::vec(prop::collection::vec(op, 1..4), 2..=8), 20u16..400).prop_map(|(prog, rounds)| RealCase { prog, rounds })
}

fn tolerant(res: CaseResult, ctx: &Ctx) -> CaseResult {
    // a timeout that is not a definitive deadlock is inconclusive, never a violation
    match res {
        Err(f) if f.sig.ends_with("inconclusive-timeout") => {
            ctx.inconclusive();
            Ok(CaseReport::new())
        }
        r => r,
    }
}

pub fn run_mutex(ctx: &Ctx) {
    if ctx.worker >= 2 {
        return; // real threads want the cores: two worker processes per profile are enough
    }
    ctx.run_prop_opts("real-mutex", ctx.cases(150, 6000), 6, real_case(false), |c| tolerant(run_real(c, false), ctx));
}

/// "herd": N reader threads are parked behind one held write guard (N in the hundreds: more than any small
/// constant a hand-off could be limited to); the guard is released once; every read() must return. Definitive
/// observation: readers that have not returned are all parked in an untimed futex wait although the lock is free.
#[derive(Debug, Clone, Serialize, Deserialize)]
pub struct HerdCase {
    pub readers: u16,
}

fn run_herd(c: &HerdCase) -> CaseResult {
    let n = c.readers.clamp(1, 2000) as usize;
    let rwlock = Arc::new(tiny_std::sync::RwLock::new(0u64));
    let done = Arc::new(AtomicU32::new(0));
    let tids = Arc::new(std::sync::Mutex::new(Vec::<i32>::new()));
    let guard = rwlock.write();
    let mut handles = Vec::new();
    for _ in 0..n {
        let (rwlock, done, tids) = (rwlock.clone(), done.clone(), tids.clone());
        let h = std::thread::Builder::new().stack_size(64 * 1024).spawn(move || {
            tids.lock().unwrap().push(unsafe { libc::syscall(libc::SYS_gettid) } as i32);
            let g = rwlock.read();
            std::hint::black_box(*g);
            drop(g);
            done.fetch_add(1, Ordering::SeqCst);
        });
        match h {
            Ok(h) => handles.push(h),
            Err(_) => break,
        }
    }
    let n = handles.len();
    // wait until every reader is parked (bounded; readers still on their way only make the herd smaller)
    let t0 = Instant::now();
    while t0.elapsed() < Duration::from_secs(5) {
        let t = tids.lock().unwrap().clone();
        if t.len() == n && all_parked_in_futex(&t) {
            break;
        }
        std::thread::sleep(Duration::from_millis(2));
    }
    let parked_all = {
        let t = tids.lock().unwrap().clone();
        t.len() == n && all_parked_in_futex(&t)
    };
    drop(guard);
    let t1 = Instant::now();
    let mut stuck = false;
    while (done.load(Ordering::SeqCst) as usize) < n {
        std::thread::sleep(Duration::from_millis(2));
        if t1.elapsed() > Duration::from_secs(3) {
            let t = tids.lock().unwrap().clone();
            let left: Vec<i32> = t.iter().copied().filter(|tid| std::path::Path::new(&format!("/proc/self/task/{tid}")).exists()).collect();
            if !left.is_empty() && all_parked_in_futex(&left) {
                std::thread::sleep(Duration::from_millis(300));
                if all_parked_in_futex(&left) && (done.load(Ordering::SeqCst) as usize) < n {
                    stuck = true;
                    break;
                }
            }
            if t1.elapsed() > Duration::from_secs(30) {
                break;
            }
        }
    }
    let finished = done.load(Ordering::SeqCst) as usize;
    if stuck {
        // the parked threads are leaked; the worker process ends soon after
        return Err(Failure::new("RwLock|real-threads|lost wake-up: readers still parked after the write guard was released", format!("{n} readers were parked behind a write guard; after its release {finished} returned from read(), the other {} are all parked in futex(FUTEX_WAIT) without timeout while the lock is free", n - finished)));
    }
    if finished < n {
        return Err(Failure::new("RwLock|real-threads|inconclusive-timeout", "readers did not finish within 30 s but are not all parked".to_string()));
    }
    for h in handles {
        let _ = h.join();
    }
    let mut rep = CaseReport::new();
    rep.nontrivial = true;
    rep.class_if(parked_all, "whole-herd-parked-before-the-release");
    rep.class_if(n > 256, "more-than-256-readers-parked");
    Ok(rep)
}

pub fn run_rwlock(ctx: &Ctx) {
    if ctx.worker == 2 || ctx.worker == 3 {
        if let Some(c) = ctx.replay_case::<HerdCase>("real-rwlock-herd") {
            ctx.run_one("real-rwlock-herd", &c, || tolerant(run_herd(&c), ctx));
        } else if !ctx.is_replay() {
            for readers in if ctx.worker == 2 { [40u16, 300] } else { [257u16, 700] } {
                let c = HerdCase { readers };
                if !ctx.run_one("real-rwlock-herd", &c, || tolerant(run_herd(&c), ctx)) {
                    break;
                }
            }
        }
    }
    if ctx.worker >= 2 {
        return;
    }
    ctx.run_prop_opts("real-rwlock", ctx.cases(150, 6000), 6, real_case(true), |c| tolerant(run_real(c, true), ctx));
}
