//! Real-thread stress of the unmodified tiny_std::sync types (real futex syscalls).
use vh::runner::Ctx;

pub fn run_mutex(_ctx: &Ctx) {}
pub fn run_rwlock(_ctx: &Ctx) {}
