//! Deterministic owned-schedule runtime for the lock sources under test.
//!
//! * "Threads" are stackful coroutines on one OS thread; exactly one runs at a time.
//! * Every atomic operation, futex call, `spin_loop`, and explicit `yield_point` is a
//!   scheduling point: the coroutine suspends to the scheduler *before* the operation.
//! * Values are sequentially consistent; memory ORDERING is checked, not simulated: each
//!   thread and each atomic location carries a vector clock (release stores / RMWs publish,
//!   acquire loads / RMWs join, relaxed stores reset the location clock, relaxed RMWs keep the
//!   release sequence). `Tracked` data cells report accesses that are not ordered after the
//!   previous conflicting access as data races (FastTrack style).
//! * Futex: `wait(addr, expect)` checks the value and enqueues atomically; may return
//!   spuriously or with EINTR when the schedule's event tape says so. `wake(addr, n)` picks
//!   which waiters become runnable from the tape and returns how many it woke.
use std::cell::{Cell, RefCell, UnsafeCell};
use std::collections::BTreeMap;

use corosensei::stack::DefaultStack;
use corosensei::{Coroutine, CoroutineResult, Yielder};
use serde::{Deserialize, Serialize};

pub const MAXT: usize = 4;
pub type VClock = [u32; MAXT];

fn vc_join(a: &mut VClock, b: &VClock) {
    for i in 0..MAXT {
        if b[i] > a[i] {
            a[i] = b[i];
        }
    }
}

fn vc_leq(a: &VClock, b: &VClock) -> bool {
    (0..MAXT).all(|i| a[i] <= b[i])
}

// ------------------------------------------------------------------------------------------
// schedule description (the "tape")
// ------------------------------------------------------------------------------------------

#[derive(Debug, Clone, Serialize, Deserialize, PartialEq)]
pub enum Sched {
    /// at every scheduling point the next byte selects among the runnable threads;
    /// exhausted => keep running the current thread
    Random(Vec<u8>),
    /// run-to-block, except forced switches at the given global step indices (to thread `.1`
    /// if runnable, else the next runnable one)
    Preempt(Vec<(u32, u8)>),
    /// PCT-like: strict priorities (higher runs first); at the given steps the running
    /// thread's priority drops below everyone else's
    Pct { prio: Vec<u8>, drops: Vec<u32> },
}

#[derive(Debug, Clone, Serialize, Deserialize, PartialEq, Default)]
pub struct Events {
    /// consumed by futex_wait (block / spurious Ok / EINTR), weak CAS (spurious failure) and
    /// futex_wake (which waiter); exhausted => no spurious events, FIFO wake order
    pub tape: Vec<u8>,
}

// ------------------------------------------------------------------------------------------
// execution state
// ------------------------------------------------------------------------------------------

#[derive(Debug, Clone, Copy, PartialEq, Eq)]
pub enum Status {
    Runnable,
    Blocked(usize),
    Finished,
}

pub struct ThreadSt {
    pub status: Status,
    pub vc: VClock,
    pub yielder: *const Yielder<(), ()>,
    pub spinning: bool,
    pub in_try: bool,
    pub prio: i32,
    /// clock at the thread's last release fence (published by its later relaxed stores/RMWs)
    pub rel_fence: Option<VClock>,
    /// join of the location clocks the thread read with relaxed accesses (taken in by its next
    /// acquire fence)
    pub acq_pending: VClock,
}

#[derive(Debug, Clone, Default, Serialize)]
pub struct ExecStats {
    pub steps: u32,
    pub switches_while_held: u32,
    pub futex_blocked: u32,
    pub futex_eagain: u32,
    pub futex_spurious: u32,
    pub futex_eintr: u32,
    pub wakes_issued: u32,
    pub wakes_that_woke: u32,
    pub wakes_none_asleep: u32,
    pub weak_cas_spurious: u32,
    pub multi_waiter_wake_choice: u32,
    pub preemptions: u32,
}

pub struct Exec {
    pub threads: Vec<ThreadSt>,
    pub current: usize,
    pub sched: Sched,
    pub sched_pos: usize,
    pub events: Vec<u8>,
    pub ev_pos: usize,
    pub waiters: BTreeMap<usize, Vec<usize>>,
    pub stats: ExecStats,
    pub aborting: bool,
    /// stop scheduling: a failure was recorded or the step budget was hit
    pub stop: bool,
    pub in_coroutine: bool,
    pub failure: Option<(String, String)>,
    pub step_budget: u32,
    pub budget_hit: bool,
    pub trace: Vec<(u8, u8)>,
    pub holders: u32,
    pub low_prio: i32,
    pub last_thread: usize,
    /// consecutive scheduling points with exactly one unfinished thread
    pub alone_steps: u32,
}

pub const LONE_LIMIT: u32 = 4000;

struct Global(UnsafeCell<Option<Exec>>);
unsafe impl Sync for Global {}
static EXEC: Global = Global(UnsafeCell::new(None));

/// Access the execution state. Single OS thread; never hold the reference across a suspend.
#[allow(clippy::mut_from_ref)]
pub fn ex() -> &'static mut Exec {
    unsafe { (*EXEC.0.get()).as_mut().expect("no execution in progress") }
}

pub fn in_exec() -> bool {
    unsafe { (*EXEC.0.get()).is_some() }
}

pub fn fail(sig: impl Into<String>, what: impl Into<String>) {
    let e = ex();
    if e.failure.is_none() {
        e.failure = Some((sig.into(), what.into()));
    }
    e.stop = true;
    if e.in_coroutine && !e.aborting {
        // never resumed again: the execution ends here, the stack is abandoned (not unwound,
        // so no destructor of the code under test runs against an arbitrary lock state)
        suspend_current();
    }
}

// trace op codes (for distinctness hashing and reports)
pub const T_LOAD: u8 = 1;
pub const T_STORE: u8 = 2;
pub const T_RMW: u8 = 3;
pub const T_CAS_OK: u8 = 4;
pub const T_CAS_FAIL: u8 = 5;
pub const T_WAIT: u8 = 6;
pub const T_WAKE: u8 = 7;
pub const T_SPIN: u8 = 8;
pub const T_YIELD: u8 = 9;
pub const T_DATA: u8 = 10;

/// Scheduling point: suspend to the scheduler, which decides who runs next.
pub fn sched_point(kind: u8) {
    let e = ex();
    if e.aborting {
        return;
    }
    e.stats.steps += 1;
    if e.trace.len() < 4096 {
        e.trace.push((e.current as u8, kind));
    }
    if e.stats.steps > e.step_budget {
        e.budget_hit = true;
        e.stop = true;
    }
    // a thread that is the only one left (every other thread has finished: nobody can hold the lock, nobody
    // is left to wait for) completes its operations in a few hundred steps; thousands of steps alone is a
    // call that does not return although all holders have released - not slowness, the scheduler owns time
    if e.threads.iter().filter(|t| t.status != Status::Finished).count() == 1 {
        e.alone_steps += 1;
        if e.alone_steps == LONE_LIMIT && e.failure.is_none() {
            let c = e.current;
            fail("liveness|livelock|a thread left alone never finishes its call", format!("thread {c} executed {LONE_LIMIT} scheduling points after every other thread had finished without completing its operation (step kinds of the last points: {:?})", e.trace.iter().rev().take(12).map(|x| x.1).collect::<Vec<_>>()));
        }
    } else {
        e.alone_steps = 0;
    }
    suspend_current();
}

fn suspend_current() {
    let y = ex().threads[ex().current].yielder;
    unsafe { (*y).suspend(()) };
}

fn next_event() -> Option<u8> {
    let e = ex();
    if e.ev_pos < e.events.len() {
        let b = e.events[e.ev_pos];
        e.ev_pos += 1;
        Some(b)
    } else {
        None
    }
}

pub fn spin_loop() {
    let e = ex();
    if e.aborting {
        return;
    }
    let c = e.current;
    e.threads[c].spinning = true;
    sched_point(T_SPIN);
}

/// Extra scheduling point inside critical sections of the test programs.
pub fn yield_point() {
    sched_point(T_YIELD);
}

pub fn current() -> usize {
    ex().current
}

// ------------------------------------------------------------------------------------------
// atomics
// ------------------------------------------------------------------------------------------

pub mod hint {
    pub use super::spin_loop;
    pub fn black_box<T>(x: T) -> T {
        x
    }
}

pub mod atomic {
    pub use super::AtomicU32;
    pub use core::sync::atomic::Ordering;

    /// Fence as the C++/Rust model defines it through release sequences: a release fence makes the
    /// thread's later relaxed stores carry its clock at the fence; an acquire fence takes in what
    /// its earlier relaxed loads read from.
    pub fn fence(o: Ordering) {
        if !super::in_exec() || super::ex().aborting {
            return;
        }
        let e = super::ex();
        let c = e.current;
        if super::is_acq(o) {
            let p = e.threads[c].acq_pending;
            super::vc_join(&mut e.threads[c].vc, &p);
        }
        if super::is_rel(o) {
            e.threads[c].rel_fence = Some(e.threads[c].vc);
        }
        e.threads[c].vc[c] += 1;
    }

    pub fn compiler_fence(_o: Ordering) {}
}

use core::sync::atomic::Ordering;

pub struct AtomicU32 {
    v: Cell<u32>,
    clock: Cell<VClock>,
}

unsafe impl Sync for AtomicU32 {}
unsafe impl Send for AtomicU32 {}

fn is_acq(o: Ordering) -> bool {
    matches!(o, Ordering::Acquire | Ordering::AcqRel | Ordering::SeqCst)
}
fn is_rel(o: Ordering) -> bool {
    matches!(o, Ordering::Release | Ordering::AcqRel | Ordering::SeqCst)
}

impl AtomicU32 {
    pub const fn new(v: u32) -> Self {
        AtomicU32 { v: Cell::new(v), clock: Cell::new([0; MAXT]) }
    }

    pub fn addr(&self) -> usize {
        self as *const _ as usize
    }

    /// value without scheduling or clock effects (for the harness/monitor only)
    pub fn peek(&self) -> u32 {
        self.v.get()
    }

    fn acquire_from(&self) {
        let e = ex();
        let c = e.current;
        let lc = self.clock.get();
        vc_join(&mut e.threads[c].vc, &lc);
    }

    /// a read that is not an acquire: remembered for a later acquire fence
    fn relaxed_read_from(&self) {
        let e = ex();
        let c = e.current;
        let lc = self.clock.get();
        vc_join(&mut e.threads[c].acq_pending, &lc);
    }

    fn tick(&self) {
        let e = ex();
        let c = e.current;
        e.threads[c].vc[c] += 1;
    }

    fn release_store(&self, o: Ordering) {
        let e = ex();
        let c = e.current;
        if is_rel(o) {
            self.clock.set(e.threads[c].vc);
        } else {
            // a relaxed plain store starts a new release sequence: empty, or headed by the thread's
            // last release fence
            self.clock.set(e.threads[c].rel_fence.unwrap_or([0; MAXT]));
        }
    }

    fn release_rmw(&self, o: Ordering) {
        let e = ex();
        let c = e.current;
        if is_rel(o) {
            let mut lc = self.clock.get();
            vc_join(&mut lc, &e.threads[c].vc);
            self.clock.set(lc);
        } else if let Some(f) = e.threads[c].rel_fence {
            let mut lc = self.clock.get();
            vc_join(&mut lc, &f);
            self.clock.set(lc);
        }
        // relaxed RMW: continues the release sequence, location clock otherwise unchanged
    }

    pub fn load(&self, o: Ordering) -> u32 {
        sched_point(T_LOAD);
        if !in_exec() || ex().aborting {
            return self.v.get();
        }
        if is_acq(o) {
            self.acquire_from();
        } else {
            self.relaxed_read_from();
        }
        self.v.get()
    }

    pub fn store(&self, val: u32, o: Ordering) {
        sched_point(T_STORE);
        self.v.set(val);
        if ex().aborting {
            return;
        }
        self.release_store(o);
        self.tick();
    }

    fn rmw(&self, o: Ordering, f: impl FnOnce(u32) -> u32) -> u32 {
        sched_point(T_RMW);
        let old = self.v.get();
        self.v.set(f(old));
        if ex().aborting {
            return old;
        }
        if is_acq(o) {
            self.acquire_from();
        } else {
            self.relaxed_read_from();
        }
        self.release_rmw(o);
        self.tick();
        old
    }

    pub fn swap(&self, val: u32, o: Ordering) -> u32 {
        self.rmw(o, |_| val)
    }

    pub fn fetch_add(&self, val: u32, o: Ordering) -> u32 {
        self.rmw(o, |x| x.wrapping_add(val))
    }

    pub fn fetch_sub(&self, val: u32, o: Ordering) -> u32 {
        self.rmw(o, |x| x.wrapping_sub(val))
    }

    // the rest of std's read-modify-write surface, so that a lock source using any of it still builds
    pub fn fetch_or(&self, val: u32, o: Ordering) -> u32 {
        self.rmw(o, |x| x | val)
    }

    pub fn fetch_and(&self, val: u32, o: Ordering) -> u32 {
        self.rmw(o, |x| x & val)
    }

    pub fn fetch_xor(&self, val: u32, o: Ordering) -> u32 {
        self.rmw(o, |x| x ^ val)
    }

    pub fn fetch_nand(&self, val: u32, o: Ordering) -> u32 {
        self.rmw(o, |x| !(x & val))
    }

    pub fn fetch_max(&self, val: u32, o: Ordering) -> u32 {
        self.rmw(o, |x| x.max(val))
    }

    pub fn fetch_min(&self, val: u32, o: Ordering) -> u32 {
        self.rmw(o, |x| x.min(val))
    }

    /// exclusive access: no scheduling point, no clock effect (as with std, `&mut` proves there is no
    /// concurrent access)
    pub fn get_mut(&mut self) -> &mut u32 {
        self.v.get_mut()
    }

    pub fn into_inner(self) -> u32 {
        self.v.into_inner()
    }

    pub fn as_ptr(&self) -> *mut u32 {
        self.v.as_ptr()
    }

    fn cas(&self, cur: u32, new: u32, succ: Ordering, fail: Ordering, weak: bool) -> Result<u32, u32> {
        sched_point(if weak { T_CAS_FAIL } else { T_CAS_OK });
        let old = self.v.get();
        if ex().aborting {
            return if old == cur {
                self.v.set(new);
                Ok(old)
            } else {
                Err(old)
            };
        }
        let mut spurious = false;
        if weak && old == cur {
            if let Some(b) = next_event() {
                if b >= 232 {
                    spurious = true;
                    ex().stats.weak_cas_spurious += 1;
                }
            }
        }
        if old == cur && !spurious {
            self.v.set(new);
            if is_acq(succ) {
                self.acquire_from();
            } else {
                self.relaxed_read_from();
            }
            self.release_rmw(succ);
            self.tick();
            Ok(old)
        } else {
            if is_acq(fail) {
                self.acquire_from();
            } else {
                self.relaxed_read_from();
            }
            Err(old)
        }
    }

    pub fn compare_exchange(&self, cur: u32, new: u32, succ: Ordering, fail: Ordering) -> Result<u32, u32> {
        self.cas(cur, new, succ, fail, false)
    }

    pub fn compare_exchange_weak(&self, cur: u32, new: u32, succ: Ordering, fail: Ordering) -> Result<u32, u32> {
        self.cas(cur, new, succ, fail, true)
    }

    /// Same algorithm as core's `fetch_update`: load, then weak-CAS loop.
    pub fn fetch_update(&self, set_order: Ordering, fetch_order: Ordering, mut f: impl FnMut(u32) -> Option<u32>) -> Result<u32, u32> {
        let mut prev = self.load(fetch_order);
        while let Some(next) = f(prev) {
            match self.compare_exchange_weak(prev, next, set_order, fetch_order) {
                x @ Ok(_) => return x,
                Err(next_prev) => prev = next_prev,
            }
        }
        Err(prev)
    }
}

// ------------------------------------------------------------------------------------------
// futex model
// ------------------------------------------------------------------------------------------

pub mod futex {
    use super::*;
    use rusl::error::Errno;
    use rusl::platform::{FutexFlags, TimeSpec};

    fn err(code: Errno) -> rusl::Error {
        rusl::Error { msg: "modelled futex", code: Some(code) }
    }

    pub fn futex_wait(uaddr: &AtomicU32, val: u32, _flags: FutexFlags, _timeout: Option<TimeSpec>) -> Result<(), rusl::Error> {
        sched_point(T_WAIT);
        let e = ex();
        if e.aborting {
            return Ok(());
        }
        let c = e.current;
        if uaddr.peek() != val {
            e.stats.futex_eagain += 1;
            return Err(err(Errno::EAGAIN));
        }
        if let Some(b) = next_event() {
            if (200..228).contains(&b) {
                ex().stats.futex_spurious += 1;
                return Ok(());
            }
            if b >= 228 {
                ex().stats.futex_eintr += 1;
                return Err(err(Errno::EINTR));
            }
        }
        let e = ex();
        if e.threads[c].in_try {
            super::fail("try-variant|blocked", format!("thread {c} blocked in futex_wait inside a try_* call"));
            return Ok(());
        }
        e.stats.futex_blocked += 1;
        let addr = uaddr.addr();
        e.threads[c].status = Status::Blocked(addr);
        e.waiters.entry(addr).or_default().push(c);
        suspend_current();
        // woken (or execution is being torn down)
        Ok(())
    }

    pub fn futex_wake(uaddr: &AtomicU32, num_waiters: i32) -> Result<usize, rusl::Error> {
        sched_point(T_WAKE);
        let e = ex();
        if e.aborting {
            return Ok(0);
        }
        e.stats.wakes_issued += 1;
        let addr = uaddr.addr();
        let mut woken = 0usize;
        let n = if num_waiters < 0 { 0 } else { num_waiters as usize };
        loop {
            if woken >= n {
                break;
            }
            let e = ex();
            let Some(q) = e.waiters.get_mut(&addr) else { break };
            if q.is_empty() {
                break;
            }
            let idx = if q.len() > 1 {
                e.stats.multi_waiter_wake_choice += 1;
                match next_event() {
                    Some(b) => (b as usize * q.len()) >> 8,
                    None => 0,
                }
            } else {
                0
            };
            let e = ex();
            let q = e.waiters.get_mut(&addr).unwrap();
            let t = q.remove(idx);
            e.threads[t].status = Status::Runnable;
            woken += 1;
        }
        let e = ex();
        if woken > 0 {
            e.stats.wakes_that_woke += 1;
        } else {
            e.stats.wakes_none_asleep += 1;
        }
        Ok(woken)
    }
}

// ------------------------------------------------------------------------------------------
// tracked data (the value protected by the lock under test)
// ------------------------------------------------------------------------------------------

pub struct Tracked {
    val: Cell<u64>,
    /// (thread, that thread's clock component) of the last write; thread == MAXT: initial value
    w: Cell<(usize, u32)>,
    /// per thread: clock component of its last read since the last write
    r: RefCell<VClock>,
}

unsafe impl Send for Tracked {}
unsafe impl Sync for Tracked {}

impl Tracked {
    pub fn new(v: u64) -> Self {
        Tracked { val: Cell::new(v), w: Cell::new((MAXT, 0)), r: RefCell::new([0; MAXT]) }
    }

    pub fn peek(&self) -> u64 {
        self.val.get()
    }

    pub fn read(&self) -> u64 {
        let e = ex();
        if e.aborting {
            return self.val.get();
        }
        let c = e.current;
        let (wt, wc) = self.w.get();
        if wt < MAXT && wt != c && e.threads[c].vc[wt] < wc {
            fail("visibility|data-race|read not ordered after previous write", format!("thread {c} read the protected value without happening-after thread {wt}'s write (write clock {wc}, reader knows {})", e.threads[c].vc[wt]));
        }
        let e = ex();
        self.r.borrow_mut()[c] = e.threads[c].vc[c];
        self.val.get()
    }

    pub fn write(&self, v: u64) {
        let e = ex();
        if e.aborting {
            self.val.set(v);
            return;
        }
        let c = e.current;
        let (wt, wc) = self.w.get();
        if wt < MAXT && wt != c && e.threads[c].vc[wt] < wc {
            fail("visibility|data-race|write not ordered after previous write", format!("thread {c} wrote the protected value without happening-after thread {wt}'s write"));
        }
        let e = ex();
        let reads = *self.r.borrow();
        for u in 0..MAXT {
            if u != c && reads[u] > e.threads[c].vc[u] {
                fail("visibility|data-race|write not ordered after previous read", format!("thread {c} wrote the protected value without happening-after thread {u}'s read"));
                break;
            }
        }
        let e = ex();
        self.w.set((c, e.threads[c].vc[c]));
        *self.r.borrow_mut() = [0; MAXT];
        self.val.set(v);
    }
}

// ------------------------------------------------------------------------------------------
// the scheduler
// ------------------------------------------------------------------------------------------

pub struct Outcome {
    pub stats: ExecStats,
    pub failure: Option<(String, String)>,
    pub budget_hit: bool,
    pub trace_hash: u64,
    pub finished: Vec<bool>,
}

thread_local! {
    static STACKS: RefCell<Vec<DefaultStack>> = const { RefCell::new(Vec::new()) };
    static LEAKED: Cell<u64> = const { Cell::new(0) };
}

/// Number of coroutine stacks abandoned so far by this process (failed / over-budget executions).
pub fn leaked_stacks() -> u64 {
    LEAKED.with(|l| l.get())
}

fn take_stack() -> DefaultStack {
    STACKS.with(|s| s.borrow_mut().pop()).unwrap_or_else(|| DefaultStack::new(256 * 1024).expect("coroutine stack"))
}

fn give_stack(st: DefaultStack) {
    STACKS.with(|s| {
        let mut v = s.borrow_mut();
        if v.len() < 16 {
            v.push(st);
        }
    });
}

fn pick_next(e: &mut Exec) -> Option<usize> {
    let n = e.threads.len();
    let runnable: Vec<usize> = (0..n).filter(|&t| e.threads[t].status == Status::Runnable).collect();
    if runnable.is_empty() {
        return None;
    }
    let cur = e.last_thread;
    let cur_runnable = runnable.contains(&cur);
    let step = e.stats.steps;
    let choice = match &e.sched {
        Sched::Random(tape) => {
            if e.sched_pos < tape.len() {
                let b = tape[e.sched_pos] as usize;
                e.sched_pos += 1;
                runnable[(b * runnable.len()) >> 8]
            } else if cur_runnable {
                cur
            } else {
                runnable[0]
            }
        }
        Sched::Preempt(points) => {
            let mut forced = None;
            for (s, to) in points {
                if *s == step {
                    forced = Some(*to as usize);
                }
            }
            match forced {
                Some(to) => {
                    // switch away from the current thread: to `to` if runnable and different,
                    // else the next runnable thread after the current one
                    if to != cur && runnable.contains(&to) {
                        to
                    } else {
                        *runnable.iter().find(|&&t| t > cur).or(runnable.iter().find(|&&t| t != cur)).unwrap_or(&runnable[0])
                    }
                }
                None => {
                    if cur_runnable {
                        // strict run-to-block: a spinner burns its whole spin budget and then
                        // parks in futex_wait (the adversarial schedule that reaches the
                        // blocking paths); fairness is the business of the other generators
                        cur
                    } else {
                        *runnable.iter().find(|&&t| t > cur).unwrap_or(&runnable[0])
                    }
                }
            }
        }
        Sched::Pct { drops, .. } => {
            if drops.contains(&step) && cur_runnable {
                e.low_prio -= 1;
                e.threads[cur].prio = e.low_prio;
            }
            *runnable.iter().max_by_key(|&&t| (e.threads[t].prio, usize::MAX - t)).unwrap()
        }
    };
    Some(choice)
}

/// Run one execution: `bodies[i]` is thread i's program. Returns the outcome; never panics
/// for failures of the code under test (they are reported in `Outcome::failure`).
pub fn run_execution(sched: Sched, events: Events, step_budget: u32, bodies: Vec<Box<dyn FnOnce() + 'static>>) -> Outcome {
    let n = bodies.len();
    assert!(n <= MAXT);
    let mut threads = Vec::new();
    for i in 0..n {
        let mut vc = [0; MAXT];
        vc[i] = 1;
        let prio = match &sched {
            Sched::Pct { prio, .. } => *prio.get(i).unwrap_or(&0) as i32,
            _ => 0,
        };
        threads.push(ThreadSt { status: Status::Runnable, vc, yielder: core::ptr::null(), spinning: false, in_try: false, prio, rel_fence: None, acq_pending: [0; MAXT] });
    }
    let exec = Exec {
        threads,
        current: 0,
        sched,
        sched_pos: 0,
        events: events.tape,
        ev_pos: 0,
        waiters: BTreeMap::new(),
        stats: ExecStats::default(),
        aborting: false,
        stop: false,
        in_coroutine: false,
        failure: None,
        step_budget,
        budget_hit: false,
        alone_steps: 0,
        trace: Vec::new(),
        holders: 0,
        low_prio: -1,
        last_thread: 0,
    };
    unsafe { *EXEC.0.get() = Some(exec) };

    let mut cos: Vec<Option<Coroutine<(), (), (), DefaultStack>>> = Vec::new();
    for (i, body) in bodies.into_iter().enumerate() {
        let co = Coroutine::with_stack(take_stack(), move |y: &Yielder<(), ()>, ()| {
            ex().threads[i].yielder = y as *const _;
            body();
        });
        cos.push(Some(co));
    }

    loop {
        let e = ex();
        if e.stop || e.aborting {
            break;
        }
        if e.threads.iter().all(|t| t.status == Status::Finished) {
            break;
        }
        let Some(t) = pick_next(e) else {
            let blocked: Vec<String> = e.threads.iter().enumerate().filter_map(|(i, t)| match t.status {
                Status::Blocked(a) => Some(format!("thread {i} parked in futex_wait on {:#x}", a & 0xfff)),
                _ => None,
            }).collect();
            fail("liveness|deadlock|every unfinished thread parked in futex_wait", format!("no runnable thread: {}", blocked.join(", ")));
            break;
        };
        if t != e.last_thread {
            if e.holders > 0 {
                e.stats.switches_while_held += 1;
            }
            if e.threads[e.last_thread].status == Status::Runnable {
                e.stats.preemptions += 1;
            }
        }
        e.current = t;
        e.last_thread = t;
        e.threads[t].spinning = false;
        let co = cos[t].as_mut().unwrap();
        e.in_coroutine = true;
        let r = std::panic::catch_unwind(std::panic::AssertUnwindSafe(|| co.resume(())));
        ex().in_coroutine = false;
        match r {
            Ok(CoroutineResult::Yield(())) => {}
            Ok(CoroutineResult::Return(())) => {
                ex().threads[t].status = Status::Finished;
            }
            Err(p) => {
                let msg = if let Some(s) = p.downcast_ref::<&str>() {
                    (*s).to_string()
                } else if let Some(s) = p.downcast_ref::<String>() {
                    s.clone()
                } else {
                    "panic".to_string()
                };
                ex().threads[t].status = Status::Finished;
                let loc = vh::runner::take_last_panic_location().unwrap_or_else(|| "?".into());
                // the lock sources are compiled from a generated copy: name it stably
                let loc = match loc.find("gen_sync.rs") {
                    Some(i) => format!("tiny-std/src/sync(generated copy){}", &loc[i + "gen_sync.rs".len()..]),
                    None => loc,
                };
                fail(format!("panic|{loc}"), format!("thread {t} panicked at {loc}: {msg}"));
            }
        }
    }
    // tear down: finished coroutines give their stack back; never-started ones only drop their
    // closure; suspended ones (only after a failure or a budget hit) are abandoned, not unwound
    ex().aborting = true;
    for (i, slot) in cos.iter_mut().enumerate() {
        if let Some(mut co) = slot.take() {
            ex().current = i;
            if !co.started() {
                let _ = std::panic::catch_unwind(std::panic::AssertUnwindSafe(|| co.force_unwind()));
            }
            if co.done() {
                give_stack(co.into_stack());
            } else {
                LEAKED.with(|l| l.set(l.get() + 1));
                std::mem::forget(co);
            }
        }
    }
    let e = unsafe { (*EXEC.0.get()).take().unwrap() };
    let finished = e.threads.iter().map(|t| t.status == Status::Finished).collect();
    Outcome { stats: e.stats, failure: e.failure, budget_hit: e.budget_hit, trace_hash: vh::runner::hash_of(&e.trace), finished }
}
