//! Regenerates the lock sources under test from the repository on every build:
//! tiny-std/src/sync.rs, sync/mutex.rs, sync/rwlock.rs are copied textually with three
//! substitutions (core atomics -> shim atomics, rusl::futex -> modelled futex, spin_loop ->
//! shim) and inlined into one file that the crate `include!`s at its root as `mod sync`.
use std::path::PathBuf;

fn repo_dir() -> PathBuf {
    if let Ok(d) = std::env::var("VERIF_REPO_DIR") {
        return PathBuf::from(d);
    }
    let manifest = std::fs::read_to_string(PathBuf::from(std::env::var("CARGO_MANIFEST_DIR").unwrap()).join("Cargo.toml")).unwrap();
    for line in manifest.lines() {
        if line.starts_with("tiny-std") {
            if let Some(i) = line.find("path = \"") {
                let rest = &line[i + 8..];
                let end = rest.find('"').unwrap();
                let p = PathBuf::from(&rest[..end]);
                return p.parent().unwrap().to_path_buf();
            }
        }
    }
    PathBuf::from("/repo")
}

fn transform(src: &str) -> String {
    let mut out = String::new();
    let mut skipping_tests = false;
    let mut depth: i32 = 0;
    for line in src.lines() {
        let t = line.trim_start();
        if t.starts_with("//!") {
            continue;
        }
        if !skipping_tests && t.starts_with("#[cfg(test)]") {
            skipping_tests = true;
            depth = 0;
            continue;
        }
        if skipping_tests {
            // skip the `mod tests { ... }` item that follows
            depth += line.matches('{').count() as i32;
            depth -= line.matches('}').count() as i32;
            if depth <= 0 && line.contains('}') {
                skipping_tests = false;
            }
            continue;
        }
        let l = line
            .replace("core::sync::atomic", "crate::shim::atomic")
            .replace("rusl::futex", "crate::shim::futex")
            .replace("core::hint::spin_loop", "crate::shim::spin_loop")
            .replace("core::hint", "crate::shim::hint");
        out.push_str(&l);
        out.push('\n');
    }
    out
}

fn main() {
    let repo = repo_dir();
    let base = repo.join("tiny-std/src");
    let files = ["sync.rs", "sync/mutex.rs", "sync/rwlock.rs"];
    for f in files {
        println!("cargo:rerun-if-changed={}", base.join(f).display());
    }
    println!("cargo:rerun-if-env-changed=VERIF_REPO_DIR");
    let sync = transform(&std::fs::read_to_string(base.join("sync.rs")).expect("sync.rs"));
    let mutex = transform(&std::fs::read_to_string(base.join("sync/mutex.rs")).expect("mutex.rs"));
    let rwlock = transform(&std::fs::read_to_string(base.join("sync/rwlock.rs")).expect("rwlock.rs"));
    assert!(sync.contains("pub(crate) mod mutex;") && sync.contains("pub(crate) mod rwlock;"), "sync.rs no longer declares the mutex/rwlock modules the way the generator expects");
    let sync = sync
        .replace("pub(crate) mod mutex;", &format!("pub(crate) mod mutex {{\n{mutex}\n}}"))
        .replace("pub(crate) mod rwlock;", &format!("pub(crate) mod rwlock {{\n{rwlock}\n}}"));
    // harness-only accessors appended to the generated rwlock module (never to the repository): a
    // way to start from a state with (almost) the maximum number of read guards alive, as after
    // that many leaked guards. Only when the text still has the shape they rely on.
    let has_shape = rwlock.contains("inner: InnerLock") && rwlock.contains("state: AtomicU32") && rwlock.contains("pub unsafe fn read_unlock(&self)") && rwlock.contains("const MAX_READERS: u32");
    let extra = if has_shape {
        "\nimpl<T> RwLock<T> {\n    pub const VERIF_MAX_READERS: Option<u32> = Some(MAX_READERS);\n    pub fn verif_preload_readers(&self, n: u32) { self.inner.state.store(n, crate::shim::atomic::Ordering::Relaxed); }\n    pub fn verif_release_reader(&self) { unsafe { self.inner.read_unlock() } }\n}\n"
    } else {
        "\nimpl<T> RwLock<T> {\n    pub const VERIF_MAX_READERS: Option<u32> = None;\n    pub fn verif_preload_readers(&self, _n: u32) {}\n    pub fn verif_release_reader(&self) {}\n}\n"
    };
    let sync = sync.replacen("pub(crate) mod rwlock {\n", &format!("pub(crate) mod rwlock {{\n{extra}"), 1);
    let all = format!("#[allow(dead_code, unused_imports, clippy::all)]\npub mod sync {{\n{sync}\n}}\n");
    for forbidden in ["core::sync::atomic", "rusl::futex", "core::hint", "std::sync", "std::thread", "std::hint"] {
        assert!(!all.contains(forbidden), "generated lock sources still contain `{forbidden}`: the substitution no longer covers the repository text");
    }
    for required in ["crate::shim::atomic", "crate::shim::futex", "futex_wait_fast"] {
        assert!(all.contains(required), "generated lock sources do not mention `{required}`");
    }
    let out = PathBuf::from(std::env::var("OUT_DIR").unwrap()).join("gen_sync.rs");
    std::fs::write(out, all).unwrap();
}
