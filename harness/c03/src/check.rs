//! C03 — allocator: live blocks aligned, disjoint, intact; OOM gives null, heap stays usable.
//!
//! Histories over a private `Dlmalloc` instance, with the `sc` interposer refusing chosen
//! mmap/mremap calls and steering the placement of new segments. Oracle: shadow map of live
//! blocks with per-block fill patterns.
use std::collections::BTreeMap;

use proptest::prelude::*;
use serde::{Deserialize, Serialize};
use tiny_std::allocator::dlmalloc::Dlmalloc;

use vh::runner::{no_panic, CaseReport, CaseResult, Ctx, Failure};
use vh::{ensure, fail};

#[derive(Debug, Clone, Serialize, Deserialize, PartialEq)]
pub enum AOp {
    Malloc { size: usize, align_log2: u8 },
    Calloc { size: usize, align_log2: u8 },
    Realloc { slot: u16, size: usize },
    Free { slot: u16 },
}

#[derive(Debug, Clone, Serialize, Deserialize)]
pub struct AllocCase {
    pub ops: Vec<AOp>,
    /// indices (among this history's MMAP calls / MREMAP calls) that the kernel refuses
    pub mmap_faults: Vec<u16>,
    pub mremap_faults: Vec<u16>,
    /// placement steering per MMAP call (4: directly above what is still mapped of the previous mapping's run):
    /// 1 directly above the previous mapping, 2 directly below
    pub placement: Vec<u8>,
}

const LIVE_CAP: usize = 96 << 20;
const ENOMEM: i32 = 12;
const HUGE: usize = usize::MAX - (2 << 20);
/// requests of this size and above cannot be granted by the kernel (47-bit address space)
const ABSURD: usize = 1 << 46;

struct Block {
    ptr: *mut u8,
    size: usize,
    align: usize,
    seed: u64,
}

fn pat(seed: u64, i: usize) -> u8 {
    let x = (seed ^ (i as u64).wrapping_mul(0x9E37_79B9_7F4A_7C15)).wrapping_mul(0xBF58_476D_1CE4_E5B9);
    (x >> 56) as u8 | 1
}

/// Offsets checked for a block: everything for blocks <= 256 KiB; for larger blocks the first
/// and last 4 KiB, one byte per page (per ~size/512 above 2 MiB) and 8 seed-derived interior
/// windows of 64 bytes.
fn for_each_checked_offset(size: usize, seed: u64, mut f: impl FnMut(usize) -> bool) -> bool {
    if size <= 256 << 10 {
        for i in 0..size {
            if !f(i) {
                return false;
            }
        }
        return true;
    }
    for i in 0..4096 {
        if !f(i) {
            return false;
        }
    }
    for i in size - 4096..size {
        if !f(i) {
            return false;
        }
    }
    // every page for blocks up to 2 MiB, ~512 evenly spread pages above that
    let stride = if size <= 2 << 20 { 4096 } else { (size / 512) & !4095 };
    let mut i = 4096;
    while i < size - 4096 {
        if !f(i) {
            return false;
        }
        i += stride;
    }
    for w in 0..8u64 {
        let start = 4096 + (vh::runner::splitmix(seed ^ w) as usize % (size - 8192 - 64));
        for i in start..start + 64 {
            if !f(i) {
                return false;
            }
        }
    }
    true
}

unsafe fn fill(b: &Block) {
    for_each_checked_offset(b.size, b.seed, |i| {
        b.ptr.add(i).write(pat(b.seed, i));
        true
    });
}

unsafe fn verify_prefix(ptr: *mut u8, checked_size: usize, pattern_size: usize, seed: u64) -> Option<usize> {
    // verify the bytes of a block whose pattern was laid out for `pattern_size`, over the
    // first `checked_size` bytes
    let mut bad = None;
    for_each_checked_offset(pattern_size, seed, |i| {
        if i < checked_size && ptr.add(i).read() != pat(seed, i) {
            bad = Some(i);
            return false;
        }
        true
    });
    bad
}

struct Heap {
    a: Dlmalloc,
    slots: Vec<Option<Block>>,
    /// start -> end of live blocks
    intervals: BTreeMap<usize, usize>,
    live: usize,
    next_seed: u64,
    /// regions mapped by this instance and not yet unmapped: base -> len (from the sc log)
    maps: BTreeMap<usize, usize>,
    log_pos: usize,
}

impl Heap {
    fn overlaps(&self, start: usize, end: usize) -> Option<(usize, usize)> {
        if start == end {
            return None;
        }
        if let Some((&s, &e)) = self.intervals.range(..end).next_back() {
            if e > start && s < end {
                return Some((s, e));
            }
        }
        None
    }

    unsafe fn verify_all(&self, when: &str) -> Result<(), Failure> {
        for (i, b) in self.slots.iter().enumerate() {
            if let Some(b) = b {
                if let Some(off) = verify_prefix(b.ptr, b.size, b.size, b.seed) {
                    fail!("intact|foreign write into a live block", "{when}: live block #{i} (ptr {:p}, size {}, align {}) changed at offset {off} without its owner writing", b.ptr, b.size, b.align);
                }
            }
        }
        Ok(())
    }

    /// Fold the sc log into the ledger of regions this allocator still holds.
    fn absorb_log(&mut self) {
        let log = sc::verif::log_peek();
        for c in &log[self.log_pos..] {
            let err = c.ret > (-4096isize) as usize;
            if !c.executed || err {
                continue;
            }
            if c.nr == sc::nr::MMAP {
                self.maps.insert(c.ret, c.args[1]);
            } else if c.nr == sc::nr::MUNMAP {
                ledger_unmap(&mut self.maps, c.args[0], c.args[1]);
            } else if c.nr == sc::nr::MREMAP {
                let (old, oldlen, newlen) = (c.args[0], c.args[1], c.args[2]);
                ledger_unmap(&mut self.maps, old, oldlen);
                self.maps.insert(c.ret, newlen);
            }
        }
        self.log_pos = log.len();
    }
}

fn ledger_unmap(maps: &mut BTreeMap<usize, usize>, addr: usize, len: usize) {
    let end = addr + len;
    let hits: Vec<(usize, usize)> = maps.range(..end).filter(|(&b, &l)| b + l > addr).map(|(&b, &l)| (b, l)).collect();
    for (b, l) in hits {
        maps.remove(&b);
        if b < addr {
            maps.insert(b, addr - b);
        }
        if b + l > end {
            maps.insert(end, b + l - end);
        }
    }
}

fn run_history(c: &AllocCase, rep: &mut CaseReport) -> Result<(), Failure> {
    use sc::verif::{Action, Rule};
    let mut rules = Vec::new();
    for &k in &c.mmap_faults {
        rules.push(Rule { nr: Some(sc::nr::MMAP), nth: Some(k as usize), action: Action::ForceRet(sc::verif::neg_errno(ENOMEM)), times: 1 });
    }
    for &k in &c.mremap_faults {
        rules.push(Rule { nr: Some(sc::nr::MREMAP), nth: Some(k as usize), action: Action::ForceRet(sc::verif::neg_errno(ENOMEM)), times: 1 });
    }
    sc::verif::install();
    sc::verif::plan(rules);
    sc::verif::set_mmap_hint_modes(c.placement.clone());
    sc::verif::log_begin();
    let mut h = Heap { a: Dlmalloc::new(), slots: Vec::new(), intervals: BTreeMap::new(), live: 0, next_seed: 1, maps: BTreeMap::new(), log_pos: 0 };
    let res = run_ops(c, &mut h, rep);
    // tear down: nothing else can reference the instance's memory
    h.absorb_log();
    let _ = sc::verif::log_end();
    sc::verif::clear_plan();
    let segs = h.maps.len();
    for (&b, &l) in &h.maps {
        unsafe { libc::munmap(b as *mut libc::c_void, l) };
    }
    rep.class_if(segs >= 2, "multi-segment-at-end");
    res
}

fn run_ops(c: &AllocCase, h: &mut Heap, rep: &mut CaseReport) -> Result<(), Failure> {
    let mut reused = false;
    let mut had_free = false;
    let mut refusals_seen = 0usize;
    let mut freed_ranges: Vec<(usize, usize)> = Vec::new();
    for (step, op) in c.ops.iter().enumerate() {
        let before_ref = sc::verif::map_refusals();
        let log_before = sc::verif::log_peek().len();
        match *op {
            AOp::Malloc { size, align_log2 } | AOp::Calloc { size, align_log2 } => {
                let zeroed = matches!(op, AOp::Calloc { .. });
                let align = 1usize << align_log2.min(13);
                if size < ABSURD && h.live + size > LIVE_CAP {
                    rep.class("skipped-live-cap");
                    continue;
                }
                let name = if zeroed { "calloc" } else { "malloc" };
                let ptr = no_panic(name, || unsafe {
                    if zeroed {
                        h.a.calloc(size, align)
                    } else {
                        h.a.malloc(size, align)
                    }
                })?;
                let refused = sc::verif::map_refusals() > before_ref;
                if ptr.is_null() {
                    ensure!(refused || size >= HUGE - align, format!("{name}|null-without-os-refusal"), "step {step}: {name}({size}, align {align}) returned null although the OS refused nothing during the call");
                    rep.class(if refused { "oom-null" } else { "oversize-null" });
                    refusals_seen += usize::from(refused);
                    unsafe { h.verify_all("after a null result")? };
                    // heap remains usable: the same request without a fault must succeed
                    if refused && size <= 64 << 20 && h.live + size <= LIVE_CAP {
                        let before_retry = sc::verif::map_refusals();
                        let p2 = no_panic(name, || unsafe { h.a.malloc(size, align) })?;
                        let refused2 = sc::verif::map_refusals() > before_retry;
                        ensure!(!p2.is_null() || refused2, format!("{name}|heap-unusable-after-oom"), "step {step}: after an OS refusal, retrying {name}({size}, align {align}) with no refusal returned null");
                        if !p2.is_null() {
                            accept_block(h, p2, size, align, false, step, name, &mut reused, &freed_ranges)?;
                            rep.class("retry-after-oom-succeeded");
                        }
                    }
                } else {
                    accept_block(h, ptr, size, align, zeroed, step, name, &mut reused, &freed_ranges)?;
                }
            }
            AOp::Realloc { slot, size } => {
                let live: Vec<usize> = h.slots.iter().enumerate().filter(|(_, b)| b.is_some()).map(|(i, _)| i).collect();
                if live.is_empty() {
                    continue;
                }
                let idx = live[vh::runner::pick_idx(slot, live.len())];
                let old = h.slots[idx].take().unwrap();
                if size < ABSURD && h.live - old.size + size > LIVE_CAP {
                    h.slots[idx] = Some(old);
                    rep.class("skipped-live-cap");
                    continue;
                }
                if let Some(off) = unsafe { verify_prefix(old.ptr, old.size, old.size, old.seed) } {
                    fail!("intact|foreign write into a live block", "step {step}: block #{idx} changed at offset {off} before realloc");
                }
                let ptr = no_panic("realloc", || unsafe { h.a.realloc(old.ptr, old.size, old.align, size) })?;
                let refused = sc::verif::map_refusals() > before_ref;
                if ptr.is_null() {
                    ensure!(refused || size >= HUGE - old.align, "realloc|null-without-os-refusal", "step {step}: realloc({} -> {size}, align {}) returned null although the OS refused nothing", old.size, old.align);
                    rep.class(if refused { "realloc-oom-null" } else { "oversize-null" });
                    // old block must be intact and still live
                    if let Some(off) = unsafe { verify_prefix(old.ptr, old.size, old.size, old.seed) } {
                        fail!("realloc|old block damaged after failed realloc", "step {step}: offset {off}");
                    }
                    h.slots[idx] = Some(old);
                    unsafe { h.verify_all("after a failed realloc")? };
                } else {
                    let keep = old.size.min(size);
                    ensure!(ptr as usize % old.align == 0, "realloc|misaligned", "step {step}: realloc result {ptr:p} not aligned to {}", old.align);
                    if let Some(off) = unsafe { verify_prefix(ptr, keep, old.size, old.seed) } {
                        fail!("realloc|common prefix not preserved", "step {step}: realloc({} -> {size}) lost byte {off} of the common prefix ({keep} bytes)", old.size);
                    }
                    h.intervals.remove(&(old.ptr as usize));
                    h.live -= old.size;
                    let start = ptr as usize;
                    if let Some((s, e)) = h.overlaps(start, start + size) {
                        fail!("disjoint|block overlaps another live block", "step {step}: realloc result [{start:#x},{:#x}) overlaps live block [{s:#x},{e:#x})", start + size);
                    }
                    rep.class(if ptr == old.ptr { if size > old.size { "realloc-in-place-grow" } else { "realloc-in-place-shrink" } } else { "realloc-moved" });
                    if ptr != old.ptr {
                        freed_ranges.push((old.ptr as usize, old.size));
                        had_free = true;
                    }
                    let seed = h.next_seed;
                    h.next_seed += 1;
                    let nb = Block { ptr, size, align: old.align, seed };
                    unsafe { fill(&nb) };
                    if size > 0 {
                        h.intervals.insert(start, start + size);
                    }
                    h.live += size;
                    h.slots[idx] = Some(nb);
                }
            }
            AOp::Free { slot } => {
                let live: Vec<usize> = h.slots.iter().enumerate().filter(|(_, b)| b.is_some()).map(|(i, _)| i).collect();
                if live.is_empty() {
                    continue;
                }
                let idx = live[vh::runner::pick_idx(slot, live.len())];
                let b = h.slots[idx].take().unwrap();
                if let Some(off) = unsafe { verify_prefix(b.ptr, b.size, b.size, b.seed) } {
                    fail!("intact|foreign write into a live block", "step {step}: block #{idx} (size {}) changed at offset {off} before free", b.size);
                }
                no_panic("free", || unsafe { h.a.free(b.ptr) })?;
                h.intervals.remove(&(b.ptr as usize));
                h.live -= b.size;
                freed_ranges.push((b.ptr as usize, b.size));
                had_free = true;
            }
        }
        // classify what the OS saw during this call
        let log = sc::verif::log_peek();
        for call in &log[log_before..] {
            let err = call.ret > (-4096isize) as usize;
            if call.nr == sc::nr::MMAP && !err {
                rep.class("new-segment");
            }
            if call.nr == sc::nr::MUNMAP && !err {
                rep.class("trim-or-release-munmap");
            }
            if call.nr == sc::nr::MREMAP && !err {
                rep.class("mremap");
            }
        }
        if step % 16 == 15 {
            unsafe { h.verify_all("periodic check")? };
        }
        h.absorb_log();
    }
    unsafe { h.verify_all("end of history")? };
    rep.nontrivial_if((had_free && reused) || refusals_seen > 0);
    rep.class_if(reused, "reuse-of-freed-memory");
    Ok(())
}

#[allow(clippy::too_many_arguments)]
fn accept_block(h: &mut Heap, ptr: *mut u8, size: usize, align: usize, zeroed: bool, step: usize, name: &str, reused: &mut bool, freed: &[(usize, usize)]) -> Result<(), Failure> {
    let start = ptr as usize;
    ensure!(start % align == 0, format!("{name}|misaligned"), "step {step}: {name}({size}, align {align}) returned {ptr:p}");
    if let Some((s, e)) = h.overlaps(start, start + size) {
        fail!("disjoint|block overlaps another live block", "step {step}: {name}({size}, align {align}) = [{start:#x},{:#x}) overlaps live block [{s:#x},{e:#x})", start + size);
    }
    let seed = h.next_seed;
    h.next_seed += 1;
    let b = Block { ptr, size, align, seed };
    if zeroed {
        let mut bad = None;
        for_each_checked_offset(size, seed, |i| {
            if unsafe { ptr.add(i).read() } != 0 {
                bad = Some(i);
                return false;
            }
            true
        });
        if let Some(off) = bad {
            fail!("calloc|non-zero byte", "step {step}: calloc({size}, align {align}) byte {off} is not zero");
        }
    }
    unsafe { fill(&b) };
    if freed.iter().rev().take(64).any(|&(s, l)| start < s + l && s < start + size.max(1)) {
        *reused = true;
    }
    if size > 0 {
        h.intervals.insert(start, start + size);
    }
    h.live += size;
    // reuse an empty slot index if any
    if let Some(i) = h.slots.iter().position(|s| s.is_none()) {
        h.slots[i] = Some(b);
    } else {
        h.slots.push(Some(b));
    }
    Ok(())
}

pub fn check_alloc(c: &AllocCase) -> CaseResult {
    let mut rep = CaseReport::new();
    let r = run_history(c, &mut rep);
    // never leave a plan behind, even on failure paths
    sc::verif::clear_plan();
    r?;
    rep.class_if(!c.mmap_faults.is_empty() || !c.mremap_faults.is_empty(), "fault-plan");
    rep.class_if(c.placement.iter().any(|&p| p == 1), "placement-above");
    rep.class_if(c.placement.iter().any(|&p| p == 2), "placement-below");
    rep.class_if(c.placement.iter().any(|&p| p == 4), "placement-at-end-of-trimmed-run");
    Ok(rep)
}

// ------------------------------------------------------------------------------------------
// generators
// ------------------------------------------------------------------------------------------

fn size_strategy() -> impl Strategy<Value = usize> {
    let small_edges = (1usize..=33, 0usize..3).prop_map(|(k, d)| (8 * k + d).saturating_sub(1));
    let tree_edges = (8u32..=22, prop::sample::select(vec![0usize, 1, 8, 16]), any::<bool>(), any::<bool>()).prop_map(|(k, d, half, minus)| {
        let base = if half { (1usize << k) + (1usize << (k - 1)) } else { 1usize << k };
        if minus {
            base - d
        } else {
            base + d
        }
    });
    let around = |c: usize| (0usize..=128).prop_map(move |d| c + d - 64);
    prop_oneof![
        6 => small_edges,
        4 => 0usize..=300,
        4 => tree_edges,
        1 => around(64 << 10),
        1 => around((64 << 10) - 80),
        1 => around(2 << 20),
        2 => 300usize..70_000,
        1 => 70_000usize..(3 << 20),
        1 => prop::sample::select(vec![4usize << 20, 8 << 20, 16 << 20, 32 << 20, (32 << 20) + 1, (1 << 20) - 1]),
        1 => prop::sample::select(vec![usize::MAX, usize::MAX - 1, usize::MAX - 4096, usize::MAX - (64 << 10), isize::MAX as usize, isize::MAX as usize + 1, 1usize << 62, 1usize << 47, (1usize << 63) - 4096]),
    ]
}

fn align_strategy() -> impl Strategy<Value = u8> {
    prop_oneof![6 => 0u8..=4, 3 => 5u8..=8, 2 => 9u8..=13]
}

fn op_strategy() -> impl Strategy<Value = AOp> {
    prop_oneof![
        5 => (size_strategy(), align_strategy()).prop_map(|(size, align_log2)| AOp::Malloc { size, align_log2 }),
        2 => (size_strategy(), align_strategy()).prop_map(|(size, align_log2)| AOp::Calloc { size, align_log2 }),
        3 => (any::<u16>(), size_strategy()).prop_map(|(slot, size)| AOp::Realloc { slot, size }),
        5 => any::<u16>().prop_map(|slot| AOp::Free { slot }),
    ]
}

pub fn case_strategy(max_ops: usize) -> impl Strategy<Value = AllocCase> {
    (
        prop::collection::vec(op_strategy(), 1..max_ops),
        prop_oneof![3 => Just(vec![]), 2 => prop::collection::vec(0u16..12, 1..4)],
        prop_oneof![4 => Just(vec![]), 1 => prop::collection::vec(0u16..6, 1..3)],
        prop_oneof![2 => Just(vec![]), 3 => prop::collection::vec(prop::sample::select(vec![0u8, 1, 2, 4, 4]), 1..16)],
    )
        .prop_map(|(ops, mmap_faults, mremap_faults, placement)| AllocCase { ops, mmap_faults, mremap_faults, placement })
}

pub fn run(ctx: &Ctx) {
    ctx.run_prop("history", ctx.cases(500, 40_000), case_strategy(250), check_alloc);
    // short histories with every single fault position enumerated by the generator's range
    ctx.run_prop(
        "single-fault",
        ctx.cases(300, 20_000),
        (prop::collection::vec(op_strategy(), 1..40), 0u16..8, any::<bool>(), prop::collection::vec(prop::sample::select(vec![0u8, 1, 2, 4]), 0..8)).prop_map(|(ops, k, remap, placement)| AllocCase {
            ops,
            mmap_faults: if remap { vec![] } else { vec![k] },
            mremap_faults: if remap { vec![k % 3] } else { vec![] },
            placement,
        }),
        check_alloc,
    );
}
