//! C03 oracle as a library (used by the `c03` binary and by the libFuzzer target `alloc_ops`).
pub mod check;
