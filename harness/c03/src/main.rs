//! Harness binary for property C03. `c03 C03 [--seed N --worker I --nworkers N --tier T --out F --replay F]`.
fn main() {
    vh::runner::main_for(|ctx| c03::check::run(ctx));
}
