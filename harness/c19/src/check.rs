//! C19 — time arithmetic is exact or None and never panics; monotonic clock and sleep hold.
//!
//! Oracle for the arithmetic: exact `i128` nanosecond arithmetic (`model_*` below). A time value
//! is `s * 10^9 + n` nanoseconds, a Duration likewise; the result of an operation is `Some` of
//! the normalised exact result, or `None` exactly when that result is negative or needs more
//! than `i64::MAX` seconds.
//!
//! Values of the library are constructed through its public API only:
//! `MonotonicInstant::ZERO.as_instant() + d` for `Instant`, `SystemTime::from(TimeSpec)` for
//! `SystemTime`; results are read back through `AsRef<TimeSpec>` (Instant) or compared with a
//! `SystemTime` constructed from the expected value (SystemTime has no accessor).
//!
//! Sub-checks
//!   instant-exh / systime-exh   cross product of the boundary values (exact oracle)
//!   instant-rand / systime-rand boundary-biased + relational random cases (exact oracle)
//!   neg-exh / neg-rand          SystemTime with negative seconds down to i64::MIN: panic-freedom only
//!   clock                       10^4 successive MonotonicInstant::now() never decrease; elapsed() brackets
//!   sleep                       thread::sleep(d) returns Ok and no earlier than d, also when interrupted
mod clock;
mod sleep;

use core::cmp::Ordering;
use core::fmt::Debug;
use core::time::Duration;

use proptest::prelude::*;
use rusl::platform::TimeSpec;
use serde::{Deserialize, Serialize};
use tiny_std::time::{Instant, MonotonicInstant, SystemTime, UNIX_TIME};

use vh::runner::{no_panic, CaseReport, CaseResult, Ctx, Failure};
use vh::{ensure, fail};

pub const NS: i128 = 1_000_000_000;
/// Largest representable time value in nanoseconds: i64::MAX seconds and 10^9-1 nanoseconds.
pub const MAX_T: i128 = (i64::MAX as i128) * NS + (NS - 1);
/// Smallest representable time value (panic-freedom domain only).
pub const MIN_T: i128 = (i64::MIN as i128) * NS;
/// Largest Duration in nanoseconds.
pub const MAX_D: i128 = (u64::MAX as i128) * NS + (NS - 1);
/// "within 2 s of a representability edge"
pub const EDGE: i128 = 2 * NS;

/// A time value: `s` seconds and `n` nanoseconds (normalised: n < 10^9).
#[derive(Debug, Clone, Copy, PartialEq, Eq, Serialize, Deserialize)]
pub struct Tv {
    pub s: i64,
    pub n: u32,
}

/// A Duration: `s` seconds and `n` nanoseconds (n < 10^9).
#[derive(Debug, Clone, Copy, PartialEq, Eq, Serialize, Deserialize)]
pub struct Dv {
    pub s: u64,
    pub n: u32,
}

/// One arithmetic case: two time values and a duration.
#[derive(Debug, Clone, Serialize, Deserialize)]
pub struct Arith {
    pub a: Tv,
    pub b: Tv,
    pub d: Dv,
}

// ---------------------------------------------------------------- reference model

pub fn ns(t: Tv) -> i128 {
    t.s as i128 * NS + t.n as i128
}

pub fn dns(d: Dv) -> i128 {
    d.s as i128 * NS + d.n as i128
}

/// Exact value -> time value; None when negative or beyond i64::MAX seconds.
pub fn to_tv(x: i128) -> Option<Tv> {
    if !(0..=MAX_T).contains(&x) {
        None
    } else {
        Some(Tv { s: (x / NS) as i64, n: (x % NS) as u32 })
    }
}

/// Exact value -> Duration; None when negative (a difference of two time values at or after
/// the epoch never exceeds i64::MAX seconds, so there is no upper edge here).
pub fn to_dv(x: i128) -> Option<Dv> {
    if !(0..=MAX_D).contains(&x) {
        None
    } else {
        Some(Dv { s: (x / NS) as u64, n: (x % NS) as u32 })
    }
}

pub fn model_add(a: Tv, d: Dv) -> Option<Tv> {
    to_tv(ns(a) + dns(d))
}

pub fn model_sub(a: Tv, d: Dv) -> Option<Tv> {
    to_tv(ns(a) - dns(d))
}

pub fn model_diff(a: Tv, b: Tv) -> Option<Dv> {
    to_dv(ns(a) - ns(b))
}

fn dur(d: Dv) -> Duration {
    Duration::new(d.s, d.n)
}

fn dv_of(d: Duration) -> Dv {
    Dv { s: d.as_secs(), n: d.subsec_nanos() }
}

// ---------------------------------------------------------------- the two types under one interface

pub trait TimeVal: Copy + Eq + Ord + Debug {
    const NAME: &'static str;
    /// Build the value through the public API.
    fn make(t: Tv) -> Result<Self, Failure>;
    fn add(self, d: Duration) -> Option<Self>;
    fn sub(self, d: Duration) -> Option<Self>;
    fn diff(self, o: Self) -> Option<Duration>;
    fn since(self, o: Self) -> Option<Duration>;
    /// Does the value equal the (normalised) time value `t`?
    fn same(&self, t: Tv) -> bool;
    fn show(&self) -> String;
    /// Type-specific additional exact checks on a value of the exact domain.
    fn extra(self, _t: Tv, _rep: &mut CaseReport) -> Result<(), Failure> {
        Ok(())
    }
}

impl TimeVal for Instant {
    const NAME: &'static str = "Instant";
    fn make(t: Tv) -> Result<Self, Failure> {
        // the only public way to an arbitrary Instant: ZERO + d (0 + d = d, always representable
        // for d <= i64::MAX s)
        let d = Duration::new(t.s as u64, t.n);
        let got = no_panic("Instant+Duration", || MonotonicInstant::ZERO.as_instant() + d)?;
        match got {
            Some(i) if i.same(t) => Ok(i),
            Some(i) => fail!("Instant+Duration|wrong-value|from ZERO", "ZERO.as_instant() + {:?} = {}, expected {:?}", d, i.show(), t),
            None => fail!("Instant+Duration|none-for-representable|from ZERO", "ZERO.as_instant() + {:?} = None, expected {:?}", d, t),
        }
    }
    fn add(self, d: Duration) -> Option<Self> {
        self + d
    }
    fn sub(self, d: Duration) -> Option<Self> {
        self - d
    }
    fn diff(self, o: Self) -> Option<Duration> {
        self - o
    }
    fn since(self, o: Self) -> Option<Duration> {
        self.duration_since(o)
    }
    fn same(&self, t: Tv) -> bool {
        let ts: &TimeSpec = self.as_ref();
        ts.seconds() == t.s && ts.nanoseconds() == t.n as i64
    }
    fn show(&self) -> String {
        let ts: &TimeSpec = self.as_ref();
        format!("Instant{{s:{},n:{}}}", ts.seconds(), ts.nanoseconds())
    }
}

impl TimeVal for SystemTime {
    const NAME: &'static str = "SystemTime";
    fn make(t: Tv) -> Result<Self, Failure> {
        Ok(SystemTime::from(TimeSpec::new(t.s, t.n as i64)))
    }
    fn add(self, d: Duration) -> Option<Self> {
        self + d
    }
    fn sub(self, d: Duration) -> Option<Self> {
        self - d
    }
    fn diff(self, o: Self) -> Option<Duration> {
        self - o
    }
    fn since(self, o: Self) -> Option<Duration> {
        self.duration_since(o)
    }
    fn same(&self, t: Tv) -> bool {
        *self == SystemTime::from(TimeSpec::new(t.s, t.n as i64))
    }
    fn show(&self) -> String {
        format!("{self:?}")
    }
    fn extra(self, t: Tv, rep: &mut CaseReport) -> Result<(), Failure> {
        // differencing with the epoch
        let exp = Dv { s: t.s as u64, n: t.n };
        let got = no_panic("SystemTime::duration_since_unix_time", || self.duration_since_unix_time())?;
        ensure!(dv_of(got) == exp, "SystemTime::duration_since_unix_time|wrong-value", "{:?}.duration_since_unix_time() = {:?}, expected {:?}", t, got, exp);
        let got = no_panic("SystemTime-SystemTime", || self - UNIX_TIME)?;
        ensure!(got.map(dv_of) == Some(exp), "SystemTime-SystemTime|wrong-value|minus UNIX_TIME", "{:?} - UNIX_TIME = {:?}, expected Some({:?})", t, got, exp);
        let got = no_panic("SystemTime-SystemTime", || UNIX_TIME - self)?;
        let exp_rev = if ns(t) == 0 { Some(Dv { s: 0, n: 0 }) } else { None };
        ensure!(got.map(dv_of) == exp_rev, "SystemTime-SystemTime|wrong-value|UNIX_TIME minus", "UNIX_TIME - {:?} = {:?}, expected {:?}", t, got, exp_rev);
        rep.class("epoch-diff");
        Ok(())
    }
}

// ---------------------------------------------------------------- exact check

fn cmp_time<T: TimeVal>(op: &str, shape: &str, expr: &str, got: Option<T>, exp: Option<Tv>) -> Result<(), Failure> {
    match (got, exp) {
        (None, None) => Ok(()),
        (Some(g), Some(e)) => {
            ensure!(g.same(e), format!("{op}|wrong-value|{shape}"), "{expr} = Some({}), expected Some({:?})", g.show(), e);
            Ok(())
        }
        (Some(g), None) => fail!(format!("{op}|some-for-unrepresentable|{shape}"), "{expr} = Some({}), expected None (exact result negative or beyond i64::MAX seconds)", g.show()),
        (None, Some(e)) => fail!(format!("{op}|none-for-representable|{shape}"), "{expr} = None, expected Some({:?})", e),
    }
}

fn cmp_dur(op: &str, shape: &str, expr: &str, got: Option<Duration>, exp: Option<Dv>) -> Result<(), Failure> {
    match (got, exp) {
        (None, None) => Ok(()),
        (Some(g), Some(e)) => {
            ensure!(dv_of(g) == e, format!("{op}|wrong-value|{shape}"), "{expr} = Some({:?}), expected Some({:?})", g, e);
            Ok(())
        }
        (Some(g), None) => fail!(format!("{op}|some-for-unrepresentable|{shape}"), "{expr} = Some({:?}), expected None (exact result negative)", g),
        (None, Some(e)) => fail!(format!("{op}|none-for-representable|{shape}"), "{expr} = None, expected Some({:?})", e),
    }
}

fn in_exact_domain(c: &Arith) -> bool {
    c.a.s >= 0 && c.b.s >= 0 && c.a.n < NS as u32 && c.b.n < NS as u32 && c.d.n < NS as u32
}

pub fn check_exact<T: TimeVal>(c: &Arith) -> CaseResult {
    let mut rep = CaseReport::new();
    if !in_exact_domain(c) {
        // hand-written replay outside the stated domain: nothing is claimed
        rep.class("outside-domain-skipped");
        return Ok(rep);
    }
    let ty = T::NAME;
    let (ta, tb, td) = (c.a, c.b, c.d);
    let a = T::make(ta)?;
    let b = T::make(tb)?;
    let d = dur(td);
    let mut nontrivial = false;

    // ---- t + d
    {
        let op = format!("{ty}+Duration");
        let carry = ta.n as u64 + td.n as u64 >= NS as u64;
        let shape = if carry { "nanos carry" } else { "no carry" };
        let exact = ns(ta) + dns(td);
        let exp = model_add(ta, td);
        let got = no_panic(&op, || a.add(d))?;
        cmp_time(&op, shape, &format!("{ta:?} + {td:?}"), got, exp)?;
        if let Some(s) = got {
            // round trips and order
            let rt = format!("{ty} (t+d)-d");
            let back = no_panic(&rt, || s.sub(d))?;
            cmp_time(&rt, shape, &format!("({ta:?} + {td:?}) - {td:?}"), back, Some(ta)).map_err(|f| relabel(f, "round-trip"))?;
            let rt = format!("{ty} (t+d)-t");
            let back = no_panic(&rt, || s.diff(a))?;
            cmp_dur(&rt, shape, &format!("({ta:?} + {td:?}) - {ta:?}"), back, Some(td)).map_err(|f| relabel(f, "round-trip"))?;
            let back = no_panic(&rt, || s.since(a))?;
            cmp_dur(&rt, shape, &format!("({ta:?} + {td:?}).duration_since({ta:?})"), back, Some(td)).map_err(|f| relabel(f, "round-trip"))?;
            let exp_ord = if dns(td) == 0 { Ordering::Equal } else { Ordering::Greater };
            let o = no_panic(&format!("{ty}::cmp"), || s.cmp(&a))?;
            ensure!(o == exp_ord, format!("{ty}::cmp|wrong-order|t+d against t"), "({ta:?} + {td:?}).cmp({ta:?}) = {o:?}, expected {exp_ord:?}");
        }
        rep.class(if carry { "add-carry" } else { "add-no-carry" });
        rep.class_if(carry && (ta.n as u64 + td.n as u64 == NS as u64), "add-carry-to-zero-nanos");
        rep.class_if(exp.is_none(), "add-none-overflow");
        rep.class_if(exp.is_some() && MAX_T - exact < EDGE, "add-some-within-2s-of-edge");
        rep.class_if(exp.is_none() && exact - MAX_T <= EDGE, "add-none-within-2s-of-edge");
        rep.class_if(exact == MAX_T, "add-exactly-max");
        rep.class_if(exact == MAX_T + 1, "add-exactly-max-plus-1ns");
        rep.class_if(td.s > i64::MAX as u64, "add-dsecs-above-i64");
        rep.class_if(td.s == u64::MAX && carry, "add-dsecs-u64max-with-carry");
        rep.class_if(carry && ta.s as i128 + td.s as i128 == i64::MAX as i128, "add-none-only-by-carry");
        nontrivial |= carry || (exact - MAX_T).abs() <= EDGE;
    }

    // ---- t - d
    {
        let op = format!("{ty}-Duration");
        let borrow = ta.n < td.n;
        let shape = if borrow { "nanos borrow" } else { "no borrow" };
        let exact = ns(ta) - dns(td);
        let exp = model_sub(ta, td);
        let got = no_panic(&op, || a.sub(d))?;
        cmp_time(&op, shape, &format!("{ta:?} - {td:?}"), got, exp)?;
        if let Some(r) = got {
            let rt = format!("{ty} (t-d)+d");
            let back = no_panic(&rt, || r.add(d))?;
            cmp_time(&rt, shape, &format!("({ta:?} - {td:?}) + {td:?}"), back, Some(ta)).map_err(|f| relabel(f, "round-trip"))?;
            let rt = format!("{ty} t-(t-d)");
            let back = no_panic(&rt, || a.diff(r))?;
            cmp_dur(&rt, shape, &format!("{ta:?} - ({ta:?} - {td:?})"), back, Some(td)).map_err(|f| relabel(f, "round-trip"))?;
            let exp_ord = if dns(td) == 0 { Ordering::Equal } else { Ordering::Less };
            let o = no_panic(&format!("{ty}::cmp"), || r.cmp(&a))?;
            ensure!(o == exp_ord, format!("{ty}::cmp|wrong-order|t-d against t"), "({ta:?} - {td:?}).cmp({ta:?}) = {o:?}, expected {exp_ord:?}");
        }
        rep.class(if borrow { "sub-borrow" } else { "sub-no-borrow" });
        rep.class_if(exp.is_none(), "sub-none-negative");
        rep.class_if(exact == 0, "sub-exactly-zero");
        rep.class_if(exact == -1, "sub-exactly-minus-1ns");
        rep.class_if(exp.is_some() && exact < EDGE, "sub-some-within-2s-of-edge");
        rep.class_if(exp.is_none() && -exact <= EDGE, "sub-none-within-2s-of-edge");
        rep.class_if(borrow && ta.s as i128 == td.s as i128, "sub-none-only-by-borrow");
        rep.class_if(td.s > i64::MAX as u64, "sub-dsecs-above-i64");
        rep.class_if(td.s == u64::MAX && borrow, "sub-dsecs-u64max-with-borrow");
        nontrivial |= borrow || exact.abs() <= EDGE;
    }

    // ---- t - u, both directions, both spellings
    for (x, y, tx, tyv) in [(a, b, ta, tb), (b, a, tb, ta)] {
        let borrow = tx.n < tyv.n;
        let shape = if borrow { "nanos borrow" } else { "no borrow" };
        let exp = model_diff(tx, tyv);
        let op = format!("{ty}-{ty}");
        let got = no_panic(&op, || x.diff(y))?;
        cmp_dur(&op, shape, &format!("{tx:?} - {tyv:?}"), got, exp)?;
        let op2 = format!("{ty}::duration_since");
        let got2 = no_panic(&op2, || x.since(y))?;
        cmp_dur(&op2, shape, &format!("{tx:?}.duration_since({tyv:?})"), got2, exp)?;
        if let Some(df) = got {
            let rt = format!("{ty} u+(t-u)");
            let back = no_panic(&rt, || y.add(df))?;
            cmp_time(&rt, shape, &format!("{tyv:?} + ({tx:?} - {tyv:?})"), back, Some(tx)).map_err(|f| relabel(f, "round-trip"))?;
            let rt = format!("{ty} t-(t-u)");
            let back = no_panic(&rt, || x.sub(df))?;
            cmp_time(&rt, shape, &format!("{tx:?} - ({tx:?} - {tyv:?})"), back, Some(tyv)).map_err(|f| relabel(f, "round-trip"))?;
        }
        // ordering agrees with subtraction: x < y  <=>  (y - x) is Some(non-zero)
        let lt = no_panic(&format!("{ty}::lt"), || y < x)?;
        let by_sub = matches!(got, Some(df) if !df.is_zero());
        ensure!(lt == by_sub, format!("{ty}::lt|disagrees-with-subtraction|{}", if tx.s == tyv.s { "equal seconds" } else { "different seconds" }), "({tyv:?} < {tx:?}) = {lt}, but {tx:?} - {tyv:?} = {got:?}");
        let exact = ns(tx) - ns(tyv);
        rep.class_if(borrow && exp.is_some(), "diff-borrow");
        rep.class_if(exp.is_none(), "diff-none-negative");
        rep.class_if(exact == 0, "diff-zero");
        rep.class_if(exact.abs() <= EDGE && exact != 0, "diff-within-2s-of-zero");
        rep.class_if(exact >= MAX_T - EDGE, "diff-within-2s-of-max");
        rep.class_if(tx.s == tyv.s && tx.n != tyv.n, "diff-same-seconds");
        nontrivial |= (borrow && exp.is_some()) || exact.abs() <= EDGE || exact.abs() >= MAX_T - EDGE;
    }

    // ---- ordering against the model
    {
        let exp = ns(ta).cmp(&ns(tb));
        let shape = if ta.s == tb.s { "equal seconds" } else { "different seconds" };
        let got = no_panic(&format!("{ty}::cmp"), || a.cmp(&b))?;
        ensure!(got == exp, format!("{ty}::cmp|wrong-order|{shape}"), "{ta:?}.cmp({tb:?}) = {got:?}, expected {exp:?}");
        let got = no_panic(&format!("{ty}::partial_cmp"), || a.partial_cmp(&b))?;
        ensure!(got == Some(exp), format!("{ty}::partial_cmp|wrong-order|{shape}"), "{ta:?}.partial_cmp({tb:?}) = {got:?}, expected Some({exp:?})");
        let got = no_panic(&format!("{ty}::eq"), || a == b)?;
        ensure!(got == (exp == Ordering::Equal), format!("{ty}::eq|wrong-answer|{shape}"), "({ta:?} == {tb:?}) = {got}, expected {}", exp == Ordering::Equal);
        rep.class(match exp {
            Ordering::Less => "ord-less",
            Ordering::Equal => "ord-equal",
            Ordering::Greater => "ord-greater",
        });
    }

    a.extra(ta, &mut rep)?;
    rep.nontrivial_if(nontrivial);
    Ok(rep)
}

/// Round-trip failures get their own failure class (the single operations already have theirs).
fn relabel(mut f: Failure, class: &str) -> Failure {
    let mut parts: Vec<String> = f.sig.split('|').map(|s| s.to_string()).collect();
    if parts.len() >= 2 && parts[1] != "panic" {
        parts[1] = format!("{class}:{}", parts[1]);
    }
    f.sig = parts.join("|");
    f
}

// ---------------------------------------------------------------- panic-freedom only (negative seconds)

fn in_nopanic_domain(c: &Arith) -> bool {
    c.a.n < NS as u32 && c.b.n < NS as u32 && c.d.n < NS as u32
}

/// SystemTime values with seconds anywhere in i64: every operation must return (any value)
/// without panicking. No exactness is claimed here.
pub fn check_nopanic(c: &Arith) -> CaseResult {
    let mut rep = CaseReport::new();
    if !in_nopanic_domain(c) {
        rep.class("outside-domain-skipped");
        return Ok(rep);
    }
    let (ta, tb, td) = (c.a, c.b, c.d);
    let a = SystemTime::from(TimeSpec::new(ta.s, ta.n as i64));
    let b = SystemTime::from(TimeSpec::new(tb.s, tb.n as i64));
    let d = dur(td);
    for (x, y) in [(a, b), (b, a)] {
        let s = no_panic("SystemTime+Duration", || x + d)?;
        let r = no_panic("SystemTime-Duration", || x - d)?;
        let df = no_panic("SystemTime-SystemTime", || x - y)?;
        let _ = no_panic("SystemTime::duration_since", || x.duration_since(y))?;
        let _ = no_panic("SystemTime::duration_since_unix_time", || x.duration_since_unix_time())?;
        let _ = no_panic("SystemTime-SystemTime", || (x - UNIX_TIME, UNIX_TIME - x))?;
        let _ = no_panic("SystemTime::cmp", || (x.cmp(&y), x == y, x < y))?;
        // follow-ups on whatever came back
        if let Some(s) = s {
            let _ = no_panic("SystemTime-Duration", || s - d)?;
            let _ = no_panic("SystemTime-SystemTime", || (s - x, x - s))?;
        }
        if let Some(r) = r {
            let _ = no_panic("SystemTime+Duration", || r + d)?;
            let _ = no_panic("SystemTime-SystemTime", || (x - r, r - x))?;
        }
        if let Some(df) = df {
            let _ = no_panic("SystemTime+Duration", || y + df)?;
            let _ = no_panic("SystemTime-Duration", || x - df)?;
        }
    }
    let neg_a = ta.s < 0;
    let neg_b = tb.s < 0;
    let sdiff = (ta.s as i128 - tb.s as i128).abs();
    let below_min = ns(ta) - dns(td) < MIN_T || ns(tb) - dns(td) < MIN_T;
    let near_min = (ns(ta) - dns(td) - MIN_T).abs() <= EDGE || (ns(tb) - dns(td) - MIN_T).abs() <= EDGE;
    let near_zero = (ns(ta) + dns(td)).abs() <= EDGE || (ns(tb) + dns(td)).abs() <= EDGE;
    let carry = ta.n as u64 + td.n as u64 >= NS as u64 || ta.n < td.n || ta.n != tb.n;
    rep.class_if(neg_a && neg_b, "both-negative");
    rep.class_if(neg_a != neg_b, "mixed-sign");
    rep.class_if(ta.s == i64::MIN || tb.s == i64::MIN, "secs-i64min");
    rep.class_if(sdiff > i64::MAX as i128, "secs-difference-exceeds-i64");
    rep.class_if(sdiff == i64::MAX as i128 + 1 && ((ta.s < tb.s && ta.n < tb.n) || (tb.s < ta.s && tb.n < ta.n)), "secs-difference-i64min-with-borrow");
    rep.class_if(below_min, "sub-below-i64min");
    rep.class_if(near_min, "sub-within-2s-of-i64min");
    rep.class_if(near_zero, "add-crosses-zero-within-2s");
    rep.class_if(td.s > i64::MAX as u64, "dsecs-above-i64");
    rep.nontrivial_if((neg_a || neg_b) && (carry || near_min || near_zero || below_min || sdiff > i64::MAX as i128 - 2));
    Ok(rep)
}

// ---------------------------------------------------------------- generators

pub const SEC_T: [i64; 7] = [0, 1, 2, 1_000_000_000, i64::MAX - 2, i64::MAX - 1, i64::MAX];
pub const SEC_NEG: [i64; 6] = [i64::MIN, i64::MIN + 1, i64::MIN + 2, -1_000_000_000, -2, -1];
pub const NANO_B: [u32; 5] = [0, 1, 2, 999_999_998, 999_999_999];
pub const SEC_D: [u64; 12] = [
    0,
    1,
    2,
    1_000_000_000,
    i64::MAX as u64 - 2,
    i64::MAX as u64 - 1,
    i64::MAX as u64,
    i64::MAX as u64 + 1,
    i64::MAX as u64 + 2,
    u64::MAX - 2,
    u64::MAX - 1,
    u64::MAX,
];
const SPAN: i64 = 4_000_000_000;

fn nano() -> impl Strategy<Value = u32> {
    prop_oneof![
        3 => prop::sample::select(NANO_B.to_vec()),
        1 => Just(500_000_000u32),
        4 => 0u32..1_000_000_000,
    ]
}

fn sec_t() -> impl Strategy<Value = i64> {
    prop_oneof![
        4 => prop::sample::select(SEC_T.to_vec()),
        2 => 0i64..=i64::MAX,
        1 => 0i64..=SPAN,
        1 => (i64::MAX - SPAN)..=i64::MAX,
    ]
}

fn sec_neg() -> impl Strategy<Value = i64> {
    prop_oneof![
        4 => prop::sample::select(SEC_NEG.to_vec()),
        2 => i64::MIN..0i64,
        1 => -SPAN..0i64,
        1 => i64::MIN..=(i64::MIN + SPAN),
    ]
}

fn sec_d() -> impl Strategy<Value = u64> {
    prop_oneof![
        4 => prop::sample::select(SEC_D.to_vec()),
        2 => any::<u64>(),
        1 => 0u64..=SPAN as u64,
        1 => (i64::MAX as u64 - SPAN as u64)..=(i64::MAX as u64 + SPAN as u64),
        1 => (u64::MAX - SPAN as u64)..=u64::MAX,
    ]
}

fn tv() -> impl Strategy<Value = Tv> {
    (sec_t(), nano()).prop_map(|(s, n)| Tv { s, n })
}

fn dv() -> impl Strategy<Value = Dv> {
    (sec_d(), nano()).prop_map(|(s, n)| Dv { s, n })
}

/// offsets of at most 2 s around an edge, biased to the interesting ones
fn delta() -> impl Strategy<Value = i128> {
    prop_oneof![
        3 => prop::sample::select(vec![-2_000_000_000i64, -1_000_000_001, -1_000_000_000, -999_999_999, -2, -1, 0, 1, 2, 999_999_999, 1_000_000_000, 1_000_000_001, 2_000_000_000]),
        2 => -2_000_000_000i64..=2_000_000_000,
    ]
    .prop_map(|x| x as i128)
}

fn clamp_tv(x: i128) -> Tv {
    to_tv(x.clamp(0, MAX_T)).unwrap()
}

fn clamp_dv(x: i128) -> Dv {
    to_dv(x.clamp(0, MAX_D)).unwrap()
}

fn clamp_any_tv(x: i128) -> Tv {
    let x = x.clamp(MIN_T, MAX_T);
    let s = x.div_euclid(NS);
    Tv { s: s as i64, n: x.rem_euclid(NS) as u32 }
}

/// Stratified: 2/8 independent boundary-biased values; the rest places one operand relative to
/// another so that the result lands within 2 s of a representability edge, operands are nearly
/// equal, or the nanoseconds meet exactly.
fn arith_exact() -> impl Strategy<Value = Arith> {
    (tv(), tv(), dv(), 0u8..8, delta(), delta()).prop_map(|(a, mut b, mut d, mode, d1, d2)| {
        match mode {
            0 | 1 => {}
            2 => d = clamp_dv(MAX_T + 1 - ns(a) + d1), // a + d = MAX_T + 1 + d1
            3 => d = clamp_dv(ns(a) + d1),             // a - d = -d1
            4 => b = clamp_tv(ns(a) + d1),             // nearly equal pair
            5 => {
                b = clamp_tv(ns(a) + d1);
                d = clamp_dv(ns(a) + d2);
            }
            6 => {
                // nanoseconds add up to exactly one second; pair with equal nanoseconds
                d.n = (NS as u32 - a.n) % NS as u32;
                b.n = a.n;
            }
            _ => {
                // subtraction leaves zero nanoseconds; pair in the same second
                d.n = a.n;
                b.s = a.s;
            }
        }
        Arith { a, b, d }
    })
}

fn arith_neg() -> impl Strategy<Value = Arith> {
    (sec_neg(), nano(), prop_oneof![1 => sec_neg(), 1 => sec_t()], nano(), dv(), 0u8..6, delta(), -2i64..=2).prop_map(|(sa, na, sb, nb, mut d, mode, d1, k)| {
        let a = Tv { s: sa, n: na };
        let mut b = Tv { s: sb, n: nb };
        match mode {
            0 | 1 => {}
            2 => d = clamp_dv(ns(a) - MIN_T + d1), // a - d = MIN_T - d1
            3 => d = clamp_dv(-ns(a) + d1),        // a + d = d1
            4 => b.s = (a.s as i128 + i64::MAX as i128 + k as i128).clamp(i64::MIN as i128, i64::MAX as i128) as i64, // b.s - a.s around i64::MAX
            _ => b = clamp_any_tv(ns(a) + d1),
        }
        Arith { a, b, d }
    })
}

// ---------------------------------------------------------------- driver

fn exhaustive(ctx: &Ctx, name: &str, asecs: &[i64], bsecs: &[i64], f: impl Fn(&Arith) -> CaseResult) {
    if ctx.is_replay() {
        if let Some(c) = ctx.replay_case::<Arith>(name) {
            ctx.run_one(name, &c, || f(&c));
        }
        return;
    }
    let mut idx = 0usize;
    let mut total = 0usize;
    for &sa in asecs {
        for &na in &NANO_B {
            for &sb in bsecs {
                for &nb in &NANO_B {
                    for &sd in &SEC_D {
                        for &nd in &NANO_B {
                            total += 1;
                            let mine = idx % ctx.nworkers as usize == ctx.worker as usize;
                            idx += 1;
                            if !mine {
                                continue;
                            }
                            let c = Arith { a: Tv { s: sa, n: na }, b: Tv { s: sb, n: nb }, d: Dv { s: sd, n: nd } };
                            if !ctx.run_one(name, &c, || f(&c)) {
                                return;
                            }
                        }
                    }
                }
            }
        }
    }
    ctx.note_exhaustive(format!(
        "{name}: all {total} triples (a, b, d) with a.s in {asecs:?}, b.s in {bsecs:?}, d.s in {SEC_D:?} and every nanosecond field in {NANO_B:?}"
    ));
}

pub fn run(ctx: &Ctx) {
    // (1) boundary cross products
    exhaustive(ctx, "instant-exh", &SEC_T, &SEC_T, check_exact::<Instant>);
    exhaustive(ctx, "systime-exh", &SEC_T, &SEC_T, check_exact::<SystemTime>);
    let all: Vec<i64> = SEC_NEG.iter().chain(SEC_T.iter()).copied().collect();
    exhaustive(ctx, "neg-exh", &SEC_NEG, &all, check_nopanic);

    // (2) random, stratified
    ctx.run_prop("instant-rand", ctx.cases(60_000, 1_500_000), arith_exact(), check_exact::<Instant>);
    ctx.run_prop("systime-rand", ctx.cases(60_000, 1_500_000), arith_exact(), check_exact::<SystemTime>);
    ctx.run_prop("neg-rand", ctx.cases(40_000, 1_000_000), arith_neg(), check_nopanic);

    // (3) clock and sleep
    clock::run(ctx);
    sleep::run(ctx);
    sleep::run_virtual(ctx);
}
