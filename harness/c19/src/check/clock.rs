//! Monotonic clock: successive readings of `MonotonicInstant::now()` never decrease, and the
//! `elapsed()` functions agree with readings taken before and after them.
//!
//! The only facts used are (a) the property itself (successive readings never decrease) and
//! (b) the exact difference of two readings; no wall-clock expectation.
use core::time::Duration;

use rusl::platform::TimeSpec;
use serde::{Deserialize, Serialize};
use tiny_std::time::{Instant, MonotonicInstant, SystemTime};

use super::{ns, Tv, NS};
use vh::runner::{no_panic, CaseReport, CaseResult, Ctx};
use vh::{ensure, fail};

#[derive(Debug, Clone, Serialize, Deserialize)]
pub struct ClockCase {
    /// number of successive readings
    pub readings: u32,
    /// an Instant this many nanoseconds before "now" / after "now" is asked for its elapsed()
    pub past_ns: u64,
    pub future_ns: u64,
    pub round: u32,
}

fn tv_of(i: &Instant) -> Option<Tv> {
    let ts: &TimeSpec = i.as_ref();
    if (0..NS as i64).contains(&ts.nanoseconds()) {
        Some(Tv { s: ts.seconds(), n: ts.nanoseconds() as u32 })
    } else {
        None
    }
}

fn read_mono() -> Result<(MonotonicInstant, Tv), vh::runner::Failure> {
    let m = no_panic("MonotonicInstant::now", MonotonicInstant::now)?;
    let i = m.as_instant();
    match tv_of(&i) {
        Some(t) => Ok((m, t)),
        None => {
            let ts: &TimeSpec = i.as_ref();
            fail!("MonotonicInstant::now|not-normalised", "reading has tv_nsec = {} (tv_sec = {})", ts.nanoseconds(), ts.seconds())
        }
    }
}

pub fn check_clock(c: &ClockCase) -> CaseResult {
    let mut rep = CaseReport::new();
    let n = c.readings.clamp(2, 1_000_000);
    let (mut pm, mut pt) = read_mono()?;
    let mut increases = 0u32;
    let mut equal = 0u32;
    for k in 1..n {
        let (m, t) = read_mono()?;
        // the raw readings
        ensure!(ns(t) >= ns(pt), "MonotonicInstant::now|decreased", "reading #{k} = {t:?} is before reading #{} = {pt:?}", k - 1);
        // ordering of the type agrees with the readings and with subtraction
        let exp = ns(t).cmp(&ns(pt));
        let got = m.cmp(&pm);
        ensure!(got == exp, "MonotonicInstant::cmp|wrong-order|successive readings", "{t:?}.cmp({pt:?}) = {got:?}, expected {exp:?}");
        if k % 16 == 0 {
            let df = no_panic("Instant-Instant", || m.as_instant() - pm.as_instant())?;
            let e = ns(t) - ns(pt);
            let exp_d = Duration::new((e / NS) as u64, (e % NS) as u32);
            ensure!(df == Some(exp_d), "Instant-Instant|wrong-value|successive readings", "{t:?} - {pt:?} = {df:?}, expected Some({exp_d:?})");
        }
        if exp == core::cmp::Ordering::Greater {
            increases += 1;
        } else {
            equal += 1;
        }
        pm = m;
        pt = t;
    }

    // MonotonicInstant::elapsed: "Will always yield a valid Duration and never panic"; bracketed
    // by a reading before (the instant itself) and one after.
    let (m0, t0) = read_mono()?;
    let e = no_panic("MonotonicInstant::elapsed", || m0.elapsed())?;
    let (_, t1) = read_mono()?;
    let upper = ns(t1) - ns(t0);
    ensure!((e.as_nanos() as i128) <= upper, "MonotonicInstant::elapsed|exceeds-later-reading", "{t0:?}.elapsed() = {e:?}, but a later reading was {t1:?} ({upper} ns later)");

    // Instant::elapsed for an Instant in the past: now - past, with now between two readings
    let (_, r0) = read_mono()?;
    let base = no_panic("Instant::now", Instant::now)?;
    if let (Some(bt), Some(past)) = (tv_of(&base), no_panic("Instant-Duration", || base - Duration::from_nanos(c.past_ns))?) {
        let pt_exact = ns(bt) - c.past_ns as i128;
        let e = no_panic("Instant::elapsed", || past.elapsed())?;
        let (_, r1) = read_mono()?;
        match e {
            Some(e) => {
                let lo = ns(bt) - pt_exact; // = past_ns: "now" inside elapsed() is not before `base`
                let hi = ns(r1) - pt_exact;
                let en = e.as_nanos() as i128;
                ensure!(lo <= en && en <= hi, "Instant::elapsed|outside-bracket|past instant", "(now - {} ns).elapsed() = {e:?}, readings before/after give [{lo}, {hi}] ns", c.past_ns);
                rep.class("elapsed-past-some");
            }
            None => fail!("Instant::elapsed|none-for-past-instant", "(now - {} ns).elapsed() = None (base {bt:?}, earlier reading {r0:?})", c.past_ns),
        }
    } else {
        // uptime shorter than past_ns: now - past_ns is negative, nothing to ask
        rep.class("elapsed-past-unrepresentable");
    }

    // Instant::elapsed for an Instant after now: "If this Instant is by some manipulation after
    // now, returns None" — decided only when a reading taken afterwards is still before it.
    if let (Some(bt), Some(fut)) = (tv_of(&base), no_panic("Instant+Duration", || base + Duration::from_nanos(c.future_ns))?) {
        let ft_exact = ns(bt) + c.future_ns as i128;
        let e = no_panic("Instant::elapsed", || fut.elapsed())?;
        let (_, r1) = read_mono()?;
        if ns(r1) < ft_exact {
            ensure!(e.is_none(), "Instant::elapsed|some-for-future-instant", "(now + {} ns).elapsed() = {e:?} although a later reading {r1:?} is still before it", c.future_ns);
            rep.class("elapsed-future-none");
        } else {
            rep.class("elapsed-future-undecided");
        }
    }

    // real-time clock may be stepped by the system: panic-freedom only
    let st = no_panic("SystemTime::now", SystemTime::now)?;
    let _ = no_panic("SystemTime::elapsed", || st.elapsed())?;
    let _ = no_panic("SystemTime::duration_since_unix_time", || st.duration_since_unix_time())?;

    rep.class_if(increases > 0, "strictly-increased");
    rep.class_if(equal > 0, "equal-successive-readings");
    rep.class_if(n >= 10_000, "readings-1e4");
    rep.nontrivial_if(increases > 0);
    Ok(rep)
}

pub fn run(ctx: &Ctx) {
    const NAME: &str = "clock";
    if ctx.is_replay() {
        if let Some(c) = ctx.replay_case::<ClockCase>(NAME) {
            ctx.run_one(NAME, &c, || check_clock(&c));
        }
        return;
    }
    let rounds = ctx.cases(4, 40);
    let past = [0u64, 1, 999_999_999, 1_000_000_000, 1_500_000_001, 30_000_000_000];
    let future = [1_000_000_000u64, 3_600_000_000_000, 999_999_999, u32::MAX as u64 * 1_000];
    let mut total = 0u64;
    for r in 0..rounds {
        // distinct per worker and round, fixed (no randomness needed: the clock is the input)
        let k = (r as usize) * ctx.nworkers as usize + ctx.worker as usize;
        let c = ClockCase { readings: 10_000, past_ns: past[k % past.len()] + (k / past.len()) as u64, future_ns: future[k % future.len()] + k as u64, round: k as u32 };
        if !ctx.run_one(NAME, &c, || check_clock(&c)) {
            return;
        }
        total += c.readings as u64;
    }
    ctx.extra("clock_readings", serde_json::json!(total));
}
