//! `tiny_std::thread::sleep(d)` returns `Ok` and no earlier than `d`, also when the sleeping
//! thread is hit by signals whose handler was installed WITHOUT `SA_RESTART` (so that
//! `nanosleep` really fails with EINTR and the retry loop of `sleep` is exercised).
//!
//! Only the lower bound is asserted. Elapsed time is measured with `std::time::Instant`
//! (CLOCK_MONOTONIC, the clock Linux uses for relative `nanosleep`), started before the call
//! and stopped after it, so a correct sleep can never be measured as shorter than `d`.
//! The `sc` interposer is used for its call log only (how many `nanosleep` calls failed with
//! EINTR), which labels the case; it forces nothing.
use std::sync::atomic::{AtomicBool, AtomicU32, Ordering};
use std::sync::Arc;
use std::time::{Duration, Instant};

use proptest::prelude::*;
use serde::{Deserialize, Serialize};

use vh::runner::{no_panic, CaseReport, CaseResult, Ctx};
use vh::ensure;

pub const MAX_SLEEP_NS: u32 = 30_000_000;
pub const MAX_SIGNALS: usize = 20;
const EINTR: i32 = 4;

#[derive(Debug, Clone, Serialize, Deserialize)]
pub struct SleepCase {
    /// duration to sleep, nanoseconds (<= 30 ms)
    pub d_ns: u32,
    /// offsets from the start of the sleep at which SIGUSR1 is sent to the sleeping thread, microseconds
    pub sig_us: Vec<u32>,
}

static HANDLED: AtomicU32 = AtomicU32::new(0);

extern "C" fn on_usr1(_sig: i32) {
    HANDLED.fetch_add(1, Ordering::Relaxed);
}

fn install_handler() {
    unsafe {
        let mut sa: libc::sigaction = core::mem::zeroed();
        sa.sa_sigaction = on_usr1 as *const () as usize;
        sa.sa_flags = 0; // no SA_RESTART
        libc::sigemptyset(&mut sa.sa_mask);
        let rc = libc::sigaction(libc::SIGUSR1, &sa, core::ptr::null_mut());
        assert_eq!(rc, 0, "sigaction(SIGUSR1)");
    }
}

/// One execution of the case: (number of nanosleep calls that failed with EINTR) or the failure.
fn attempt(c: &SleepCase) -> Result<usize, vh::runner::Failure> {
    let d = Duration::from_nanos(c.d_ns as u64);
    let mut offs: Vec<u32> = c.sig_us.iter().map(|&o| o.min(MAX_SLEEP_NS / 1000 + 5_000)).collect();
    offs.sort_unstable();
    let target = unsafe { libc::pthread_self() } as usize;
    let go = Arc::new(AtomicBool::new(false));
    let ready = Arc::new(AtomicBool::new(false));
    let helper = if offs.is_empty() {
        None
    } else {
        let go = go.clone();
        let ready = ready.clone();
        Some(std::thread::spawn(move || {
            // be on a CPU when the sleep starts: announce, then spin (bounded by the main
            // thread's few instructions between seeing `ready` and setting `go`)
            ready.store(true, Ordering::Release);
            while !go.load(Ordering::Acquire) {
                core::hint::spin_loop();
            }
            let t0 = Instant::now();
            for o in offs {
                let at = Duration::from_micros(o as u64);
                // coarse wait by sleeping, the last 200 us by spinning (timer slack, wake-up latency)
                let now = t0.elapsed();
                if at > now + Duration::from_micros(250) {
                    std::thread::sleep(at - now - Duration::from_micros(200));
                }
                while t0.elapsed() < at {
                    core::hint::spin_loop();
                }
                unsafe {
                    libc::pthread_kill(target as libc::pthread_t, libc::SIGUSR1);
                }
            }
        }))
    };
    if helper.is_some() {
        while !ready.load(Ordering::Acquire) {
            std::thread::yield_now();
        }
    }
    let handled_before = HANDLED.load(Ordering::Relaxed);
    sc::verif::log_begin();
    go.store(true, Ordering::Release);
    let start = Instant::now();
    let res = no_panic("thread::sleep", || tiny_std::thread::sleep(d));
    let elapsed = start.elapsed();
    let log = sc::verif::log_end();
    // all signals are sent (and, being directed at this thread, handled) before the attempt ends
    if let Some(h) = helper {
        let _ = h.join();
    }
    let handled_during = HANDLED.load(Ordering::Relaxed).wrapping_sub(handled_before);
    let res = res?;
    let calls = log.iter().filter(|c| c.nr == sc::nr::NANOSLEEP).count();
    let eintr = log.iter().filter(|c| c.nr == sc::nr::NANOSLEEP && c.ret == sc::verif::neg_errno(EINTR)).count();
    let shape = if eintr > 0 { "interrupted" } else { "not interrupted" };
    if let Err(e) = &res {
        return Err(vh::runner::Failure::new(
            format!("thread::sleep|error-return|{shape}"),
            format!("sleep({d:?}) = Err({e}) after {elapsed:?} ({calls} nanosleep calls, {eintr} failed with EINTR)"),
        ));
    }
    ensure!(
        elapsed >= d,
        format!("thread::sleep|returned-early|{shape}"),
        "sleep({d:?}) returned Ok after only {elapsed:?} ({calls} nanosleep calls, {eintr} failed with EINTR, {handled_during} signals handled)"
    );
    Ok(eintr)
}

pub fn check_sleep(c: &SleepCase) -> CaseResult {
    let mut rep = CaseReport::new();
    if c.d_ns > MAX_SLEEP_NS || c.sig_us.len() > MAX_SIGNALS {
        rep.class("outside-domain-skipped");
        return Ok(rep);
    }
    // A signal planned inside the sleep can still miss it when the helper thread is scheduled
    // late. Every attempt asserts the lower bound; the case is repeated (at most 3 attempts) only
    // to make "this case interrupts the sleep" reproducible for shrinking and replay.
    let planned_inside = c.sig_us.iter().any(|&o| (o as u64) * 1000 < c.d_ns as u64);
    let mut eintr = attempt(c)?;
    let mut attempts = 1;
    while eintr == 0 && planned_inside && attempts < 3 {
        eintr = attempt(c)?;
        attempts += 1;
    }
    rep.class_if(attempts > 1, "repeated-because-signals-missed-the-sleep");
    rep.class_if(c.sig_us.is_empty(), "no-signals");
    rep.class_if(eintr == 0, "uninterrupted");
    rep.class_if(eintr == 1, "interrupted-once");
    rep.class_if(eintr >= 2, "interrupted-repeatedly");
    rep.class_if(eintr >= 1 && c.d_ns >= 5_000_000, "interrupted-sleep-5ms-or-longer");
    rep.class_if(c.d_ns == 0, "zero-duration");
    rep.class_if(c.d_ns == MAX_SLEEP_NS, "max-duration");
    rep.nontrivial_if(eintr >= 1);
    Ok(rep)
}

fn sleep_case() -> impl Strategy<Value = SleepCase> {
    let dur = prop_oneof![
        1 => prop::sample::select(vec![0u32, 1, 999, 1_000, 999_999, 1_000_000, 1_000_001, MAX_SLEEP_NS - 1, MAX_SLEEP_NS]),
        2 => 0u32..=MAX_SLEEP_NS,
        3 => 4_000_000u32..=MAX_SLEEP_NS,
    ];
    // offsets as fractions of (d + 2 ms): most land inside the sleep, some after it
    let sigs = prop_oneof![
        1 => Just(Vec::<u16>::new()),
        2 => prop::collection::vec(any::<u16>(), 1..=3),
        3 => prop::collection::vec(any::<u16>(), 1..=MAX_SIGNALS),
    ];
    (dur, sigs).prop_map(|(d_ns, fr)| {
        let span_us = d_ns as u64 / 1000 + 2_000;
        SleepCase { d_ns, sig_us: fr.into_iter().map(|f| ((f as u64 * span_us) >> 16) as u32).collect() }
    })
}

pub fn run(ctx: &Ctx) {
    install_handler();
    ctx.run_prop("sleep", ctx.cases(200, 4_000), sleep_case(), check_sleep);
}
