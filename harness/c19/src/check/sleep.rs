//! `tiny_std::thread::sleep(d)` returns `Ok` and no earlier than `d`, also when the sleeping
//! thread is hit by signals whose handler was installed WITHOUT `SA_RESTART` (so that
//! `nanosleep` really fails with EINTR and the retry loop of `sleep` is exercised).
//!
//! Only the lower bound is asserted. Elapsed time is measured with `std::time::Instant`
//! (CLOCK_MONOTONIC, the clock Linux uses for relative `nanosleep`), started before the call
//! and stopped after it, so a correct sleep can never be measured as shorter than `d`.
//! The `sc` interposer is used for its call log only (how many `nanosleep` calls failed with
//! EINTR), which labels the case; it forces nothing.
use std::sync::atomic::{AtomicBool, AtomicU32, Ordering};
use std::sync::Arc;
use std::time::{Duration, Instant};

use proptest::prelude::*;
use serde::{Deserialize, Serialize};

use vh::runner::{no_panic, CaseReport, CaseResult, Ctx};
use vh::ensure;

pub const MAX_SLEEP_NS: u32 = 30_000_000;
pub const MAX_SIGNALS: usize = 20;
const EINTR: i32 = 4;

#[derive(Debug, Clone, Serialize, Deserialize)]
pub struct SleepCase {
    /// duration to sleep, nanoseconds (<= 30 ms)
    pub d_ns: u32,
    /// offsets from the start of the sleep at which SIGUSR1 is sent to the sleeping thread, microseconds
    pub sig_us: Vec<u32>,
}

static HANDLED: AtomicU32 = AtomicU32::new(0);

extern "C" fn on_usr1(_sig: i32) {
    HANDLED.fetch_add(1, Ordering::Relaxed);
}

fn install_handler() {
    unsafe {
        let mut sa: libc::sigaction = core::mem::zeroed();
        sa.sa_sigaction = on_usr1 as *const () as usize;
        sa.sa_flags = 0; // no SA_RESTART
        libc::sigemptyset(&mut sa.sa_mask);
        let rc = libc::sigaction(libc::SIGUSR1, &sa, core::ptr::null_mut());
        assert_eq!(rc, 0, "sigaction(SIGUSR1)");
    }
}

/// One execution of the case: (number of nanosleep calls that failed with EINTR) or the failure.
fn attempt(c: &SleepCase) -> Result<usize, vh::runner::Failure> {
    let d = Duration::from_nanos(c.d_ns as u64);
    let mut offs: Vec<u32> = c.sig_us.iter().map(|&o| o.min(MAX_SLEEP_NS / 1000 + 5_000)).collect();
    offs.sort_unstable();
    let target = unsafe { libc::pthread_self() } as usize;
    let go = Arc::new(AtomicBool::new(false));
    let ready = Arc::new(AtomicBool::new(false));
    let helper = if offs.is_empty() {
        None
    } else {
        let go = go.clone();
        let ready = ready.clone();
        Some(std::thread::spawn(move || {
            // be on a CPU when the sleep starts: announce, then spin (bounded by the main
            // thread's few instructions between seeing `ready` and setting `go`)
            ready.store(true, Ordering::Release);
            while !go.load(Ordering::Acquire) {
                core::hint::spin_loop();
            }
            let t0 = Instant::now();
            for o in offs {
                let at = Duration::from_micros(o as u64);
                // coarse wait by sleeping, the last 200 us by spinning (timer slack, wake-up latency)
                let now = t0.elapsed();
                if at > now + Duration::from_micros(250) {
                    std::thread::sleep(at - now - Duration::from_micros(200));
                }
                while t0.elapsed() < at {
                    core::hint::spin_loop();
                }
                unsafe {
                    libc::pthread_kill(target as libc::pthread_t, libc::SIGUSR1);
                }
            }
        }))
    };
    if helper.is_some() {
        while !ready.load(Ordering::Acquire) {
            std::thread::yield_now();
        }
    }
    let handled_before = HANDLED.load(Ordering::Relaxed);
    sc::verif::log_begin();
    go.store(true, Ordering::Release);
    let start = Instant::now();
    let res = no_panic("thread::sleep", || tiny_std::thread::sleep(d));
    let elapsed = start.elapsed();
    let log = sc::verif::log_end();
    // all signals are sent (and, being directed at this thread, handled) before the attempt ends
    if let Some(h) = helper {
        let _ = h.join();
    }
    let handled_during = HANDLED.load(Ordering::Relaxed).wrapping_sub(handled_before);
    let res = res?;
    let calls = log.iter().filter(|c| c.nr == sc::nr::NANOSLEEP).count();
    let eintr = log.iter().filter(|c| c.nr == sc::nr::NANOSLEEP && c.ret == sc::verif::neg_errno(EINTR)).count();
    let shape = if eintr > 0 { "interrupted" } else { "not interrupted" };
    if let Err(e) = &res {
        return Err(vh::runner::Failure::new(
            format!("thread::sleep|error-return|{shape}"),
            format!("sleep({d:?}) = Err({e}) after {elapsed:?} ({calls} nanosleep calls, {eintr} failed with EINTR)"),
        ));
    }
    ensure!(
        elapsed >= d,
        format!("thread::sleep|returned-early|{shape}"),
        "sleep({d:?}) returned Ok after only {elapsed:?} ({calls} nanosleep calls, {eintr} failed with EINTR, {handled_during} signals handled)"
    );
    Ok(eintr)
}

pub fn check_sleep(c: &SleepCase) -> CaseResult {
    let mut rep = CaseReport::new();
    if c.d_ns > MAX_SLEEP_NS || c.sig_us.len() > MAX_SIGNALS {
        rep.class("outside-domain-skipped");
        return Ok(rep);
    }
    // A signal planned inside the sleep can still miss it when the helper thread is scheduled
    // late. Every attempt asserts the lower bound; the case is repeated (at most 3 attempts) only
    // to make "this case interrupts the sleep" reproducible for shrinking and replay.
    let planned_inside = c.sig_us.iter().any(|&o| (o as u64) * 1000 < c.d_ns as u64);
    let mut eintr = attempt(c)?;
    let mut attempts = 1;
    while eintr == 0 && planned_inside && attempts < 3 {
        eintr = attempt(c)?;
        attempts += 1;
    }
    rep.class_if(attempts > 1, "repeated-because-signals-missed-the-sleep");
    rep.class_if(c.sig_us.is_empty(), "no-signals");
    rep.class_if(eintr == 0, "uninterrupted");
    rep.class_if(eintr == 1, "interrupted-once");
    rep.class_if(eintr >= 2, "interrupted-repeatedly");
    rep.class_if(eintr >= 1 && c.d_ns >= 5_000_000, "interrupted-sleep-5ms-or-longer");
    rep.class_if(c.d_ns == 0, "zero-duration");
    rep.class_if(c.d_ns == MAX_SLEEP_NS, "max-duration");
    rep.nontrivial_if(eintr >= 1);
    Ok(rep)
}

fn sleep_case() -> impl Strategy<Value = SleepCase> {
    let dur = prop_oneof![
        1 => prop::sample::select(vec![0u32, 1, 999, 1_000, 999_999, 1_000_000, 1_000_001, MAX_SLEEP_NS - 1, MAX_SLEEP_NS]),
        2 => 0u32..=MAX_SLEEP_NS,
        3 => 4_000_000u32..=MAX_SLEEP_NS,
    ];
    // offsets as fractions of (d + 2 ms): most land inside the sleep, some after it
    let sigs = prop_oneof![
        1 => Just(Vec::<u16>::new()),
        2 => prop::collection::vec(any::<u16>(), 1..=3),
        3 => prop::collection::vec(any::<u16>(), 1..=MAX_SIGNALS),
    ];
    (dur, sigs).prop_map(|(d_ns, fr)| {
        let span_us = d_ns as u64 / 1000 + 2_000;
        SleepCase { d_ns, sig_us: fr.into_iter().map(|f| ((f as u64 * span_us) >> 16) as u32).collect() }
    })
}

pub fn run(ctx: &Ctx) {
    install_handler();
    ctx.run_prop("sleep", ctx.cases(200, 4_000), sleep_case(), check_sleep);
}

// ------------------------------------------------------------------------------------------
// virtual-time model: `nanosleep` is emulated by the interposer, so durations up to i64::MAX
// seconds and interruptions with any amount of time remaining cost nothing
// ------------------------------------------------------------------------------------------

#[derive(Debug, Clone, Serialize, Deserialize)]
pub struct VSleepCase {
    pub secs: u64,
    pub nanos: u32,
    /// call k of nanosleep (k < len) is interrupted after this fraction (in 1/65536) of the time
    /// it was asked to sleep; later calls complete
    pub interrupts: Vec<u16>,
}

#[derive(Default)]
struct VClock {
    slept_ns: u128,
    calls: u32,
    plan: Vec<u16>,
    bad_request: Option<(i64, i64)>,
    requests: Vec<(i64, i64)>,
}

thread_local! {
    static VCLOCK: std::cell::RefCell<VClock> = std::cell::RefCell::new(VClock::default());
}

/// nanosleep(req, rem) in virtual time. Mirrors the kernel: EINVAL for a malformed request,
/// EINTR with the remaining time written to `rem` when interrupted, 0 when the time is up.
fn emulated_nanosleep(args: &[usize; 6]) -> usize {
    let neg = |e: i32| (-(e as isize)) as usize;
    let (sec, nsec) = unsafe {
        let p = args[0] as *const i64;
        (p.read_unaligned(), p.add(1).read_unaligned())
    };
    VCLOCK.with(|v| {
        let mut v = v.borrow_mut();
        let k = v.calls as usize;
        v.calls += 1;
        v.requests.push((sec, nsec));
        if sec < 0 || !(0..1_000_000_000).contains(&nsec) {
            v.bad_request = Some((sec, nsec));
            return neg(libc::EINVAL);
        }
        let req: u128 = sec as u128 * 1_000_000_000 + nsec as u128;
        if let Some(&f) = v.plan.get(k) {
            let slept = req * f as u128 / 65536;
            v.slept_ns += slept;
            let rem = req - slept;
            if args[1] != 0 {
                unsafe {
                    let r = args[1] as *mut i64;
                    r.write_unaligned((rem / 1_000_000_000) as i64);
                    r.add(1).write_unaligned((rem % 1_000_000_000) as i64);
                }
            }
            return neg(libc::EINTR);
        }
        v.slept_ns += req;
        0
    })
}

pub fn check_vsleep(c: &VSleepCase) -> CaseResult {
    let mut rep = CaseReport::new();
    let nanos = c.nanos % 1_000_000_000;
    let d = Duration::new(c.secs, nanos);
    let plan: Vec<u16> = c.interrupts.iter().copied().take(8).collect();
    VCLOCK.with(|v| *v.borrow_mut() = VClock { plan: plan.clone(), ..VClock::default() });
    sc::verif::install();
    sc::verif::plan(vec![sc::verif::Rule { nr: Some(sc::nr::NANOSLEEP), nth: None, action: sc::verif::Action::Emulate(emulated_nanosleep), times: usize::MAX }]);
    let res = no_panic("thread::sleep", || tiny_std::thread::sleep(d));
    sc::verif::clear_plan();
    let res = res?;
    let (slept, calls, bad, requests) = VCLOCK.with(|v| {
        let v = v.borrow();
        (v.slept_ns, v.calls, v.bad_request, v.requests.clone())
    });
    let want: u128 = c.secs as u128 * 1_000_000_000 + nanos as u128;
    let shape = if plan.is_empty() { "uninterrupted" } else if c.secs >= 1 { "interrupted with whole seconds requested" } else { "interrupted sub-second sleep" };
    if c.secs > i64::MAX as u64 {
        // not representable as a timespec: documented to be refused ("errors on a malformed
        // duration"); sleeping the whole time in pieces would be fine too - only a return that
        // claims the time has passed although it has not is wrong
        if res.is_ok() {
            ensure!(slept >= want, format!("thread::sleep|returned-early|unrepresentable duration"), "sleep({d:?}) returned Ok after sleeping {slept} ns in {calls} nanosleep calls");
        }
        rep.class("duration-beyond-i64-seconds");
        return Ok(rep);
    }
    ensure!(bad.is_none(), format!("thread::sleep|malformed-request|{shape}"), "sleep({d:?}) passed the timespec {bad:?} to nanosleep (requests so far {requests:?}, interruptions {plan:?})");
    match res {
        Ok(()) => {
            ensure!(slept >= want, format!("thread::sleep|returned-early|{shape}"), "sleep({d:?}) returned Ok after {slept} ns of (virtual) sleeping, {} ns too early: nanosleep requests {requests:?}, interrupted calls sleep {plan:?}/65536 of their request", want - slept);
        }
        Err(e) => {
            vh::fail!(format!("thread::sleep|error-return|{shape}"), "sleep({d:?}) = Err({e}) although nanosleep only ever answered 0 or EINTR (requests {requests:?})");
        }
    }
    ensure!(calls as usize <= plan.len() + 1, format!("thread::sleep|slept-again-after-completion|{shape}"), "sleep({d:?}): {calls} nanosleep calls for {} interruptions (requests {requests:?})", plan.len());
    rep.nontrivial_if(!plan.is_empty());
    rep.class_if(plan.is_empty(), "vsleep-uninterrupted");
    rep.class_if(!plan.is_empty(), "vsleep-interrupted");
    rep.class_if(!plan.is_empty() && requests.get(1).map(|r| r.0 >= 1).unwrap_or(false), "vsleep-interrupted-with-whole-seconds-remaining");
    rep.class_if(plan.len() >= 3, "vsleep-3+-interruptions");
    rep.class_if(c.secs >= (1 << 40), "vsleep-huge-duration");
    rep.class_if(want == 0, "vsleep-zero");
    Ok(rep)
}

fn vsleep_case() -> impl Strategy<Value = VSleepCase> {
    let secs = prop_oneof![
        3 => 0u64..4,
        3 => 0u64..100_000,
        2 => any::<u64>().prop_map(|x| x >> 1),
        1 => prop::sample::select(vec![i64::MAX as u64, i64::MAX as u64 - 1, u32::MAX as u64, u32::MAX as u64 + 1, 1 << 31]),
        1 => any::<u64>(),
    ];
    let nanos = prop_oneof![2 => Just(0u32), 2 => Just(999_999_999u32), 1 => Just(1u32), 4 => 0u32..1_000_000_000];
    let frac = prop_oneof![2 => Just(0u16), 2 => Just(65535u16), 1 => Just(1u16), 5 => any::<u16>()];
    (secs, nanos, prop::collection::vec(frac, 0..5)).prop_map(|(secs, nanos, interrupts)| VSleepCase { secs, nanos, interrupts })
}

pub fn run_virtual(ctx: &Ctx) {
    ctx.run_prop("sleep-virtual", ctx.cases(20_000, 1_000_000), vsleep_case(), check_vsleep);
}
