//! "classify": the two small pieces every wrapper's verdict rests on, taken on their own.
//! `rusl::platform::is_syscall_error(r)` must hold exactly for the register values that read as
//! -4095..=-1; `NonNegativeI32` (the type descriptors and counts come back in) must accept exactly
//! the non-negative i32 values and hand the same number back through every accessor.
//! Windows of register values (every value inside, not a sample): around 0, around both ends of the
//! error band, around the i32/u32/isize limits; plus generated values.
use proptest::prelude::*;
use rusl::platform::{is_syscall_error, NonNegativeI32};
use serde::{Deserialize, Serialize};
use vh::runner::{catch, CaseReport, CaseResult, Ctx, Failure};

#[derive(Debug, Clone, Serialize, Deserialize)]
pub struct Window {
    /// first register value (as the signed number it reads as) and how many consecutive values
    pub from: i128,
    pub count: u32,
}

fn one_reg(r: usize) -> Result<(), Failure> {
    let signed = r as isize;
    let want = (-4095..=-1).contains(&signed);
    let got = is_syscall_error(r);
    if got != want {
        return Err(Failure::new(format!("is_syscall_error|{}", if want { "error-read-as-success" } else { "success-read-as-error" }), format!("is_syscall_error({r:#x}) = {got}; as a signed register that is {signed}, {} [-4095, -1]", if want { "inside" } else { "outside" })));
    }
    Ok(())
}

fn one_i32(v: i32) -> Result<(), Failure> {
    let r = NonNegativeI32::try_new(v);
    match (r, v >= 0) {
        (Ok(n), true) => {
            let same = n.value() == v && n.into_u32() as i64 == v as i64 && n.into_u64() as i128 == v as i128 && n.into_u128() == v as u128 && n.into_usize() == v as usize;
            if !same {
                return Err(Failure::new("NonNegativeI32|accessor-changes-the-value", format!("try_new({v}): value {} into_u32 {} into_u64 {} into_u128 {} into_usize {}", n.value(), n.into_u32(), n.into_u64(), n.into_u128(), n.into_usize())));
            }
            if format!("{n}") != format!("{v}") {
                return Err(Failure::new("NonNegativeI32|display-differs", format!("Display of try_new({v}) is {n}")));
            }
            match catch(|| NonNegativeI32::comptime_checked_new(v).value()) {
                Ok(x) if x == v => {}
                other => return Err(Failure::new("NonNegativeI32|comptime_checked_new", format!("comptime_checked_new({v}) gave {other:?}"))),
            }
        }
        (Err(back), false) => {
            if back != v {
                return Err(Failure::new("NonNegativeI32|rejected-value-changed", format!("try_new({v}) = Err({back})")));
            }
            // documented to panic outside const context
            if let Ok(x) = catch(|| NonNegativeI32::comptime_checked_new(v).value()) {
                return Err(Failure::new("NonNegativeI32|negative-accepted", format!("comptime_checked_new({v}) returned {x} (documented: panics)")));
            }
        }
        (Ok(n), false) => return Err(Failure::new("NonNegativeI32|negative-accepted", format!("try_new({v}) = Ok({})", n.value()))),
        (Err(_), true) => return Err(Failure::new("NonNegativeI32|non-negative-rejected", format!("try_new({v}) = Err"))),
    }
    Ok(())
}

pub fn check_window(w: &Window) -> CaseResult {
    let mut rep = CaseReport::new();
    let mut band = false;
    for k in 0..w.count as i128 {
        let s = w.from + k;
        // the register holds the low 64 bits of the number
        let r = s as u64 as usize;
        one_reg(r)?;
        band |= (-4095..=-1).contains(&(r as isize));
        if let Ok(v) = i32::try_from(s) {
            // leave out the bulk of the panicking (negative) constructor calls: 64 per window are plenty
            if v >= 0 || k < 64 {
                one_i32(v)?;
            }
        }
    }
    rep.nontrivial = true;
    rep.class_if(band, "window-touches-the-error-band");
    rep.class_if(!band, "window-outside-the-error-band");
    Ok(rep)
}

pub fn run(ctx: &Ctx) {
    for sub in ["classify", "classify-rand"] {
        if let Some(w) = ctx.replay_case::<Window>(sub) {
            ctx.run_one(sub, &w, || check_window(&w));
            return;
        }
    }
    if ctx.is_replay() {
        return;
    }
    let span = 9000i128;
    let centres: [i128; 12] = [0, -4095, -4096, i32::MAX as i128, i32::MIN as i128, u32::MAX as i128, -(u32::MAX as i128), i64::MAX as i128, i64::MIN as i128 + span, 1 << 31, 1 << 32, -(1i128 << 32)];
    let mut ok = true;
    for (i, c) in centres.iter().enumerate() {
        if i as u32 % ctx.nworkers != ctx.worker {
            continue;
        }
        let w = Window { from: c - span, count: (2 * span) as u32 };
        ok &= ctx.run_one("classify", &w, || check_window(&w));
    }
    if ok {
        ctx.note_exhaustive(format!("classify: every register value within {span} of 0, -4095, -4096, the i32/u32/i64 limits and 2^31, 2^32 (12 windows) through is_syscall_error; every i32 among them through NonNegativeI32"));
    }
    // generated single values (any 64-bit pattern; narrow windows so that the search also lands on the band)
    let strat = prop_oneof![2 => any::<i64>().prop_map(|v| v as i128), 1 => (-6000i128..6000), 1 => any::<i32>().prop_map(|v| v as i128)].prop_map(|from| Window { from, count: 4 });
    ctx.run_prop("classify-rand", ctx.cases(2000, 200_000), strat, check_window);
}
