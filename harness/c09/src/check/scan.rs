//! Self-check of Appendix A: scan the repository sources for public functions that issue a
//! system call, so that a wrapper added to rusl cannot silently escape the driver table.
//!
//! The scan is textual (comments and string/char literals are blanked, bodies are found by
//! brace matching). A function is a *wrapper* when it is `pub fn` / `pub unsafe fn` / `pub const
//! fn` (plain `pub`, not `pub(crate)`) and its body contains `syscall!`, or when it calls - by
//! bare name - a function of the same file that (transitively) does (`unlink` -> `do_unlink`,
//! `dup2` -> `dup3`, `pipe` -> `pipe2`). Names are reported as `<file relative to src>::<fn>`.
use std::collections::{BTreeMap, BTreeSet};
use std::path::{Path, PathBuf};

/// Locate `<repo>/rusl/src`: `VERIF_REPO_DIR`, else the `rusl` path dependency of this crate's own
/// manifest (that is the tree the binary was compiled against - also correct in scratch copies),
/// else `/repo`.
pub fn rusl_src_dir() -> Option<PathBuf> {
    let mut cands: Vec<PathBuf> = Vec::new();
    if let Ok(d) = std::env::var("VERIF_REPO_DIR") {
        cands.push(Path::new(&d).join("rusl/src"));
    }
    if let Some(p) = rusl_path_from_manifest(include_str!("../../Cargo.toml")) {
        let p = Path::new(&p);
        let p = if p.is_absolute() { p.to_path_buf() } else { Path::new(env!("CARGO_MANIFEST_DIR")).join(p) };
        cands.push(p.join("src"));
    }
    cands.push(PathBuf::from("/repo/rusl/src"));
    cands.into_iter().find(|c| c.join("lib.rs").is_file())
}

fn rusl_path_from_manifest(manifest: &str) -> Option<String> {
    for line in manifest.lines() {
        let l = line.trim_start();
        if !(l.starts_with("rusl ") || l.starts_with("rusl=")) {
            continue;
        }
        let i = l.find("path")?;
        let rest = &l[i..];
        let q1 = rest.find('"')?;
        let rest = &rest[q1 + 1..];
        let q2 = rest.find('"')?;
        return Some(rest[..q2].to_string());
    }
    None
}

/// Replace comments, string literals and char literals by spaces (same length, newlines kept).
fn blank(src: &str) -> Vec<u8> {
    let b = src.as_bytes();
    let mut out = b.to_vec();
    let mut i = 0;
    let n = b.len();
    let fill = |out: &mut Vec<u8>, a: usize, z: usize| {
        for k in a..z.min(n) {
            if out[k] != b'\n' {
                out[k] = b' ';
            }
        }
    };
    while i < n {
        if b[i] == b'/' && i + 1 < n && b[i + 1] == b'/' {
            let mut j = i;
            while j < n && b[j] != b'\n' {
                j += 1;
            }
            fill(&mut out, i, j);
            i = j;
        } else if b[i] == b'/' && i + 1 < n && b[i + 1] == b'*' {
            let mut depth = 1;
            let mut j = i + 2;
            while j < n && depth > 0 {
                if b[j] == b'/' && j + 1 < n && b[j + 1] == b'*' {
                    depth += 1;
                    j += 2;
                } else if b[j] == b'*' && j + 1 < n && b[j + 1] == b'/' {
                    depth -= 1;
                    j += 2;
                } else {
                    j += 1;
                }
            }
            fill(&mut out, i, j);
            i = j;
        } else if b[i] == b'"' {
            let mut j = i + 1;
            while j < n && b[j] != b'"' {
                if b[j] == b'\\' {
                    j += 1;
                }
                j += 1;
            }
            fill(&mut out, i + 1, j);
            i = j + 1;
        } else if b[i] == b'\'' {
            // char literal ('x', '\n', '\'') vs lifetime ('a): a literal closes within 4 bytes
            let close = if i + 2 < n && b[i + 1] == b'\\' {
                (i + 3..(i + 8).min(n)).find(|&k| b[k] == b'\'')
            } else if i + 2 < n && b[i + 2] == b'\'' {
                Some(i + 2)
            } else {
                None
            };
            match close {
                Some(k) => {
                    fill(&mut out, i + 1, k);
                    i = k + 1;
                }
                None => i += 1,
            }
        } else {
            i += 1;
        }
    }
    out
}

fn is_ident(c: u8) -> bool {
    c.is_ascii_alphanumeric() || c == b'_'
}

#[derive(Debug)]
struct FnItem {
    name: String,
    public: bool,
    body: (usize, usize),
}

fn functions(text: &[u8]) -> Vec<FnItem> {
    let n = text.len();
    let mut out = Vec::new();
    let mut i = 0;
    while i + 3 < n {
        let at_word = text[i] == b'f' && text[i + 1] == b'n' && (text[i + 2] == b' ' || text[i + 2] == b'\n') && (i == 0 || !is_ident(text[i - 1]));
        if !at_word {
            i += 1;
            continue;
        }
        // name
        let mut j = i + 2;
        while j < n && text[j].is_ascii_whitespace() {
            j += 1;
        }
        let ns = j;
        while j < n && is_ident(text[j]) {
            j += 1;
        }
        if j == ns {
            i += 2; // `fn(` pointer type
            continue;
        }
        let name = String::from_utf8_lossy(&text[ns..j]).to_string();
        // header qualifiers: walk back over words belonging to the item header
        let mut k = i;
        let mut public = false;
        loop {
            while k > 0 && text[k - 1].is_ascii_whitespace() {
                k -= 1;
            }
            let we = k;
            while k > 0 && (is_ident(text[k - 1]) || text[k - 1] == b'"' || text[k - 1] == b')' || text[k - 1] == b'(') {
                k -= 1;
            }
            if k == we {
                break;
            }
            let w = String::from_utf8_lossy(&text[k..we]).to_string();
            match w.as_str() {
                "pub" => {
                    public = true;
                    break;
                }
                "unsafe" | "const" | "extern" | "async" | "\"\"" | "\" \"" => {}
                s if s.starts_with('"') => {} // blanked ABI string
                s if s.starts_with("pub(") || s.ends_with(')') => break, // pub(crate) etc.: not public
                _ => break,
            }
        }
        // body: first `{` or `;` at parenthesis depth 0 after the name
        let mut depth = 0i32;
        let mut b0 = None;
        while j < n {
            match text[j] {
                b'(' | b'[' => depth += 1,
                b')' | b']' => depth -= 1,
                b'{' if depth == 0 => {
                    b0 = Some(j);
                    break;
                }
                b';' if depth == 0 => break,
                _ => {}
            }
            j += 1;
        }
        let Some(b0) = b0 else {
            i = j.max(i + 2);
            continue;
        };
        let mut d = 0i32;
        let mut e = b0;
        while e < n {
            if text[e] == b'{' {
                d += 1;
            } else if text[e] == b'}' {
                d -= 1;
                if d == 0 {
                    break;
                }
            }
            e += 1;
        }
        out.push(FnItem { name, public, body: (b0, e.min(n)) });
        i = b0 + 1; // nested functions are scanned too
    }
    out
}

fn contains_call(body: &[u8], name: &str) -> bool {
    let nb = name.as_bytes();
    let mut i = 0;
    while i + nb.len() < body.len() {
        if &body[i..i + nb.len()] == nb && (i == 0 || !(is_ident(body[i - 1]) || body[i - 1] == b'.')) {
            let mut j = i + nb.len();
            while j < body.len() && body[j].is_ascii_whitespace() {
                j += 1;
            }
            if j < body.len() && body[j] == b'(' {
                return true;
            }
        }
        i += 1;
    }
    false
}

fn contains_token(body: &[u8], tok: &[u8]) -> bool {
    body.windows(tok.len()).enumerate().any(|(i, w)| w == tok && (i == 0 || !is_ident(body[i - 1])))
}

fn walk(dir: &Path, out: &mut Vec<PathBuf>) {
    let Ok(rd) = std::fs::read_dir(dir) else { return };
    let mut ents: Vec<PathBuf> = rd.filter_map(|e| e.ok()).map(|e| e.path()).collect();
    ents.sort();
    for p in ents {
        if p.is_dir() {
            walk(&p, out);
        } else if p.extension().map(|e| e == "rs").unwrap_or(false) {
            let stem = p.file_stem().and_then(|s| s.to_str()).unwrap_or("");
            if stem == "test" || stem == "tests" {
                continue;
            }
            out.push(p);
        }
    }
}

/// `file::fn` -> true when the function contains `syscall!` itself (false: delegate only).
pub fn scan(src: &Path) -> BTreeMap<String, bool> {
    let mut files = Vec::new();
    walk(src, &mut files);
    let mut found = BTreeMap::new();
    for f in files {
        let Ok(txt) = std::fs::read_to_string(&f) else { continue };
        if !txt.contains("syscall!") {
            continue;
        }
        let mut text = blank(&txt);
        strip_inline_test_modules(&mut text);
        let fns = functions(&text);
        let mut issuing: BTreeSet<String> = BTreeSet::new();
        let mut direct: BTreeSet<String> = BTreeSet::new();
        for it in &fns {
            if contains_token(&text[it.body.0..it.body.1], b"syscall!") {
                issuing.insert(it.name.clone());
                direct.insert(it.name.clone());
            }
        }
        loop {
            let mut grew = false;
            for it in &fns {
                if issuing.contains(&it.name) {
                    continue;
                }
                let body = &text[it.body.0..it.body.1];
                if issuing.iter().any(|callee| contains_call(body, callee)) {
                    issuing.insert(it.name.clone());
                    grew = true;
                }
            }
            if !grew {
                break;
            }
        }
        let rel = f.strip_prefix(src).unwrap_or(&f).to_string_lossy().to_string();
        for it in &fns {
            if it.public && issuing.contains(&it.name) {
                found.insert(format!("{rel}::{}", it.name), direct.contains(&it.name));
            }
        }
    }
    found
}

fn find_sub(h: &[u8], n: &[u8]) -> Option<usize> {
    h.windows(n.len()).position(|w| w == n)
}

/// Blank every inline `#[cfg(test)] mod name { ... }` (an out-of-line `#[cfg(test)] mod test;`
/// is left alone: it has no body in this file).
fn strip_inline_test_modules(text: &mut [u8]) {
    let mut from = 0;
    while let Some(rel) = find_sub(&text[from..], b"#[cfg(test)]") {
        let at = from + rel;
        let mut j = at + b"#[cfg(test)]".len();
        from = j;
        // the item that follows: up to the first `;` or `{`
        while j < text.len() && text[j] != b';' && text[j] != b'{' {
            j += 1;
        }
        if j >= text.len() || text[j] == b';' {
            continue;
        }
        let header = String::from_utf8_lossy(&text[at..j]).to_string();
        if !header.split_whitespace().any(|w| w == "mod") {
            continue;
        }
        let mut d = 0i32;
        let mut e = j;
        while e < text.len() {
            if text[e] == b'{' {
                d += 1;
            } else if text[e] == b'}' {
                d -= 1;
                if d == 0 {
                    break;
                }
            }
            e += 1;
        }
        let last = e.min(text.len() - 1);
        for b in &mut text[at..=last] {
            if *b != b'\n' {
                *b = b' ';
            }
        }
        from = e.min(text.len());
    }
}
