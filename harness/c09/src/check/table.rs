//! The wrapper table of Appendix A: one driver per public rusl function that issues a system
//! call (plus the thin public delegates). A driver calls the wrapper once with arguments that
//! are valid *for the wrapper's own pre-/post-processing* (terminated paths, live slices, zeroed
//! structs); the arguments need not make sense to the kernel because the interposer serves the
//! planned return value without entering it.
//!
//! A driver returns the wrapper's result reduced to a scalar: `Ok(None)` for `()` and for
//! struct results, `Ok(Some(v))` for the directly returned number (count, descriptor, pid,
//! offset, address) widened to i128.
use core::num::NonZeroUsize;
use core::sync::atomic::{AtomicI32, AtomicU32, Ordering};

use rusl::platform::{
    AddressFamily, Clone3Args, CloneArgs, CloneFlags, ClockId, EpollEvent, EpollEventMask, EpollOp, Fd, FilesystemType, FutexFlags, IoSlice,
    IoSliceMut, IoUringEnterFlags, IoUringParamFlags, IoUringParams, MapAdditionalFlags, MapRequiredFlag, MemoryProtection, Mode, Mountflags,
    MsgHdrBorrow, NonNegativeI32, OpenFlags, PollEvents, PollFd, RenameFlags, SetAction, SocketAddressInet, SocketAddressUnix, SocketFlags,
    SocketOptions, SocketType, Termios, TimeSpec, WaitPidFlags,
};
use rusl::string::unix_str::UnixStr;

pub type Scalar = Option<i128>;
pub type Driven = Result<Scalar, rusl::Error>;

/// Which success values the kernel can hand back for this call (the forced-value domain).
#[derive(Debug, Clone, Copy, PartialEq, Eq)]
pub enum Dom {
    /// success is always 0
    Zero,
    /// a byte/element count
    Count,
    /// a descriptor, process id or other non-negative `int`
    FdPid,
    /// a user id (full u32 range)
    Uid,
    /// a file offset
    Offset,
    /// a mapping address
    Addr,
    /// never returns on success (execve): only the error direction is in the domain
    NoSuccess,
}

/// How the wrapper documents the conversion of the register into its `Ok` value.
#[derive(Debug, Clone, Copy, PartialEq, Eq)]
pub enum Conv {
    /// `Ok(())`, or a struct filled through an out-parameter: only the direction is asserted
    Unit,
    Usize,
    I32,
    U32,
    I64,
    U64,
}

pub struct Wrapper {
    /// table key, used in cases and signatures
    pub name: &'static str,
    /// `<file under rusl/src>::<fn>` as reported by the source scan
    pub src: &'static str,
    pub dom: Dom,
    pub conv: Conv,
    /// The wrapper reads memory that only the kernel fills in (an internal `MaybeUninit`, or
    /// pipe2's fd pair): for the success direction the call is *executed* with harmless, valid
    /// arguments and only its return register is replaced (`ExecThenRet`).
    pub exec_on_success: bool,
    /// dup2/dup3: the documented EBUSY retry is allowed
    pub ebusy_retry_documented: bool,
    pub drive: fn() -> Driven,
}

// ------------------------------------------------------------------------------------------
// fixtures
// ------------------------------------------------------------------------------------------

const P1: &UnixStr = UnixStr::from_str_checked("/nonexistent-c09/a\0");
const P2: &UnixStr = UnixStr::from_str_checked("/nonexistent-c09/b\0");
const ROOT: &UnixStr = UnixStr::from_str_checked("/\0");
const DOT: &UnixStr = UnixStr::from_str_checked(".\0");

static ROOT_FD: AtomicI32 = AtomicI32::new(-1);
static TTY_FD: AtomicI32 = AtomicI32::new(-1);

/// Real descriptors (opened through libc, invisible to the interposer) for the few drivers
/// whose success direction is executed for its side effect.
pub fn init_fixtures() {
    unsafe {
        let fd = libc::open(c"/".as_ptr(), libc::O_RDONLY | libc::O_DIRECTORY | libc::O_CLOEXEC);
        if fd >= 0 {
            let hi = libc::fcntl(fd, libc::F_DUPFD_CLOEXEC, 800);
            if hi >= 0 {
                libc::close(fd);
                ROOT_FD.store(hi, Ordering::Relaxed);
            } else {
                ROOT_FD.store(fd, Ordering::Relaxed);
            }
        }
        let t = libc::open(c"/dev/ptmx".as_ptr(), libc::O_RDWR | libc::O_NOCTTY | libc::O_CLOEXEC);
        if t >= 0 {
            let hi = libc::fcntl(t, libc::F_DUPFD_CLOEXEC, 801);
            if hi >= 0 {
                libc::close(t);
                TTY_FD.store(hi, Ordering::Relaxed);
            } else {
                TTY_FD.store(t, Ordering::Relaxed);
            }
        }
    }
}

fn fd(n: i32) -> Fd {
    NonNegativeI32::try_new(n).unwrap_or(NonNegativeI32::ZERO)
}

fn root_fd() -> Fd {
    fd(ROOT_FD.load(Ordering::Relaxed).max(0))
}

fn tty_fd() -> Fd {
    let t = TTY_FD.load(Ordering::Relaxed);
    if t >= 0 {
        fd(t)
    } else {
        root_fd()
    }
}

fn unit<T>(r: rusl::Result<T>) -> Driven {
    r.map(|_| None)
}

fn count(r: rusl::Result<usize>) -> Driven {
    r.map(|v| Some(v as i128))
}

fn desc(r: rusl::Result<Fd>) -> Driven {
    r.map(|v| Some(v.value() as i128))
}

fn int(r: rusl::Result<i32>) -> Driven {
    r.map(|v| Some(v as i128))
}

// ------------------------------------------------------------------------------------------
// drivers
// ------------------------------------------------------------------------------------------

fn d_futex_wait() -> Driven {
    let w = AtomicU32::new(0);
    unit(rusl::futex::futex_wait(&w, 0, FutexFlags::PRIVATE, Some(TimeSpec::new(0, 1))))
}
fn d_futex_wait_untimed() -> Driven {
    // (the call is never executed: every case of this table forces the return register)
    let w = AtomicU32::new(0);
    unit(rusl::futex::futex_wait(&w, 0, FutexFlags::PRIVATE, None))
}
fn d_futex_wake() -> Driven {
    let w = AtomicU32::new(0);
    count(rusl::futex::futex_wake(&w, 1))
}
fn d_io_uring_setup() -> Driven {
    let mut p = IoUringParams::new(IoUringParamFlags::empty(), 0, 0);
    desc(rusl::io_uring::io_uring_setup(8, &mut p))
}
fn d_io_uring_register_files() -> Driven {
    let fds = [fd(0), fd(1)];
    unit(rusl::io_uring::io_uring_register_files(fd(5), &fds))
}
fn d_io_uring_register_io_slices() -> Driven {
    let mut buf = [0u8; 16];
    let sl = [IoSliceMut::new(&mut buf)];
    unit(rusl::io_uring::io_uring_register_io_slices(fd(5), &sl))
}
fn d_io_uring_register_buffers() -> Driven {
    let mut buf = [0u8; 16];
    let sl = [IoSliceMut::new(&mut buf)];
    unit(unsafe { rusl::io_uring::io_uring_register_buffers(fd(5), &sl) })
}
fn d_io_uring_enter() -> Driven {
    count(rusl::io_uring::io_uring_enter(fd(5), 1, 0, IoUringEnterFlags::empty()))
}
fn d_ioctl() -> Driven {
    count(unsafe { rusl::ioctl::ioctl(fd(5), 0x5401, 0) })
}
fn d_accept_unix() -> Driven {
    rusl::network::accept_unix(fd(5), SocketFlags::SOCK_CLOEXEC).map(|(f, _addr)| Some(f.value() as i128))
}
fn d_accept_inet() -> Driven {
    rusl::network::accept_inet(fd(5), SocketFlags::SOCK_CLOEXEC).map(|(f, _addr)| Some(f.value() as i128))
}
fn unix_addr() -> rusl::platform::SocketArgUnix {
    SocketAddressUnix::try_from_unix(P1).expect("fixture socket address")
}
fn d_bind_unix() -> Driven {
    let a = unix_addr();
    unit(rusl::network::bind_unix(fd(5), &a))
}
fn d_bind_inet() -> Driven {
    let a = SocketAddressInet::new([127, 0, 0, 1], 9);
    unit(rusl::network::bind_inet(fd(5), &a))
}
fn d_connect_unix() -> Driven {
    let a = unix_addr();
    unit(rusl::network::connect_unix(fd(5), &a))
}
fn d_connect_inet() -> Driven {
    let a = SocketAddressInet::new([127, 0, 0, 1], 9);
    unit(rusl::network::connect_inet(fd(5), &a))
}
fn d_listen() -> Driven {
    unit(rusl::network::listen(fd(5), fd(8)))
}
fn d_socket() -> Driven {
    desc(rusl::network::socket(AddressFamily::AF_UNIX, SocketOptions::new(SocketType::SOCK_STREAM, SocketFlags::SOCK_CLOEXEC), 0))
}
fn d_get_unix_sock_name() -> Driven {
    unit(rusl::network::get_unix_sock_name(fd(5)))
}
fn d_get_inet_sock_name() -> Driven {
    unit(rusl::network::get_inet_sock_name(fd(5)))
}
fn d_sendmsg() -> Driven {
    let payload = [1u8, 2, 3];
    let io = [IoSlice::new(&payload)];
    let guard = MsgHdrBorrow::create_send(None, &io, None);
    count(rusl::network::sendmsg(fd(5), &guard, 0))
}
fn d_recvmsg() -> Driven {
    let mut payload = [0u8; 16];
    let mut io = [IoSliceMut::new(&mut payload)];
    let mut hdr = MsgHdrBorrow::create_recv(&mut io, None);
    count(rusl::network::recvmsg(fd(5), &mut hdr, 0))
}
fn d_fork() -> Driven {
    int(unsafe { rusl::process::fork() })
}
fn d_clone() -> Driven {
    let a = CloneArgs::new(CloneFlags::empty());
    int(unsafe { rusl::process::clone(&a) })
}
fn d_clone3() -> Driven {
    let mut a = Clone3Args::new(CloneFlags::empty());
    unsafe { rusl::process::clone3(&mut a) }.map(|v| Some(v as i128))
}
fn d_execve() -> Driven {
    let argv: [*const u8; 1] = [core::ptr::null()];
    let envp: [*const u8; 1] = [core::ptr::null()];
    unit(unsafe { rusl::process::execve(P1, argv.as_ptr(), envp.as_ptr()) })
}
fn d_wait_pid() -> Driven {
    rusl::process::wait_pid(-1, WaitPidFlags::WNOHANG).map(|r| Some(r.pid as i128))
}
fn d_add_signal_action() -> Driven {
    unit(unsafe { rusl::process::add_signal_action(rusl::process::CatchSignal::Hup, rusl::process::SaSignalaction::Dfl) })
}
fn d_epoll_create() -> Driven {
    desc(rusl::select::epoll_create(true))
}
fn d_epoll_ctl() -> Driven {
    let ev = EpollEvent::new(7, EpollEventMask::EPOLLIN);
    unit(rusl::select::epoll_ctl(fd(5), EpollOp::Add, fd(6), &ev))
}
fn d_epoll_del() -> Driven {
    unit(rusl::select::epoll_del(fd(5), fd(6)))
}
fn d_epoll_wait() -> Driven {
    let mut evs = [EpollEvent::new(0, EpollEventMask::empty()); 4];
    count(rusl::select::epoll_wait(fd(5), &mut evs, 0))
}
fn d_ppoll() -> Driven {
    let mut fds = [PollFd::new(fd(5), PollEvents::POLLIN)];
    let ts = TimeSpec::new(0, 0);
    count(rusl::select::ppoll(&mut fds, Some(&ts), None))
}
fn d_ppoll_untimed() -> Driven {
    let mut fds = [PollFd::new(fd(5), PollEvents::POLLIN)];
    count(rusl::select::ppoll(&mut fds, None, None))
}
fn d_tcgetattr() -> Driven {
    unit(rusl::termios::tcgetattr(tty_fd()))
}
fn d_tcsetattr() -> Driven {
    let t: Termios = unsafe { core::mem::zeroed() };
    unit(rusl::termios::tcsetattr(fd(5), SetAction::NOW, &t))
}
fn d_clock_get_time() -> Driven {
    unit(rusl::time::clock_get_time(ClockId::CLOCK_MONOTONIC))
}
fn d_nanosleep() -> Driven {
    let ts = TimeSpec::new(0, 1);
    let mut rem = TimeSpec::new_zeroed();
    unit(rusl::time::nanosleep(&ts, Some(core::ptr::from_mut(&mut rem))))
}
fn d_nanosleep_no_rem() -> Driven {
    let ts = TimeSpec::new(0, 1);
    unit(rusl::time::nanosleep(&ts, None))
}
fn d_nanosleep_same_ptr() -> Driven {
    let mut ts = TimeSpec::new(0, 1);
    unit(rusl::time::nanosleep_same_ptr(&mut ts))
}
fn d_chdir() -> Driven {
    unit(rusl::unistd::chdir(P1))
}
fn d_close() -> Driven {
    unit(rusl::unistd::close(fd(700)))
}
fn d_copy_file_range() -> Driven {
    count(rusl::unistd::copy_file_range(fd(5), 0, fd(6), 0, 4096))
}
fn d_dup2() -> Driven {
    unit(rusl::unistd::dup2(fd(5), fd(6)))
}
fn d_dup3() -> Driven {
    unit(rusl::unistd::dup3(fd(5), fd(6), true))
}
fn d_fcntl_get_file_status() -> Driven {
    rusl::unistd::fcntl_get_file_status(fd(5)).map(|f| Some(f.bits().value() as i128))
}
fn d_fcntl_set_file_status() -> Driven {
    unit(rusl::unistd::fcntl_set_file_status(fd(5), OpenFlags::O_NONBLOCK))
}
fn d_get_dents() -> Driven {
    let mut buf = [0u8; 256];
    count(rusl::unistd::get_dents(fd(5), &mut buf))
}
fn d_get_uid() -> Driven {
    rusl::unistd::get_uid().map(|v| Some(v as i128))
}
fn d_mkdir() -> Driven {
    unit(rusl::unistd::mkdir(P1, Mode::S_IRWXU))
}
fn d_mkdir_at() -> Driven {
    unit(rusl::unistd::mkdir_at(fd(5), P1, Mode::S_IRWXU))
}
fn d_mmap() -> Driven {
    count(unsafe {
        rusl::unistd::mmap(
            None,
            NonZeroUsize::new(4096).unwrap(),
            MemoryProtection::PROT_READ,
            MapRequiredFlag::MapPrivate,
            MapAdditionalFlags::MAP_ANONYMOUS,
            None,
            0,
        )
    })
}
fn d_munmap() -> Driven {
    unit(unsafe { rusl::unistd::munmap(0x1000, NonZeroUsize::new(4096).unwrap()) })
}
fn d_mount() -> Driven {
    unit(rusl::unistd::mount(P1, P2, FilesystemType::TMPFS, Mountflags::MS_RDONLY, None))
}
fn d_mount_data() -> Driven {
    unit(rusl::unistd::mount(P1, P2, FilesystemType::TMPFS, Mountflags::MS_RDONLY, Some(DOT)))
}
fn d_unmount() -> Driven {
    unit(rusl::unistd::unmount(P1))
}
fn d_open_raw() -> Driven {
    desc(unsafe { rusl::unistd::open_raw(P1.as_ptr() as usize, OpenFlags::O_RDONLY) })
}
fn d_open() -> Driven {
    desc(rusl::unistd::open(P1, OpenFlags::O_RDONLY))
}
fn d_open_mode() -> Driven {
    desc(rusl::unistd::open_mode(P1, OpenFlags::O_RDONLY, Mode::S_IRWXU))
}
fn d_open_at() -> Driven {
    desc(rusl::unistd::open_at(fd(5), P1, OpenFlags::O_RDONLY))
}
fn d_open_at_mode() -> Driven {
    desc(rusl::unistd::open_at_mode(fd(5), P1, OpenFlags::O_RDONLY, Mode::S_IRWXU))
}
/// pipe/pipe2 hand the descriptor pair back through an array the wrapper owns (initialised to
/// -1) and convert it on success: the success direction is executed, the driver closes the pair.
macro_rules! close_pipe {
    ($r:expr) => {
        $r.map(|p| {
            unsafe {
                libc::close(p.in_pipe.value());
                libc::close(p.out_pipe.value());
            }
            None
        })
    };
}
fn d_pipe() -> Driven {
    close_pipe!(rusl::unistd::pipe())
}
fn d_pipe2() -> Driven {
    close_pipe!(rusl::unistd::pipe2(OpenFlags::O_CLOEXEC))
}
fn d_read() -> Driven {
    let mut buf = [0u8; 64];
    count(rusl::unistd::read(fd(5), &mut buf))
}
fn d_readv() -> Driven {
    let mut buf = [0u8; 64];
    let mut io = [IoSliceMut::new(&mut buf)];
    count(rusl::unistd::readv(fd(5), &mut io))
}
fn d_write() -> Driven {
    let buf = [0u8; 64];
    count(rusl::unistd::write(fd(700), &buf))
}
fn d_writev() -> Driven {
    let buf = [0u8; 64];
    let io = [IoSlice::new(&buf)];
    count(rusl::unistd::writev(fd(700), &io))
}
fn d_rename() -> Driven {
    unit(rusl::unistd::rename(P1, P2))
}
fn d_rename_flags() -> Driven {
    unit(rusl::unistd::rename_flags(P1, P2, RenameFlags::empty()))
}
fn d_rename_at() -> Driven {
    unit(rusl::unistd::rename_at(fd(5), P1, fd(6), P2))
}
fn d_rename_at2() -> Driven {
    unit(rusl::unistd::rename_at2(fd(5), P1, fd(6), P2, RenameFlags::empty()))
}
fn d_lseek() -> Driven {
    rusl::unistd::lseek(fd(5), 0, rusl::unistd::Whence::SET).map(|v| Some(v as i128))
}
fn d_setgid() -> Driven {
    unit(rusl::unistd::setgid(1000))
}
fn d_setpgid() -> Driven {
    unit(rusl::unistd::setpgid(0, 0))
}
fn d_setsid() -> Driven {
    unit(rusl::unistd::setsid())
}
fn d_setuid() -> Driven {
    unit(rusl::unistd::setuid(1000))
}
fn d_stat() -> Driven {
    unit(rusl::unistd::stat(ROOT))
}
fn d_statat() -> Driven {
    unit(rusl::unistd::statat(root_fd(), DOT))
}
fn d_stat_fd() -> Driven {
    unit(rusl::unistd::stat_fd(root_fd()))
}
fn d_swapon() -> Driven {
    unit(rusl::unistd::swapon(P1, 0))
}
fn d_uname() -> Driven {
    unit(rusl::unistd::uname())
}
fn d_unlink() -> Driven {
    unit(rusl::unistd::unlink(P1))
}
fn d_unlink_flags() -> Driven {
    unit(rusl::unistd::unlink_flags(P1, rusl::unistd::UnlinkFlags::at_removedir()))
}
fn d_unlink_at() -> Driven {
    unit(rusl::unistd::unlink_at(fd(5), P1, rusl::unistd::UnlinkFlags::empty()))
}
fn d_rmdir() -> Driven {
    unit(rusl::unistd::rmdir(fd(700)))
}
fn d_unshare() -> Driven {
    unit(rusl::unistd::unshare(CloneFlags::CLONE_NEWNS))
}

macro_rules! w {
    ($name:literal, $src:literal, $dom:ident, $conv:ident, $drive:ident) => {
        Wrapper { name: $name, src: $src, dom: Dom::$dom, conv: Conv::$conv, exec_on_success: false, ebusy_retry_documented: false, drive: $drive }
    };
    ($name:literal, $src:literal, $dom:ident, $conv:ident, $drive:ident, exec) => {
        Wrapper { name: $name, src: $src, dom: Dom::$dom, conv: Conv::$conv, exec_on_success: true, ebusy_retry_documented: false, drive: $drive }
    };
    ($name:literal, $src:literal, $dom:ident, $conv:ident, $drive:ident, ebusy) => {
        Wrapper { name: $name, src: $src, dom: Dom::$dom, conv: Conv::$conv, exec_on_success: false, ebusy_retry_documented: true, drive: $drive }
    };
}

/// Every wrapper issues exactly one system call per invocation by design (read from the
/// sources: no wrapper opens-then-stats or the like); the only loop is dup3's EBUSY retry.
///
/// Value domains that differ from the Rust return type, with the reason:
/// * dup2/dup3 return `()` but the kernel returns the *new descriptor* - domain FdPid;
/// * setsid returns `()` but the kernel returns the new session id - domain FdPid;
/// * fcntl_get_file_status decodes the flag word through the descriptor decoder - FdPid/I32;
/// * mount appears twice: its two `syscall!` sites (with / without data) are separate code.
pub static TABLE: &[Wrapper] = &[
    w!("futex_wait", "futex.rs::futex_wait", Zero, Unit, d_futex_wait),
    w!("futex_wait(no timeout)", "futex.rs::futex_wait", Zero, Unit, d_futex_wait_untimed),
    w!("futex_wake", "futex.rs::futex_wake", Count, Usize, d_futex_wake),
    w!("io_uring_setup", "io_uring.rs::io_uring_setup", FdPid, I32, d_io_uring_setup),
    w!("io_uring_register_files", "io_uring.rs::io_uring_register_files", Zero, Unit, d_io_uring_register_files),
    w!("io_uring_register_io_slices", "io_uring.rs::io_uring_register_io_slices", Zero, Unit, d_io_uring_register_io_slices),
    w!("io_uring_register_buffers", "io_uring.rs::io_uring_register_buffers", Zero, Unit, d_io_uring_register_buffers),
    w!("io_uring_enter", "io_uring.rs::io_uring_enter", Count, Usize, d_io_uring_enter),
    w!("ioctl", "ioctl.rs::ioctl", Count, Usize, d_ioctl),
    w!("accept_unix", "network/accept.rs::accept_unix", FdPid, I32, d_accept_unix),
    w!("accept_inet", "network/accept.rs::accept_inet", FdPid, I32, d_accept_inet),
    w!("bind_unix", "network/bind.rs::bind_unix", Zero, Unit, d_bind_unix),
    w!("bind_inet", "network/bind.rs::bind_inet", Zero, Unit, d_bind_inet),
    w!("connect_unix", "network/connect.rs::connect_unix", Zero, Unit, d_connect_unix),
    w!("connect_inet", "network/connect.rs::connect_inet", Zero, Unit, d_connect_inet),
    w!("listen", "network/listen.rs::listen", Zero, Unit, d_listen),
    w!("socket", "network/socket.rs::socket", FdPid, I32, d_socket),
    w!("get_unix_sock_name", "network/socket.rs::get_unix_sock_name", Zero, Unit, d_get_unix_sock_name),
    w!("get_inet_sock_name", "network/socket.rs::get_inet_sock_name", Zero, Unit, d_get_inet_sock_name),
    w!("sendmsg", "network/socket.rs::sendmsg", Count, Usize, d_sendmsg),
    w!("recvmsg", "network/socket.rs::recvmsg", Count, Usize, d_recvmsg),
    w!("fork", "process/clone.rs::fork", FdPid, I32, d_fork),
    w!("clone", "process/clone.rs::clone", FdPid, I32, d_clone),
    w!("clone3", "process/clone.rs::clone3", FdPid, U64, d_clone3),
    w!("execve", "process/execve.rs::execve", NoSuccess, Unit, d_execve),
    w!("wait_pid", "process/wait.rs::wait_pid", FdPid, I32, d_wait_pid),
    w!("add_signal_action", "process/signal.rs::add_signal_action", Zero, Unit, d_add_signal_action),
    w!("epoll_create", "select/epoll.rs::epoll_create", FdPid, I32, d_epoll_create),
    w!("epoll_ctl", "select/epoll.rs::epoll_ctl", Zero, Unit, d_epoll_ctl),
    w!("epoll_del", "select/epoll.rs::epoll_del", Zero, Unit, d_epoll_del),
    w!("epoll_wait", "select/epoll.rs::epoll_wait", Count, Usize, d_epoll_wait),
    w!("ppoll", "select/poll.rs::ppoll", Count, Usize, d_ppoll),
    w!("ppoll(no timeout)", "select/poll.rs::ppoll", Count, Usize, d_ppoll_untimed),
    // tcgetattr/stat*/uname assume_init() an internal MaybeUninit::uninit(): executed on success
    w!("tcgetattr", "termios/tcgetattr.rs::tcgetattr", Zero, Unit, d_tcgetattr, exec),
    w!("tcsetattr", "termios/tcsetattr.rs::tcsetattr", Zero, Unit, d_tcsetattr),
    w!("clock_get_time", "time/clock_get_time.rs::clock_get_time", Zero, Unit, d_clock_get_time),
    w!("nanosleep", "time/sleep.rs::nanosleep", Zero, Unit, d_nanosleep),
    w!("nanosleep(no rem)", "time/sleep.rs::nanosleep", Zero, Unit, d_nanosleep_no_rem),
    w!("nanosleep_same_ptr", "time/sleep.rs::nanosleep_same_ptr", Zero, Unit, d_nanosleep_same_ptr),
    w!("chdir", "unistd/chdir.rs::chdir", Zero, Unit, d_chdir),
    w!("close", "unistd/close.rs::close", Zero, Unit, d_close),
    w!("copy_file_range", "unistd/copy_file_range.rs::copy_file_range", Count, Usize, d_copy_file_range),
    w!("dup2", "unistd/dup.rs::dup2", FdPid, Unit, d_dup2, ebusy),
    w!("dup3", "unistd/dup.rs::dup3", FdPid, Unit, d_dup3, ebusy),
    w!("fcntl_get_file_status", "unistd/fcntl.rs::fcntl_get_file_status", FdPid, I32, d_fcntl_get_file_status),
    w!("fcntl_set_file_status", "unistd/fcntl.rs::fcntl_set_file_status", Zero, Unit, d_fcntl_set_file_status),
    w!("get_dents", "unistd/get_dents.rs::get_dents", Count, Usize, d_get_dents),
    w!("get_uid", "unistd/getuid.rs::get_uid", Uid, U32, d_get_uid),
    w!("mkdir", "unistd/mkdir.rs::mkdir", Zero, Unit, d_mkdir),
    w!("mkdir_at", "unistd/mkdir.rs::mkdir_at", Zero, Unit, d_mkdir_at),
    w!("mmap", "unistd/mmap.rs::mmap", Addr, Usize, d_mmap),
    w!("munmap", "unistd/mmap.rs::munmap", Zero, Unit, d_munmap),
    w!("mount", "unistd/mount.rs::mount", Zero, Unit, d_mount),
    w!("mount+data", "unistd/mount.rs::mount", Zero, Unit, d_mount_data),
    w!("unmount", "unistd/mount.rs::unmount", Zero, Unit, d_unmount),
    w!("open_raw", "unistd/open.rs::open_raw", FdPid, I32, d_open_raw),
    w!("open", "unistd/open.rs::open", FdPid, I32, d_open),
    w!("open_mode", "unistd/open.rs::open_mode", FdPid, I32, d_open_mode),
    w!("open_at", "unistd/open.rs::open_at", FdPid, I32, d_open_at),
    w!("open_at_mode", "unistd/open.rs::open_at_mode", FdPid, I32, d_open_at_mode),
    w!("pipe", "unistd/pipe.rs::pipe", Zero, Unit, d_pipe, exec),
    w!("pipe2", "unistd/pipe.rs::pipe2", Zero, Unit, d_pipe2, exec),
    w!("read", "unistd/read.rs::read", Count, Usize, d_read),
    w!("readv", "unistd/read.rs::readv", Count, Usize, d_readv),
    w!("write", "unistd/write.rs::write", Count, Usize, d_write),
    w!("writev", "unistd/write.rs::writev", Count, Usize, d_writev),
    w!("rename", "unistd/rename.rs::rename", Zero, Unit, d_rename),
    w!("rename_flags", "unistd/rename.rs::rename_flags", Zero, Unit, d_rename_flags),
    w!("rename_at", "unistd/rename.rs::rename_at", Zero, Unit, d_rename_at),
    w!("rename_at2", "unistd/rename.rs::rename_at2", Zero, Unit, d_rename_at2),
    w!("lseek", "unistd/seek.rs::lseek", Offset, I64, d_lseek),
    w!("setgid", "unistd/setgid.rs::setgid", Zero, Unit, d_setgid),
    w!("setpgid", "unistd/setpgid.rs::setpgid", Zero, Unit, d_setpgid),
    w!("setsid", "unistd/setsid.rs::setsid", FdPid, Unit, d_setsid),
    w!("setuid", "unistd/setuid.rs::setuid", Zero, Unit, d_setuid),
    w!("stat", "unistd/stat.rs::stat", Zero, Unit, d_stat, exec),
    w!("statat", "unistd/stat.rs::statat", Zero, Unit, d_statat, exec),
    w!("stat_fd", "unistd/stat.rs::stat_fd", Zero, Unit, d_stat_fd, exec),
    w!("swapon", "unistd/swapon.rs::swapon", Zero, Unit, d_swapon),
    w!("uname", "unistd/uname.rs::uname", Zero, Unit, d_uname, exec),
    w!("unlink", "unistd/unlink.rs::unlink", Zero, Unit, d_unlink),
    w!("unlink_flags", "unistd/unlink.rs::unlink_flags", Zero, Unit, d_unlink_flags),
    w!("unlink_at", "unistd/unlink.rs::unlink_at", Zero, Unit, d_unlink_at),
    w!("rmdir", "unistd/unlink.rs::rmdir", Zero, Unit, d_rmdir),
    w!("unshare", "unistd/unshare.rs::unshare", Zero, Unit, d_unshare),
];

/// Public functions that issue a system call but are outside the property's domain, with the
/// reason (they are listed in the evidence, not silently dropped).
pub static EXCLUDED: &[(&str, &str)] = &[
    ("process/exit.rs::exit", "returns `!`: cannot be driven with a forced return"),
    ("process/get_pid.rs::get_pid", "infallible by signature (no Result): nothing to decode; call count and value are judged by sub-check infallible"),
    ("time/clock_get_time.rs::clock_get_real_time", "infallible by signature (no Result); call count, clock id and reading are judged by sub-check infallible"),
    ("time/clock_get_time.rs::clock_get_monotonic_time", "infallible by signature (no Result); call count, clock id and reading are judged by sub-check infallible"),
    (
        "io_uring.rs::setup_io_uring",
        "not a raw wrapper: a composite of io_uring_setup + mmap x2..3 that dereferences the mapped rings; its constituent wrappers are in the table (C17/C18 cover it)",
    ),
];
