//! Wrappers whose success carries information through OUT-PARAMETERS (an address and its length,
//! a pair of descriptors, a wait status, a timespec, event records): the kernel's answer is
//! emulated by the interposer (`Action::Emulate`) - the return register AND what the kernel writes
//! through the pointer arguments are drawn - and the wrapper must report success exactly when the
//! register is outside [-4095, -1], whatever the out-parameters hold, and hand the register's
//! value (and the out-parameters it exposes) on unchanged.
use std::cell::RefCell;

use proptest::prelude::*;
use serde::{Deserialize, Serialize};

use rusl::platform::{ClockId, EpollEvent, EpollEventMask, NonNegativeI32, OpenFlags, PollEvents, PollFd, SocketFlags, TimeSpec, WaitPidFlags};
use sc::verif::{Action, Rule};
use vh::runner::{CaseReport, CaseResult, Ctx, Failure};

#[derive(Debug, Clone, Serialize, Deserialize)]
pub struct OutCase {
    pub wrapper: String,
    /// success value of the return register (meaning depends on the call: descriptor, pid, count, 0)
    pub ret: u32,
    /// what the kernel writes: a length / count selector and a seed for the bytes
    pub len_sel: u16,
    pub seed: u64,
}

#[derive(Default, Clone)]
struct Emu {
    ret: u32,
    len_sel: u16,
    seed: u64,
    /// what was written, for the wrappers that expose it
    wrote: Vec<u64>,
}

thread_local! {
    static EMU: RefCell<Emu> = RefCell::new(Emu::default());
}

fn mix(x: u64) -> u64 {
    vh::runner::splitmix(x)
}

unsafe fn fill(p: usize, n: usize, seed: u64) {
    let mut s = seed;
    for i in 0..n {
        if i % 8 == 0 {
            s = mix(s);
        }
        (p as *mut u8).add(i).write((s >> ((i % 8) * 8)) as u8);
    }
}

fn fd(n: i32) -> NonNegativeI32 {
    NonNegativeI32::try_new(n).unwrap_or(NonNegativeI32::ZERO)
}

// ---- emulated kernel answers ---------------------------------------------------------------

/// accept4 / getsockname: (fd, addr, addrlen*, ..). The kernel copies at most the length the caller
/// announced and stores the FULL length of the address (which may be larger: truncation; for a
/// unix socket bound to a 108-byte path Linux reports 111).
fn emu_addr(args: &[usize; 6], is_accept: bool, inet: bool) -> usize {
    EMU.with(|e| {
        let mut e = e.borrow_mut();
        unsafe {
            let lenp = args[2] as *mut u32;
            if !lenp.is_null() {
                let announced = lenp.read_unaligned() as usize;
                // what Linux reports: always 16 for an AF_INET socket; for AF_UNIX 2 (unnamed) up to
                // 111 (a path that fills sun_path: 2 + 108 + 1)
                let reported = if inet { 16 } else { 2 + (e.len_sel % 110) as usize };
                if args[1] != 0 {
                    fill(args[1], announced.min(reported).min(128), e.seed);
                }
                lenp.write_unaligned(reported as u32);
                e.wrote = vec![reported as u64];
            }
        }
        if is_accept {
            e.ret as usize
        } else {
            0
        }
    })
}
fn emu_accept_unix(a: &[usize; 6]) -> usize {
    emu_addr(a, true, false)
}
fn emu_accept_inet(a: &[usize; 6]) -> usize {
    emu_addr(a, true, true)
}
fn emu_getsockname_unix(a: &[usize; 6]) -> usize {
    emu_addr(a, false, false)
}
fn emu_getsockname_inet(a: &[usize; 6]) -> usize {
    emu_addr(a, false, true)
}
fn emu_pipe2(a: &[usize; 6]) -> usize {
    EMU.with(|e| {
        let mut e = e.borrow_mut();
        let f0 = (mix(e.seed) as u32 >> 1) as i32;
        let f1 = (mix(e.seed ^ 1) as u32 >> 1) as i32;
        unsafe {
            let p = a[0] as *mut i32;
            p.write_unaligned(f0);
            p.add(1).write_unaligned(f1);
        }
        e.wrote = vec![f0 as u64, f1 as u64];
        0
    })
}
fn emu_wait4(a: &[usize; 6]) -> usize {
    EMU.with(|e| {
        let mut e = e.borrow_mut();
        let st = mix(e.seed) as u32 as i32;
        unsafe {
            if a[1] != 0 {
                (a[1] as *mut i32).write_unaligned(st);
            }
        }
        e.wrote = vec![st as u32 as u64];
        (e.ret >> 1) as usize // a pid: 0 ..= i32::MAX
    })
}
fn emu_clock(a: &[usize; 6]) -> usize {
    EMU.with(|e| {
        let e = e.borrow();
        unsafe {
            let p = a[1] as *mut i64;
            p.write_unaligned((mix(e.seed) >> 1) as i64);
            p.add(1).write_unaligned((mix(e.seed ^ 7) % 1_000_000_000) as i64);
        }
        0
    })
}
fn emu_epoll_wait(a: &[usize; 6]) -> usize {
    EMU.with(|e| {
        let e = e.borrow();
        let max = a[2];
        let n = (e.len_sel as usize) % (max + 1);
        unsafe { fill(a[1], n * 12, e.seed) };
        n
    })
}
fn emu_ppoll(a: &[usize; 6]) -> usize {
    EMU.with(|e| {
        let e = e.borrow();
        let nfds = a[1];
        let n = (e.len_sel as usize) % (nfds + 1);
        unsafe {
            for i in 0..nfds {
                // struct pollfd { int fd; short events; short revents }
                ((a[0] + i * 8 + 6) as *mut u16).write_unaligned(mix(e.seed ^ i as u64) as u16);
            }
        }
        n
    })
}
fn emu_fill_struct(a: &[usize; 6], argi: usize, n: usize) -> usize {
    EMU.with(|e| {
        let e = e.borrow();
        unsafe { fill(a[argi], n, e.seed) };
        0
    })
}
fn emu_uname(a: &[usize; 6]) -> usize {
    emu_fill_struct(a, 0, 6 * 65)
}
fn emu_tcgets(a: &[usize; 6]) -> usize {
    emu_fill_struct(a, 2, 36)
}
fn emu_getdents(a: &[usize; 6]) -> usize {
    EMU.with(|e| {
        let e = e.borrow();
        let n = (e.len_sel as usize) % (a[2] + 1);
        unsafe { fill(a[1], n, e.seed) };
        n
    })
}

// ---- drivers -----------------------------------------------------------------------------------

type Outcome = Result<Vec<u64>, rusl::Error>;

struct Spec {
    name: &'static str,
    nr: usize,
    emu: fn(&[usize; 6]) -> usize,
    /// runs the wrapper; Ok lists the numbers the wrapper handed back (register value first)
    drive: fn() -> Outcome,
    /// what Ok must list, from (register value, what the emulation wrote); None = not compared
    want: fn(ret: u64, wrote: &[u64]) -> Option<Vec<u64>>,
}

fn specs() -> Vec<Spec> {
    vec![
        Spec { name: "accept_unix", nr: sc::nr::ACCEPT4, emu: emu_accept_unix, drive: || rusl::network::accept_unix(fd(5), SocketFlags::SOCK_CLOEXEC).map(|(f, _)| vec![f.value() as u64]), want: |r, _| Some(vec![r]) },
        Spec { name: "accept_inet", nr: sc::nr::ACCEPT4, emu: emu_accept_inet, drive: || rusl::network::accept_inet(fd(5), SocketFlags::SOCK_CLOEXEC).map(|(f, _)| vec![f.value() as u64]), want: |r, _| Some(vec![r]) },
        Spec { name: "get_unix_sock_name", nr: sc::nr::GETSOCKNAME, emu: emu_getsockname_unix, drive: || rusl::network::get_unix_sock_name(fd(5)).map(|_| vec![]), want: |_, _| None },
        Spec { name: "get_inet_sock_name", nr: sc::nr::GETSOCKNAME, emu: emu_getsockname_inet, drive: || rusl::network::get_inet_sock_name(fd(5)).map(|_| vec![]), want: |_, _| None },
        Spec { name: "pipe2", nr: sc::nr::PIPE2, emu: emu_pipe2, drive: || rusl::unistd::pipe2(OpenFlags::O_CLOEXEC).map(|p| vec![p.in_pipe.value() as u64, p.out_pipe.value() as u64]), want: |_, w| Some(w.to_vec()) },
        Spec { name: "wait_pid", nr: sc::nr::WAIT4, emu: emu_wait4, drive: || rusl::process::wait_pid(-1, WaitPidFlags::WNOHANG).map(|r| vec![r.pid as u32 as u64, r.status as u32 as u64]), want: |r, w| Some(vec![r >> 1, w[0]]) },
        Spec { name: "clock_get_time", nr: sc::nr::CLOCK_GETTIME, emu: emu_clock, drive: || rusl::time::clock_get_time(ClockId::CLOCK_MONOTONIC).map(|_| vec![]), want: |_, _| None },
        Spec {
            name: "epoll_wait",
            nr: sc::nr::EPOLL_PWAIT,
            emu: emu_epoll_wait,
            drive: || {
                let mut evs = [EpollEvent::new(0, EpollEventMask::empty()); 7];
                rusl::select::epoll_wait(fd(5), &mut evs, 0).map(|n| vec![n as u64])
            },
            want: |_, _| None,
        },
        Spec {
            name: "ppoll",
            nr: sc::nr::PPOLL,
            emu: emu_ppoll,
            drive: || {
                let mut fds = [PollFd::new(fd(5), PollEvents::POLLIN), PollFd::new(fd(6), PollEvents::POLLOUT), PollFd::new(fd(7), PollEvents::POLLIN)];
                let ts = TimeSpec::new(0, 0);
                rusl::select::ppoll(&mut fds, Some(&ts), None).map(|n| vec![n as u64])
            },
            want: |_, _| None,
        },
        Spec { name: "uname", nr: sc::nr::UNAME, emu: emu_uname, drive: || rusl::unistd::uname().map(|_| vec![]), want: |_, _| None },
        Spec { name: "tcgetattr", nr: sc::nr::IOCTL, emu: emu_tcgets, drive: || rusl::termios::tcgetattr(fd(5)).map(|_| vec![]), want: |_, _| None },
        Spec {
            name: "get_dents",
            nr: sc::nr::GETDENTS64,
            emu: emu_getdents,
            drive: || {
                let mut buf = [0u8; 256];
                rusl::unistd::get_dents(fd(5), &mut buf).map(|n| vec![n as u64])
            },
            want: |_, _| None,
        },
    ]
}

pub fn check(c: &OutCase) -> CaseResult {
    let mut rep = CaseReport::new();
    let all = specs();
    let Some(sp) = all.iter().find(|s| s.name == c.wrapper) else {
        rep.class("out-of-domain");
        return Ok(rep);
    };
    EMU.with(|e| *e.borrow_mut() = Emu { ret: c.ret, len_sel: c.len_sel, seed: c.seed, wrote: Vec::new() });
    sc::verif::install();
    // nothing reaches the kernel: the call itself is emulated, anything else the wrapper may issue
    // (it should not issue anything) is answered 0
    sc::verif::plan(vec![
        Rule { nr: Some(sp.nr), nth: Some(0), action: Action::Emulate(sp.emu), times: 1 },
        Rule { nr: None, nth: None, action: Action::ForceRet(0), times: sc::verif::GUARDED_FOREVER },
    ]);
    sc::verif::log_begin();
    let out = vh::runner::catch(|| (sp.drive)());
    let log = sc::verif::log_end();
    sc::verif::clear_plan();
    let name = sp.name;
    let out = match out {
        Ok(o) => o,
        Err((loc, msg)) => return Err(Failure::new(format!("{name}|panic|{loc}"), format!("{name}: panicked at {loc} with an emulated successful kernel answer (register {}, length selector {}, seed {:#x}): {msg}", c.ret, c.len_sel, c.seed))),
    };
    let wrote = EMU.with(|e| e.borrow().wrote.clone());
    if log.len() != 1 {
        return Err(Failure::new(format!("{name}|call-count|out-parameters"), format!("{name}: {} system calls issued for one invocation (emulated success, kernel wrote {wrote:?})", log.len())));
    }
    match out {
        Err(e) => Err(Failure::new(
            format!("{name}|success-mistaken-for-error|out-parameter contents"),
            format!("{name}: the kernel's return register was {} (success) and it wrote {wrote:?} through the pointer arguments (length selector {}), but the wrapper returned Err({:?}, code {:?})", log[0].ret as isize, c.len_sel, e.msg, e.code.map(|c| c.raw())),
        )),
        Ok(got) => {
            if let Some(want) = (sp.want)(c.ret as u64, &wrote) {
                if got != want {
                    return Err(Failure::new(format!("{name}|wrong-value|out-parameters"), format!("{name}: kernel register {} and out-parameters {wrote:?}: the wrapper handed back {got:?}, expected {want:?}", log[0].ret as isize)));
                }
                rep.class("values-compared");
            }
            rep.nontrivial = true;
            rep.class(name);
            rep.class_if(!wrote.is_empty() && (name.starts_with("accept") || name.starts_with("get_")) && wrote[0] > 110, "address-length-above-the-struct-size");
            Ok(rep)
        }
    }
}

pub fn strategy() -> impl Strategy<Value = OutCase> {
    let names: Vec<String> = specs().iter().map(|s| s.name.to_string()).collect();
    let ret = prop_oneof![3 => 3u32..1024, 1 => prop::sample::select(vec![0u32, 1, 2, 255, 256, 32767, 32768, 65535, 65536, i32::MAX as u32]), 1 => 0u32..=i32::MAX as u32];
    let len_sel = prop_oneof![2 => any::<u16>(), 1 => prop::sample::select(vec![0u16, 2, 3, 16, 28, 109, 110, 111, 112, 127, 128])];
    (prop::sample::select(names), ret, len_sel, any::<u64>()).prop_map(|(wrapper, ret, len_sel, seed)| OutCase { wrapper, ret, len_sel, seed })
}

pub fn run(ctx: &Ctx) {
    ctx.run_prop("out-params", ctx.cases(6_000, 400_000), strategy(), check);
}
