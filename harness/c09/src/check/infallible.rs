//! "infallible": the wrappers whose signature has no `Result` (`get_pid`, `clock_get_real_time`,
//! `clock_get_monotonic_time`) - nothing to decode, but the rest of the property applies to them as to any
//! other wrapper: one system call per invocation, and what the caller gets is what the kernel gave to that
//! very invocation. A case is a sequence of invocations (a value remembered from an earlier invocation shows
//! only from the second one on).
//! * `get_pid`: every invocation is answered with a forced value of its own (pids are 1..=2^22); the wrapper
//!   must return exactly that value and must have issued exactly one getpid.
//! * the clocks: every invocation must issue exactly one clock_gettime with the clock id it stands for, and
//!   the reading must lie between two readings the harness takes itself (libc) right before and after.
use proptest::prelude::*;
use serde::{Deserialize, Serialize};
use vh::runner::{catch, CaseReport, CaseResult, Ctx, Failure};

use sc::verif::{Action, Rule};

#[derive(Debug, Clone, Serialize, Deserialize)]
pub struct InfCase {
    /// 0 get_pid, 1 clock_get_real_time, 2 clock_get_monotonic_time
    pub which: u8,
    /// one forced pid per invocation (get_pid); for the clocks only the number of invocations counts
    pub values: Vec<u32>,
}

fn libc_now(clock: libc::clockid_t) -> (i64, i64) {
    let mut ts = libc::timespec { tv_sec: 0, tv_nsec: 0 };
    unsafe { libc::clock_gettime(clock, &mut ts) };
    (ts.tv_sec, ts.tv_nsec)
}

pub fn check(c: &InfCase) -> CaseResult {
    let mut rep = CaseReport::new();
    sc::verif::install();
    for (k, &v) in c.values.iter().enumerate() {
        let nth = if k == 0 { "first".to_string() } else { format!("invocation #{}", k + 1) };
        match c.which {
            0 => {
                let forced = (v.clamp(1, 1 << 22)) as usize;
                sc::verif::plan(vec![Rule { nr: Some(sc::nr::GETPID), nth: None, action: Action::ForceRet(forced), times: sc::verif::GUARDED_FOREVER }]);
                sc::verif::log_begin();
                let r = catch(rusl::process::get_pid);
                let log = sc::verif::log_end();
                sc::verif::clear_plan();
                let got = r.map_err(|(loc, msg)| Failure::new(format!("get_pid|panic|{loc}"), msg))?;
                let calls = log.iter().filter(|c| c.nr == sc::nr::GETPID).count();
                if calls != 1 || log.len() != 1 {
                    return Err(Failure::new(format!("get_pid|call-count|{}", if calls == 0 { "no call issued" } else { "more than one call" }), format!("{nth} of a sequence of {}: get_pid issued {} system calls ({calls} getpid), one per invocation is the contract; it returned {got}, the kernel would have answered {forced}", c.values.len(), log.len())));
                }
                if got as i64 != forced as i64 {
                    return Err(Failure::new("get_pid|success-value-changed", format!("{nth}: the kernel answered {forced}, get_pid returned {got}")));
                }
            }
            w => {
                let (clock, name) = if w == 1 { (libc::CLOCK_REALTIME, "clock_get_real_time") } else { (libc::CLOCK_MONOTONIC, "clock_get_monotonic_time") };
                let before = libc_now(clock);
                sc::verif::log_begin();
                let r = catch(|| if w == 1 { rusl::time::clock_get_real_time() } else { rusl::time::clock_get_monotonic_time() });
                let log = sc::verif::log_end();
                let after = libc_now(clock);
                let ts = r.map_err(|(loc, msg)| Failure::new(format!("{name}|panic|{loc}"), msg))?;
                let calls: Vec<_> = log.iter().filter(|c| c.nr == sc::nr::CLOCK_GETTIME).collect();
                if calls.len() != 1 || log.len() != 1 {
                    return Err(Failure::new(format!("{name}|call-count|{}", if calls.is_empty() { "no call issued" } else { "more than one call" }), format!("{nth} of a sequence of {}: {name} issued {} system calls ({} clock_gettime)", c.values.len(), log.len(), calls.len())));
                }
                if calls[0].args[0] as i64 != clock as i64 {
                    return Err(Failure::new(format!("{name}|wrong-clock"), format!("{nth}: clock_gettime was called with clock id {}, {name} stands for {clock}", calls[0].args[0])));
                }
                let got = (ts.seconds(), ts.nanoseconds());
                if got < before || got > after {
                    return Err(Failure::new(format!("{name}|reading-outside-bracket"), format!("{nth}: {name} returned {got:?}, the harness read {before:?} right before and {after:?} right after")));
                }
            }
        }
    }
    rep.nontrivial = c.values.len() >= 2;
    rep.class(["get_pid", "clock_get_real_time", "clock_get_monotonic_time"][c.which.min(2) as usize]);
    rep.class_if(c.values.len() >= 2, "several-invocations-in-a-row");
    Ok(rep)
}

pub fn run(ctx: &Ctx) {
    if let Some(c) = ctx.replay_case::<InfCase>("infallible") {
        ctx.run_one("infallible", &c, || check(&c));
        return;
    }
    if ctx.is_replay() {
        return;
    }
    let strat = (0u8..3, prop::collection::vec(prop_oneof![3 => 1u32..=70_000, 1 => 1u32..=(1 << 22), 1 => Just(1u32 << 22)], 1..6)).prop_map(|(which, values)| InfCase { which, values });
    ctx.run_prop("infallible", ctx.cases(600, 40_000), strat, check);
}
