//! C09 - every raw system-call wrapper of rusl decodes the kernel's return register correctly:
//! `Err(code)` exactly when the value lies in [-4095, -1] and then `code == +errno`; otherwise
//! `Ok` carrying the value unchanged under the wrapper's documented conversion; the call is
//! issued exactly once per invocation (dup2/dup3 may repeat it under -EBUSY only); no panic.
//!
//! Engine: the `sc` interposer serves the planned value for every call issued through
//! `syscall!` on this thread *without executing it*, so fork/execve/mount/setuid are driven
//! safely. The whole (wrapper x value) table is enumerated; a case is `{wrapper, value}`.
use std::collections::BTreeSet;

use serde::{Deserialize, Serialize};
use serde_json::json;

use sc::verif::{Action, Call, Rule, GUARDED_FOREVER};
use vh::runner::{CaseReport, CaseResult, Ctx, Failure};

mod classify;
mod infallible;
mod outparams;
mod scan;
mod table;
use self::table::{init_fixtures, Conv, Dom, Driven, Wrapper, EXCLUDED, TABLE};

#[derive(Debug, Clone, Serialize, Deserialize)]
pub struct Case {
    pub wrapper: String,
    /// the forced return register as a signed 64-bit number (-errno for errors)
    pub value: i64,
}

const SUB: &str = "table";
const EBUSY: i64 = 16;

fn is_errno_band(v: i64) -> bool {
    (-4095..=-1).contains(&v)
}

fn vclass(v: i64) -> &'static str {
    match v {
        v if is_errno_band(v) => "errno",
        0 => "zero",
        1..=4095 => "confusable success",
        -4096 => "boundary -4096",
        v if v > 4095 => "large success",
        _ => "high unsigned success",
    }
}

// ------------------------------------------------------------------------------------------
// value domains
// ------------------------------------------------------------------------------------------

fn success_values(dom: Dom, thorough: bool) -> Vec<i64> {
    let small: Vec<i64> = (3..=133).collect();
    let mut v: Vec<i64> = match dom {
        Dom::Zero => vec![0],
        Dom::Count => vec![0, 1, 16, 4095, 4096, -4097, i64::MAX],
        Dom::FdPid => [vec![0, 1, 2], small, vec![i32::MAX as i64, 1 << 31]].concat(),
        Dom::Uid => [vec![0, 1, 2], small, vec![i32::MAX as i64, u32::MAX as i64 - 1]].concat(),
        Dom::Offset => vec![0, 1, 16, 4095, 1 << 31, 1 << 62],
        Dom::Addr => vec![0x1000, 0x7fff_ffff_f000],
        Dom::NoSuccess => return Vec::new(),
    };
    // the first value outside the error band: an error under an off-by-one threshold
    v.push(-4096);
    // plain 64-bit successes whose low 32 (16) bits look like a small negative number: an
    // error test done after narrowing the register would take them for -errno
    if matches!(dom, Dom::Count | Dom::Offset) {
        v.extend([0xFFFF_FFFFi64, 0xFFFF_F001, 0x1_FFFF_FFFE, 0x7_FFFF_FFF3, 0xFFFF, 0x1_FFFE, 0xFFFF_FFFF_0000_0000u64 as i64 >> 16]);
    }
    // every errno-sized success (1..=4095, the mirror image of the error band; 4 = EINTR and
    // 11 = EAGAIN are the values a retry loop compares with): a wrapper that compares the raw
    // register with a positive errno retries or fails on exactly one of them
    if !matches!(dom, Dom::Zero | Dom::Addr) {
        v.extend(0..=4096);
    }
    if thorough && !matches!(dom, Dom::Zero) {
        let top = match dom {
            Dom::FdPid => 31,
            Dom::Uid => 32,
            Dom::Addr => 47,
            _ => 63,
        };
        if !matches!(dom, Dom::Addr) {
            v.extend(0..=4096);
        }
        if matches!(dom, Dom::Count | Dom::Offset) {
            // dense bands: small counts, and the unsigned values just below the error band
            v.extend(0..=65536);
            v.extend(-8192..=-4096);
        }
        for k in 12..top {
            v.push(1i64 << k);
            if !matches!(dom, Dom::Addr) {
                v.push((1i64 << k) - 1);
                v.push((1i64 << k) + 1);
            }
        }
    }
    v.sort_by_key(|&x| (x < 0, x));
    v.dedup();
    v
}

/// errors first (errno ascending), then successes (small first), so that the first failing
/// value of a wrapper is also the smallest.
pub fn values(w: &Wrapper, thorough: bool) -> Vec<i64> {
    let mut v: Vec<i64> = (1..=4095).map(|e| -e).collect();
    v.extend(success_values(w.dom, thorough));
    if w.ebusy_retry_documented {
        v.push(EBUSY_LONG);
    }
    v
}

// ------------------------------------------------------------------------------------------
// execution under a plan
// ------------------------------------------------------------------------------------------

struct Observed {
    outcome: Result<Driven, (String, String)>,
    log: Vec<Call>,
}

fn forced(v: i64) -> usize {
    v as usize
}

/// After three -EBUSY answers the kernel lets the dup succeed with this descriptor.
const EBUSY_THEN: i64 = 5;
const EBUSY_ROUNDS: usize = 3;
/// Pseudo-value (outside every real result) for the wrappers with the documented EBUSY retry: the race lasts long
/// - 1500 EBUSY answers in a row - before the dup succeeds. Whatever the wrapper does in the end must decode the
/// last answer it got.
pub const EBUSY_LONG: i64 = -1_000_016;
const EBUSY_LONG_ROUNDS: usize = 1500;

fn ebusy_rounds(value: i64) -> Option<usize> {
    match value {
        v if v == -EBUSY => Some(EBUSY_ROUNDS),
        EBUSY_LONG => Some(EBUSY_LONG_ROUNDS),
        _ => None,
    }
}

fn plan_for(w: &Wrapper, value: i64) -> Vec<Rule> {
    let forever = Rule { nr: None, nth: None, action: Action::ForceRet(forced(value)), times: GUARDED_FOREVER };
    if let (true, Some(rounds)) = (w.ebusy_retry_documented, ebusy_rounds(value)) {
        // a correct retry loop terminates: EBUSY three (or 1500) times, then success
        return vec![
            Rule { nr: None, nth: None, action: Action::ForceRet(forced(-EBUSY)), times: rounds },
            Rule { nr: None, nth: None, action: Action::ForceRet(forced(EBUSY_THEN)), times: GUARDED_FOREVER },
        ];
    }
    if w.exec_on_success && !is_errno_band(value) {
        // let the kernel fill the out-parameter once, replace only the return register
        return vec![Rule { nr: None, nth: Some(0), action: Action::ExecThenRet(forced(value)), times: 1 }, forever];
    }
    vec![forever]
}

fn execute(w: &Wrapper, value: i64) -> Observed {
    sc::verif::install();
    sc::verif::plan(plan_for(w, value));
    sc::verif::log_begin();
    let outcome = vh::runner::catch(|| (w.drive)());
    // both on the normal and on the panic path: stop logging, drop the plan (otherwise the
    // harness's own activity on this thread would be served forced values)
    let log = sc::verif::log_end();
    sc::verif::clear_plan();
    Observed { outcome, log }
}

// ------------------------------------------------------------------------------------------
// oracle
// ------------------------------------------------------------------------------------------

fn expected_scalar(conv: Conv, value: i64) -> Option<i128> {
    // `None` = only the direction (Ok) is asserted: the value does not fit the Rust type the
    // wrapper documents, so "unchanged" has no single reading
    match conv {
        Conv::Unit => None,
        Conv::Usize | Conv::U64 => Some((value as u64) as i128),
        Conv::I32 => (0..=i32::MAX as i64).contains(&value).then_some(value as i128),
        Conv::U32 => (0..=u32::MAX as i64).contains(&value).then_some(value as i128),
        Conv::I64 => (value >= 0).then_some(value as i128),
    }
}

fn show(d: &Driven) -> String {
    match d {
        Ok(None) => "Ok(_)".to_string(),
        Ok(Some(v)) => format!("Ok({v})"),
        Err(e) => match e.code {
            Some(c) => format!("Err(code {}, {:?})", c.raw(), e.msg),
            None => format!("Err(no code, {:?})", e.msg),
        },
    }
}

pub fn check_case(w: &Wrapper, value: i64) -> CaseResult {
    let mut rep = CaseReport::new();
    let name = w.name;
    let file = w.src.split("::").next().unwrap_or("");
    let cls = vclass(value);
    let is_err = is_errno_band(value);
    if !is_err && w.dom == Dom::NoSuccess {
        // execve does not return on success: outside the domain (only reachable by replay)
        rep.class("out-of-domain");
        return Ok(rep);
    }
    let obs = execute(w, value);
    let ncalls = obs.log.len();

    let driven = match obs.outcome {
        Ok(d) => d,
        Err((loc, msg)) => {
            if msg.contains("re-issued") {
                let shape = if value == EBUSY { "success value equals EBUSY".to_string() } else { cls.to_string() };
                return Err(Failure::new(
                    format!("{name}|retry-forever|{shape}"),
                    format!(
                        "{name}: kernel result {value} ({cls}) made the wrapper issue the call again and again ({msg}); expected exactly one call and {} [rusl/src/{file}]",
                        if is_err { format!("Err(code {})", -value) } else { "Ok".to_string() }
                    ),
                ));
            }
            return Err(Failure::new(format!("{name}|panic|{loc}"), format!("{name}: panicked at {loc} under kernel result {value} ({cls}): {msg} [rusl/src/{file}]")));
        }
    };

    // ---- how often was the call issued
    let rounds = if w.ebusy_retry_documented { ebusy_rounds(value) } else { None };
    let ebusy_case = rounds.is_some();
    let effective = if let Some(rounds) = rounds {
        // Documented exception: either no retry (one call, Err(EBUSY)) or a retry that stops as
        // soon as the kernel stops answering EBUSY. The result must decode the LAST answer.
        rep.class("dup-ebusy");
        if ncalls == 0 || ncalls > rounds + 1 {
            return Err(Failure::new(
                format!("{name}|call-count|EBUSY retry did not stop at the first non-EBUSY answer"),
                format!("{name}: answers -EBUSY x{rounds} then {EBUSY_THEN}: {ncalls} calls issued, result {} [rusl/src/{file}]", show(&driven)),
            ));
        }
        rep.class_if(ncalls > 1, "dup-ebusy-retried");
        rep.class_if(ncalls == 1, "dup-ebusy-not-retried");
        rep.class_if(rounds > 1000, "dup-ebusy-race-lasting-1500-answers");
        if ncalls <= rounds {
            -EBUSY
        } else {
            EBUSY_THEN
        }
    } else {
        if ncalls != 1 {
            let shape = if ncalls == 0 { "no call issued" } else { "issued more than once" };
            return Err(Failure::new(
                format!("{name}|call-count|{shape}, {cls}"),
                format!("{name}: kernel result {value} ({cls}): {ncalls} system calls issued, expected exactly 1; result {} [rusl/src/{file}]", show(&driven)),
            ));
        }
        value
    };
    let eff_err = is_errno_band(effective);

    // ---- direction and payload
    if eff_err {
        let errno = -effective;
        match &driven {
            Ok(_) => {
                return Err(Failure::new(
                    format!("{name}|error-reported-as-success|errno"),
                    format!("{name}: kernel result {effective} (errno {errno}) decoded as {}, expected Err(code {errno}) [rusl/src/{file}]", show(&driven)),
                ))
            }
            Err(e) => {
                let got = e.code.map(|c| c.raw() as i64);
                if got != Some(errno) {
                    let shape = match got {
                        None => "no code",
                        Some(c) if c == -errno => "negative code",
                        Some(_) => "different code",
                    };
                    return Err(Failure::new(
                        format!("{name}|wrong-errno|{shape}"),
                        format!("{name}: kernel result {effective} decoded as {}, expected Err(code +{errno}) [rusl/src/{file}]", show(&driven)),
                    ));
                }
            }
        }
    } else {
        match &driven {
            Err(e) => {
                let real_failed = w.exec_on_success && obs.log.first().map(|c| c.executed && c.ret > (-4096isize) as usize).unwrap_or(true);
                if real_failed && e.code.is_none() {
                    // the executed call itself was refused by the real kernel (e.g. EMFILE for
                    // pipe2), so the out-parameter the wrapper inspects was never written: the
                    // harness could not set the scene - not a verdict on the wrapper
                    rep.class("side-effect-unavailable");
                    return Ok(rep);
                }
                return Err(Failure::new(
                    format!("{name}|success-mistaken-for-error|{cls}"),
                    format!("{name}: kernel result {effective} ({}) is not in [-4095,-1] but was decoded as {} [rusl/src/{file}]", vclass(effective), show(&driven)),
                ));
            }
            Ok(got) => {
                if let Some(exp) = expected_scalar(w.conv, effective) {
                    if *got != Some(exp) {
                        return Err(Failure::new(
                            format!("{name}|wrong-value|{cls}"),
                            format!("{name}: kernel result {effective} decoded as {}, expected Ok({exp}) [rusl/src/{file}]", show(&driven)),
                        ));
                    }
                    rep.class("value-compared");
                } else {
                    rep.class("direction-only");
                }
            }
        }
    }

    // ---- bookkeeping
    rep.nontrivial_if(is_err || (0..=4095).contains(&value));
    rep.class(match cls {
        "errno" => "errno",
        "zero" => "success-zero",
        "confusable success" => "success-confusable",
        "boundary -4096" => "boundary-4096",
        "large success" => "success-large",
        _ => "success-high-unsigned",
    });
    rep.class_if(is_err && -value > 133, "errno-unassigned");
    rep.class_if(!is_err && w.exec_on_success, "kernel-side-effect-executed");
    rep.class_if(value == EBUSY, "success-equals-EBUSY");
    Ok(rep)
}

// ------------------------------------------------------------------------------------------
// self-check of the table against the sources (Appendix A)
// ------------------------------------------------------------------------------------------

fn self_check(ctx: &Ctx) {
    let excluded: Vec<_> = EXCLUDED.iter().map(|(n, why)| json!({"fn": n, "why": why})).collect();
    let table_src: BTreeSet<&str> = TABLE.iter().map(|w| w.src).collect();
    let mut summary = json!({
        "drivers": TABLE.len(),
        "distinct_source_functions": table_src.len(),
        "excluded": excluded,
    });
    match scan::rusl_src_dir() {
        None => {
            summary["scan"] = json!("rusl sources not found (VERIF_REPO_DIR, manifest path, /repo): table coverage not verified");
            ctx.extra("uncovered_wrappers", json!(["<scan impossible: sources not found>"]));
            ctx.inconclusive();
        }
        Some(dir) => {
            let found = scan::scan(&dir);
            let excl: BTreeSet<&str> = EXCLUDED.iter().map(|(n, _)| *n).collect();
            let uncovered: Vec<&String> = found.keys().filter(|k| !table_src.contains(k.as_str()) && !excl.contains(k.as_str())).collect();
            let stale: Vec<&&str> = table_src.iter().filter(|s| !found.contains_key(**s)).collect();
            summary["scan"] = json!({
                "dir": dir.display().to_string(),
                "public_fns_issuing_syscalls": found.len(),
                "of_which_direct": found.values().filter(|d| **d).count(),
                "table_entries_not_found_in_sources": stale,
            });
            ctx.extra("uncovered_wrappers", json!(uncovered));
            if !uncovered.is_empty() {
                eprintln!("[C09] wrappers missing from the driver table: {uncovered:?}");
                ctx.inconclusive();
            }
        }
    }
    ctx.extra("table_summary", summary);
}

// ------------------------------------------------------------------------------------------
// entry
// ------------------------------------------------------------------------------------------

fn lookup(name: &str) -> Option<&'static Wrapper> {
    TABLE.iter().find(|w| w.name == name)
}

/// Journal the case before executing it (a crash of the worker still leaves its input).
fn journal(ctx: &Ctx, case: &Case) {
    let j = json!({"property": ctx.prop, "check": SUB, "case": case});
    vh::runner::journal_set(j.to_string().as_bytes());
}

/// `check_case`, with a panic of the harness itself turned into a failure of its own kind.
fn guarded(w: &Wrapper, value: i64) -> CaseResult {
    match vh::runner::catch(|| check_case(w, value)) {
        Ok(r) => r,
        Err((loc, msg)) => {
            sc::verif::clear_plan();
            Err(Failure::new(format!("{}|harness-panic|{loc}", w.name), format!("the harness panicked at {loc}: {msg}")))
        }
    }
}

fn is_known(ctx: &Ctx, sig: &str) -> bool {
    ctx.known.iter().any(|k| sig == k.signature || (k.signature.ends_with('*') && sig.starts_with(&k.signature[..k.signature.len() - 1])))
}

pub fn run(ctx: &Ctx) {
    sc::verif::install();
    init_fixtures();

    if ctx.is_replay() {
        if ctx.replay_case::<classify::Window>("classify").is_some() || ctx.replay_case::<classify::Window>("classify-rand").is_some() {
            classify::run(ctx);
            return;
        }
        if ctx.replay_case::<infallible::InfCase>("infallible").is_some() {
            infallible::run(ctx);
            return;
        }
        if ctx.replay_case::<outparams::OutCase>("out-params").is_some() {
            outparams::run(ctx);
            return;
        }
        if let Some(case) = ctx.replay_case::<Case>(SUB) {
            ctx.run_one(SUB, &case, || match lookup(&case.wrapper) {
                Some(w) => check_case(w, case.value),
                None => Err(Failure::new("table|unknown-wrapper", format!("no driver named {:?} in the table", case.wrapper))),
            });
        }
        return;
    }

    if ctx.worker == 0 {
        self_check(ctx);
    }

    let thorough = ctx.thorough();
    let nworkers = ctx.nworkers.max(1) as u64;
    let mut idx: u64 = 0;
    let mut mine: u64 = 0;
    for w in TABLE {
        // Signatures already reported for this wrapper. One failing wrapper must not hide the
        // others, and one root cause must not hide a second one in the same wrapper: after a
        // failure the enumeration goes on, skipping only cases that fail with a signature that
        // has been reported already.
        let mut reported: BTreeSet<String> = BTreeSet::new();
        let vals = values(w, thorough);
        for (pos, &value) in vals.iter().enumerate() {
            let take = idx % nworkers == ctx.worker as u64;
            idx += 1;
            if !take {
                continue;
            }
            mine += 1;
            let case = Case { wrapper: w.name.to_string(), value };
            journal(ctx, &case);
            let res = guarded(w, value);
            match res {
                Ok(_) => {
                    ctx.run_one(SUB, &case, move || res);
                }
                Err(f) if reported.contains(&f.sig) => {}
                Err(f) if is_known(ctx, &f.sig) => {
                    // recorded as a known-finding hit; the enumeration continues behind it
                    ctx.run_one(SUB, &case, move || Err(f));
                }
                Err(f) => {
                    // Shrink: the first value in the wrapper's order (errno ascending, then
                    // successes ascending) that fails with the same signature - whichever
                    // worker owns it - so every worker reports the same minimal replay.
                    let mut min = value;
                    for &m in &vals[..pos] {
                        journal(ctx, &Case { wrapper: w.name.to_string(), value: m });
                        if let Err(g) = guarded(w, m) {
                            if g.sig == f.sig {
                                min = m;
                                break;
                            }
                        }
                    }
                    let mcase = Case { wrapper: w.name.to_string(), value: min };
                    ctx.run_one(SUB, &mcase, || guarded(w, min));
                    reported.insert(f.sig);
                }
            }
        }
    }
    ctx.extra("pairs_enumerated", json!(mine));
    ctx.note_exhaustive(format!(
        "every (wrapper, forced value) pair of the {} table: {} drivers x (errno 1..=4095 + the success classes of the wrapper's result kind)",
        if thorough { "thorough" } else { "quick" },
        TABLE.len()
    ));
    outparams::run(ctx);
    classify::run(ctx);
    infallible::run(ctx);
}
