//! `vh` — in-process verification harness. `vh <PROPERTY> [--seed N --worker I --nworkers N
//! --tier quick|thorough --out FILE --replay FILE]`.
use vh::runner;

use vh::{c10, c11, c17};

fn main() {
    let args: Vec<String> = std::env::args().skip(1).collect();
    let ctx = runner::Ctx::from_args(&args);
    runner::install_panic_hook();
    let journal = ctx.replay_dir.join(format!("current-{}-{}.json", ctx.profile, ctx.worker));
    if !ctx.is_replay() {
        runner::install_crash_handler(&journal);
    }
    match ctx.prop.as_str() {
        "C10" => c10::run(&ctx),
        "C11" => c11::run(&ctx),
        "C17" => c17::run(&ctx),
        p => {
            eprintln!("unknown property {p}");
            std::process::exit(2);
        }
    }
    let code = ctx.finish();
    std::process::exit(code);
}
