//! C10 — every UnixStr/UnixString produced by safe code is NUL-terminated exactly once.
//!
//! Oracle looks only at raw bytes (`as_slice`, `len`, `as_ptr`), never `as_str()`.
use std::str::FromStr;

use proptest::prelude::*;
use rusl::string::unix_str::{UnixStr, UnixString};
use serde::{Deserialize, Serialize};

use crate::ensure;
use crate::runner::{no_panic, CaseReport, CaseResult, Ctx, Failure};
use crate::util::{all_strings, escape, with_nul, BStr};

pub const ALPHA: [u8; 7] = [0x00, b'/', b'a', b'b', b'.', 0x80, 0xff];
pub const ALPHA_NONUL: [u8; 6] = [b'/', b'a', b'b', b'.', 0x80, 0xff];

#[derive(Debug, Clone, Serialize, Deserialize)]
pub struct One {
    pub s: BStr,
}

#[derive(Debug, Clone, Serialize, Deserialize)]
pub struct Two {
    pub a: BStr,
    pub b: BStr,
}

#[derive(Debug, Clone, Serialize, Deserialize)]
pub struct DirCase {
    /// names to create in a fresh directory (NUL-free, no '/', 1..=255 bytes, not "." / "..")
    pub names: Vec<BStr>,
}

/// The termination predicate. `strict_interior`: operands were NUL-free, so no other NUL may
/// appear.
fn terminated(op: &str, input: &str, bytes: &[u8], ptr: *const u8, len: usize, strict_interior: bool) -> Result<(), Failure> {
    ensure!(len == bytes.len(), format!("{op}|len-mismatch"), "{op}({input}): len()={} but slice has {} bytes", len, bytes.len());
    ensure!(!bytes.is_empty(), format!("{op}|unterminated|empty buffer"), "{op}({input}) produced an empty buffer (no terminator)");
    ensure!(*bytes.last().unwrap() == 0, format!("{op}|unterminated|last byte not NUL"), "{op}({input}) produced bytes {:?}: last byte is not NUL", escape(bytes));
    ensure!(ptr == bytes.as_ptr(), format!("{op}|ptr-mismatch"), "{op}({input}): as_ptr differs from slice pointer");
    if strict_interior {
        let first = bytes.iter().position(|&c| c == 0).unwrap();
        ensure!(first == bytes.len() - 1, format!("{op}|interior-nul"), "{op}({input}) produced bytes {:?}: NUL at {} before the terminator (len {})", escape(bytes), first, bytes.len());
        // len == strlen(ptr) + 1 by construction of `first`
    }
    Ok(())
}

fn term_string(op: &str, input: &str, s: &UnixString, strict: bool) -> Result<(), Failure> {
    terminated(op, input, s.as_slice(), s.as_ptr(), s.len(), strict)?;
    // through Deref / AsRef as well
    let d: &UnixStr = s;
    terminated(&format!("{op}+Deref"), input, d.as_slice(), d.as_ptr(), d.len(), strict)?;
    let r: &UnixStr = s.as_ref();
    terminated(&format!("{op}+AsRef"), input, r.as_slice(), r.as_ptr(), r.len(), strict)?;
    let back = UnixString::from(d);
    terminated(&format!("{op}+From<&UnixStr>"), input, back.as_slice(), back.as_ptr(), back.len(), strict)
}

fn nul_pos_ok(s: &[u8]) -> bool {
    // representable as owned string: no NUL, or exactly one NUL which is the last byte
    match s.iter().position(|&c| c == 0) {
        None => true,
        Some(i) => i == s.len() - 1,
    }
}

pub fn check_one(s: &[u8]) -> CaseResult {
    let mut rep = CaseReport::new();
    let inp = format!("{:?}", escape(s));
    let representable = nul_pos_ok(s);
    let contents: Vec<u8> = if s.last() == Some(&0) { s[..s.len() - 1].to_vec() } else { s.to_vec() };

    // ---- the length scan behind directory-entry names and utsname fields: index of the first NUL, or an error
    let r = no_panic("buf_strlen", || rusl::string::strlen::buf_strlen(s).ok())?;
    let want = s.iter().position(|&c| c == 0);
    ensure!(r == want, "buf_strlen|wrong-length", "buf_strlen({inp}) = {r:?}, the first NUL is at {want:?}");

    // ---- owned constructors
    let r = no_panic("UnixString::try_from_bytes", || UnixString::try_from_bytes(s))?;
    match (&r, representable) {
        (Ok(u), true) => {
            term_string("UnixString::try_from_bytes", &inp, u, true)?;
            ensure!(u.as_slice()[..u.len() - 1] == contents[..], "UnixString::try_from_bytes|wrong-contents", "try_from_bytes({inp}) contents {:?}", escape(u.as_slice()));
        }
        (Err(_), false) => rep.class("interior-nul-rejected"),
        (Ok(u), false) => return Err(Failure::new("UnixString::try_from_bytes|accepted-interior-nul", format!("try_from_bytes({inp}) accepted: {:?}", escape(u.as_slice())))),
        (Err(e), true) => return Err(Failure::new("UnixString::try_from_bytes|rejected-valid", format!("try_from_bytes({inp}) rejected: {e}"))),
    }
    // the owning constructors take the buffer as it is: exact capacity (what `to_vec` gives) and spare
    // capacity (what `format!`, `push_str`, a reused buffer give; the spare bytes hold 0xAA, not zeroes)
    let with_spare = |extra: usize| -> Vec<u8> {
        let mut v: Vec<u8> = Vec::with_capacity(s.len() + extra);
        for b in v.spare_capacity_mut() {
            b.write(0xAA);
        }
        v.extend_from_slice(s);
        v
    };
    for extra in [0usize, 1, 2, 9] {
        let op = if extra == 0 { "UnixString::try_from_vec" } else { "UnixString::try_from_vec(spare capacity)" };
        let r = no_panic(op, || UnixString::try_from_vec(with_spare(extra)))?;
        match (&r, representable) {
            (Ok(u), true) => {
                term_string(op, &inp, u, true)?;
                ensure!(u.as_slice()[..u.len() - 1] == contents[..], format!("{op}|wrong-contents"), "try_from_vec({inp}, capacity len+{extra}) contents {:?}", escape(u.as_slice()));
            }
            (Err(_), false) => {}
            (Ok(u), false) => return Err(Failure::new(format!("{op}|accepted-interior-nul"), format!("try_from_vec({inp}, capacity len+{extra}) accepted: {:?}", escape(u.as_slice())))),
            (Err(e), true) => return Err(Failure::new(format!("{op}|rejected-valid"), format!("try_from_vec({inp}, capacity len+{extra}) rejected: {e}"))),
        }
    }
    rep.class("owned-buffer-with-spare-capacity");
    if let Ok(st) = core::str::from_utf8(s) {
        rep.class("utf8");
        for (op, r) in [
            ("UnixString::try_from_str", no_panic("UnixString::try_from_str", || UnixString::try_from_str(st))?),
            ("UnixString::try_from_string", no_panic("UnixString::try_from_string", || UnixString::try_from_string(st.to_string()))?),
            ("UnixString::try_from_string(spare capacity)", no_panic("UnixString::try_from_string", || UnixString::try_from_string(String::from_utf8(with_spare(3)).unwrap()))?),
            ("UnixString::from_str", no_panic("UnixString::from_str", || UnixString::from_str(st))?),
        ] {
            match (&r, representable) {
                (Ok(u), true) => {
                    term_string(op, &inp, u, true)?;
                    ensure!(u.as_slice()[..u.len() - 1] == contents[..], format!("{op}|wrong-contents"), "{op}({inp}) contents {:?}", escape(u.as_slice()));
                }
                (Err(_), false) => {}
                (Ok(u), false) => return Err(Failure::new(format!("{op}|accepted-interior-nul"), format!("{op}({inp}) accepted: {:?}", escape(u.as_slice())))),
                (Err(e), true) => return Err(Failure::new(format!("{op}|rejected-valid"), format!("{op}({inp}) rejected: {e}"))),
            }
        }
        // from_format: infallible; must always end in NUL, and exactly once for NUL-free text
        let u = no_panic("UnixString::from_format", || UnixString::from_format(format_args!("{st}")))?;
        term_string("UnixString::from_format", &inp, &u, representable)?;
        if representable {
            ensure!(u.as_slice()[..u.len() - 1] == contents[..], "UnixString::from_format|wrong-contents", "from_format({inp}) contents {:?}", escape(u.as_slice()));
        }
        if !s.contains(&0) {
            let u = no_panic("UnixString::from_format", || UnixString::from_format(format_args!("{st}\0")))?;
            term_string("UnixString::from_format(+NUL)", &inp, &u, true)?;
            ensure!(u.as_slice()[..u.len() - 1] == contents[..], "UnixString::from_format(+NUL)|wrong-contents", "from_format({inp}+NUL) contents {:?}", escape(u.as_slice()));
            let u = no_panic("UnixString::from_format", || UnixString::from_format(format_args!("x{}y{st}", 12)))?;
            term_string("UnixString::from_format(mixed)", &inp, &u, true)?;
        }
    }

    // ---- borrowed constructors: accept exactly "one NUL, at the end"
    let borrow_ok = s.iter().position(|&c| c == 0) == Some(s.len().wrapping_sub(1)) && !s.is_empty();
    let r = no_panic("UnixStr::try_from_bytes", || UnixStr::try_from_bytes(s).map(|u| (u.as_slice().to_vec(), u.as_ptr(), u.len())))?;
    match (&r, borrow_ok) {
        (Ok((b, p, l)), true) => {
            terminated("UnixStr::try_from_bytes", &inp, b, b.as_ptr(), *l, true)?;
            ensure!(*p == s.as_ptr() && b[..] == s[..], "UnixStr::try_from_bytes|not-same-bytes", "try_from_bytes({inp}) does not designate the input");
        }
        (Err(_), false) => rep.class("borrowed-rejected"),
        (Ok((b, _, _)), false) => return Err(Failure::new("UnixStr::try_from_bytes|accepted-invalid", format!("UnixStr::try_from_bytes({inp}) accepted: {:?}", escape(b)))),
        (Err(e), true) => return Err(Failure::new("UnixStr::try_from_bytes|rejected-valid", format!("UnixStr::try_from_bytes({inp}) rejected: {e}"))),
    }
    if let Ok(st) = core::str::from_utf8(s) {
        let r = no_panic("UnixStr::try_from_str", || UnixStr::try_from_str(st).map(|u| (u.as_slice().to_vec(), u.len())))?;
        match (&r, borrow_ok) {
            (Ok((b, l)), true) => terminated("UnixStr::try_from_str", &inp, b, b.as_ptr(), *l, true)?,
            (Err(_), false) => {}
            (Ok((b, _)), false) => return Err(Failure::new("UnixStr::try_from_str|accepted-invalid", format!("UnixStr::try_from_str({inp}) accepted: {:?}", escape(b)))),
            (Err(e), true) => return Err(Failure::new("UnixStr::try_from_str|rejected-valid", format!("UnixStr::try_from_str({inp}) rejected: {e}"))),
        }
        if borrow_ok {
            let u = no_panic("UnixStr::from_str_checked", || UnixStr::from_str_checked(st))?;
            terminated("UnixStr::from_str_checked", &inp, u.as_slice(), u.as_ptr(), u.len(), true)?;
        } else {
            // the validator behind unix_lit!: documented to panic (a compile-time error in const
            // context) on anything else - the panic IS its rejection; what it must never do is hand
            // out a value for such input
            if let Ok(b) = crate::runner::catch(|| UnixStr::from_str_checked(st).as_slice().to_vec()) {
                return Err(Failure::new("UnixStr::from_str_checked|accepted-invalid", format!("UnixStr::from_str_checked({inp}) returned a value: {:?}", escape(&b))));
            }
            rep.class("const-validator-rejected");
            rep.class_if(s.first() == Some(&0), "const-validator-rejected-leading-nul");
        }
    }

    // ---- single-operand path operations on the NUL-free contents
    if !contents.contains(&0) {
        let t = with_nul(&contents);
        let us = unsafe { UnixStr::from_bytes_unchecked(&t) };
        let inp_c = format!("{:?}", escape(&contents));
        if let Some(p) = no_panic("UnixStr::parent_path", || us.parent_path())? {
            rep.class("parent-some");
            rep.class_if(p.len() <= 2, "parent-root");
            term_string("UnixStr::parent_path", &inp_c, &p, true)?;
        }
        if let Some(f) = no_panic("UnixStr::path_file_name", || us.path_file_name())? {
            rep.class("file-name-some");
            terminated("UnixStr::path_file_name", &inp_c, f.as_slice(), f.as_ptr(), f.len(), true)?;
        }
    }

    rep.nontrivial_if(!contents.is_empty() && representable);
    rep.class_if(s.is_empty(), "empty-operand");
    rep.class_if(s == b"/" || s == b"/\0", "lone-separator");
    rep.class_if(contents.last() == Some(&b'/') && contents.len() > 1, "trailing-separator");
    rep.class_if(s.last() == Some(&0), "already-terminated");
    Ok(rep)
}

pub fn check_two(a: &[u8], b: &[u8]) -> CaseResult {
    let mut rep = CaseReport::new();
    let ta = with_nul(a);
    let tb = with_nul(b);
    let ua = unsafe { UnixStr::from_bytes_unchecked(&ta) };
    let ub = unsafe { UnixStr::from_bytes_unchecked(&tb) };
    let inp = format!("{:?},{:?}", escape(a), escape(b));
    let j = no_panic("UnixStr::path_join", || ua.path_join(ub))?;
    term_string("UnixStr::path_join", &inp, &j, true)?;
    if let Ok(sb) = core::str::from_utf8(b) {
        let j = no_panic("UnixStr::path_join_fmt", || ua.path_join_fmt(format_args!("{sb}")))?;
        term_string("UnixStr::path_join_fmt", &inp, &j, true)?;
        let j = no_panic("UnixStr::path_join_fmt", || ua.path_join_fmt(format_args!("{sb}\0")))?;
        term_string("UnixStr::path_join_fmt(+NUL)", &inp, &j, true)?;
        rep.class("fmt");
    }
    // chains: results are operands again
    if let Some(p) = no_panic("UnixStr::parent_path", || j.parent_path())? {
        term_string("path_join.parent_path", &inp, &p, true)?;
        let j2 = no_panic("UnixStr::path_join", || p.path_join(ub))?;
        term_string("parent_path.path_join", &inp, &j2, true)?;
        rep.class("chain-parent-join");
    }
    if let Some(f) = no_panic("UnixStr::path_file_name", || j.path_file_name())? {
        terminated("path_join.path_file_name", &inp, f.as_slice(), f.as_ptr(), f.len(), true)?;
    }
    // an owned string obtained from another one through Clone (clone, and clone_from into a string that
    // already holds something else, longer or shorter), then used as an operand
    let (oa, ob) = (UnixString::from(ua), UnixString::from(ub));
    for (from, into, what) in [(&oa, &ob, "b.clone_from(a)"), (&ob, &oa, "a.clone_from(b)")] {
        let c = no_panic("UnixString::clone", || from.clone())?;
        term_string("UnixString::clone", &inp, &c, true)?;
        let mut t = into.clone();
        no_panic("UnixString::clone_from", || t.clone_from(from))?;
        term_string(&format!("UnixString::clone_from [{what}]"), &inp, &t, true)?;
        ensure!(t.as_slice() == from.as_slice(), "UnixString::clone_from|not-equal-to-source".to_string(), "{what} with a, b = {inp}: the target holds {:?}, the source {:?}", escape(t.as_slice()), escape(from.as_slice()));
        let j = no_panic("UnixStr::path_join", || t.path_join(ub))?;
        term_string("clone_from.path_join", &inp, &j, true)?;
        rep.class_if(into.len() > from.len(), "clone_from-into-a-longer-string");
        rep.class_if(into.len() < from.len(), "clone_from-into-a-shorter-string");
    }
    rep.nontrivial_if(!a.is_empty() && !b.is_empty());
    rep.class_if(a.is_empty() || b.is_empty(), "empty-operand");
    rep.class_if(a.last() == Some(&b'/') && b.first() == Some(&b'/'), "two-separators");
    Ok(rep)
}

fn valid_name(n: &[u8]) -> bool {
    !n.is_empty() && n.len() <= 255 && !n.contains(&0) && !n.contains(&b'/') && n != b"." && n != b".."
}

pub fn check_dir(ctx: &Ctx, names: &[BStr]) -> CaseResult {
    use std::os::unix::ffi::OsStrExt;
    let mut rep = CaseReport::new();
    let root = std::path::PathBuf::from(format!("/tmp/verif-c10-{}-{}", std::process::id(), ctx.worker));
    let _ = std::fs::remove_dir_all(&root);
    std::fs::create_dir_all(&root).unwrap();
    let mut expect: std::collections::BTreeSet<Vec<u8>> = std::collections::BTreeSet::new();
    for n in names {
        if !valid_name(&n.0) {
            continue;
        }
        let p = root.join(std::ffi::OsStr::from_bytes(&n.0));
        if std::fs::write(&p, b"x").is_ok() {
            expect.insert(n.0.clone());
        }
    }
    let rootu = UnixString::try_from_bytes(root.as_os_str().as_bytes()).unwrap();
    let res = (|| -> CaseResult {
        let dir = tiny_std::fs::Directory::open(&rootu).map_err(|e| Failure::new("Directory::open|error", format!("{e:?}")))?;
        let mut seen: std::collections::BTreeSet<Vec<u8>> = std::collections::BTreeSet::new();
        let it = no_panic("Directory::read", || dir.read())?;
        let mut it = it;
        loop {
            let nx = no_panic("ReadDir::next", || it.next())?;
            let Some(ent) = nx else { break };
            let ent = ent.map_err(|e| Failure::new("ReadDir::next|error", format!("{e:?}")))?;
            let name = no_panic("DirEntry::file_unix_name", || ent.file_unix_name().map(|u| (u.as_slice().to_vec(), u.as_ptr() as usize, u.len())))?;
            let (b, _p, l) = name.map_err(|e| Failure::new("DirEntry::file_unix_name|error", format!("{e:?}")))?;
            terminated("DirEntry::file_unix_name", "<dir entry>", &b, b.as_ptr(), l, true)?;
            seen.insert(b[..b.len() - 1].to_vec());
        }
        seen.remove(&b"."[..]);
        seen.remove(&b".."[..]);
        ensure!(seen == expect, "DirEntry::file_unix_name|wrong-name-set", "names seen {:?} expected {:?}", seen.iter().map(|x| escape(x)).collect::<Vec<_>>(), expect.iter().map(|x| escape(x)).collect::<Vec<_>>());
        Ok(CaseReport::new())
    })();
    let _ = std::fs::remove_dir_all(&root);
    res?;
    rep.nontrivial_if(!expect.is_empty());
    rep.class_if(expect.iter().any(|n| n.len() == 255), "name-255");
    rep.class_if(expect.iter().any(|n| n.len() >= 200), "name-long");
    rep.class_if(expect.iter().any(|n| core::str::from_utf8(n).is_err()), "name-non-utf8");
    rep.class_if(expect.len() >= 20, "many-entries");
    Ok(rep)
}

fn name_strategy() -> impl Strategy<Value = BStr> {
    let byte = prop_oneof![6 => prop::sample::select(vec![b'a', b'b', b'.', b'-', b' ']), 1 => prop::sample::select(vec![0x80u8, 0xff, 0xc3, 0x01]), 1 => 1u8..=255u8];
    let len = prop_oneof![4 => 1usize..12, 2 => 200usize..=255, 1 => Just(255usize), 1 => Just(254usize), 1 => 12usize..200];
    len.prop_flat_map(move |l| prop::collection::vec(byte.clone(), l)).prop_map(|mut v| {
        for c in v.iter_mut() {
            if *c == b'/' || *c == 0 {
                *c = b'_';
            }
        }
        BStr(v)
    })
}

/// `unix_lit!` is evaluated at compile time: a fixed set of literals (not generated).
fn check_literals() -> CaseResult {
    use rusl::unix_lit;
    let lits: [(&str, &UnixStr); 7] = [
        ("", unix_lit!("")),
        ("/", unix_lit!("/")),
        ("a", unix_lit!("a")),
        ("/etc/passwd", unix_lit!("/etc/passwd")),
        ("dir/", unix_lit!("dir/")),
        ("h\u{e9}llo \u{20ac}", unix_lit!("h\u{e9}llo \u{20ac}")),
        ("with space and = and -", unix_lit!("with space and = and -")),
    ];
    for (src, u) in lits {
        terminated("unix_lit!", src, u.as_slice(), u.as_ptr(), u.len(), true)?;
        ensure!(&u.as_slice()[..u.len() - 1] == src.as_bytes(), "unix_lit!|wrong-contents", "unix_lit!({src:?}) = {:?}", escape(u.as_slice()));
        ensure!(core::ptr::eq(UnixStr::EMPTY.as_slice().last().unwrap(), UnixStr::EMPTY.as_slice().first().unwrap()) && UnixStr::EMPTY.len() == 1, "UnixStr::EMPTY|not a lone terminator", "EMPTY = {:?}", escape(UnixStr::EMPTY.as_slice()));
    }
    let mut rep = CaseReport::new();
    rep.class("literals");
    Ok(rep)
}

// ---------------------------------------------------------------------------------------------
// "placed": the same constructors on slices that do not start at a word boundary (a value cut out of a read
// buffer, a directory-entry name, a stack array): what is accepted and what is rejected must not depend on where
// the bytes lie.
// ---------------------------------------------------------------------------------------------

#[derive(Debug, Clone, Serialize, Deserialize)]
pub struct Placed {
    pub s: BStr,
    /// offset of the slice's first byte from a 64-byte boundary
    pub off: u8,
}

pub fn check_placed(c: &Placed) -> CaseResult {
    let mut rep = CaseReport::new();
    let s = &c.s.0;
    let off = (c.off % 64) as usize;
    let mut store = vec![0xAAu8; s.len() + 192];
    let base = (64 - store.as_ptr() as usize % 64) % 64;
    store[base + off..base + off + s.len()].copy_from_slice(s);
    let sl: &[u8] = &store[base + off..base + off + s.len()];
    let inp = format!("{:?} at word offset {}", escape(s), (sl.as_ptr() as usize) % 8);
    let representable = nul_pos_ok(s);
    let borrow_ok = s.iter().position(|&c| c == 0) == Some(s.len().wrapping_sub(1)) && !s.is_empty();
    match (no_panic("UnixString::try_from_bytes", || UnixString::try_from_bytes(sl))?, representable) {
        (Ok(u), true) => term_string("UnixString::try_from_bytes", &inp, &u, true)?,
        (Err(_), false) => rep.class("interior-nul-rejected"),
        (Ok(u), false) => return Err(Failure::new("UnixString::try_from_bytes|accepted-interior-nul|slice not word-aligned", format!("try_from_bytes({inp}) accepted: {:?}", escape(u.as_slice())))),
        (Err(e), true) => return Err(Failure::new("UnixString::try_from_bytes|rejected-valid|slice not word-aligned", format!("try_from_bytes({inp}) rejected: {e}"))),
    }
    match (no_panic("UnixStr::try_from_bytes", || UnixStr::try_from_bytes(sl).map(|u| u.as_slice().to_vec()))?, borrow_ok) {
        (Ok(b), true) => ensure!(b[..] == s[..], "UnixStr::try_from_bytes|not-same-bytes", "try_from_bytes({inp}) does not designate the input"),
        (Err(_), false) => rep.class("borrowed-rejected"),
        (Ok(b), false) => return Err(Failure::new("UnixStr::try_from_bytes|accepted-invalid|slice not word-aligned", format!("UnixStr::try_from_bytes({inp}) accepted: {:?}", escape(&b)))),
        (Err(e), true) => return Err(Failure::new("UnixStr::try_from_bytes|rejected-valid|slice not word-aligned", format!("UnixStr::try_from_bytes({inp}) rejected: {e}"))),
    }
    rep.nontrivial = s.contains(&0);
    rep.class_if((sl.as_ptr() as usize) % 8 != 0, "slice-starts-inside-a-word");
    rep.class_if(s.len() >= 16 && s[..8.min(s.len())].contains(&0), "nul-within-the-first-word-of-a-long-input");
    Ok(rep)
}

fn placed_strategy() -> impl Strategy<Value = Placed> {
    // text of 0..48 bytes; a NUL planted at a generated position (often near the front), often one at the end as well
    (prop::collection::vec(prop_oneof![8 => prop::sample::select(ALPHA.to_vec()), 1 => 1u8..=255u8], 0..48), prop_oneof![2 => Just(None), 3 => (0usize..10).prop_map(Some), 2 => (0usize..48).prop_map(Some)], any::<bool>(), 0u8..64).prop_map(|(mut s, nul_at, term, off)| {
        if let Some(k) = nul_at {
            if k < s.len() {
                s[k] = 0;
            }
        }
        if term {
            s.push(0);
        }
        Placed { s: BStr(s), off }
    })
}

// ---------------------------------------------------------------------------------------------
// "census": the safe constructors the types offer through the standard conversion traits. The set is found at
// compile time (an inherent method that exists only when the trait bound holds shadows a trait method that says
// "not offered"), so a constructor that is added later is met here without the harness naming it.
// ---------------------------------------------------------------------------------------------

struct Offers<T>(core::marker::PhantomData<T>);
trait NotOffered {
    fn via_default(&self) -> Option<Vec<u8>> {
        None
    }
    fn via_from_vec(&self, _v: Vec<u8>) -> Option<Vec<u8>> {
        None
    }
    fn via_from_string(&self, _v: String) -> Option<Vec<u8>> {
        None
    }
    fn via_from_str_ref(&self, _v: &str) -> Option<Vec<u8>> {
        None
    }
    fn via_from_bytes_ref(&self, _v: &[u8]) -> Option<Vec<u8>> {
        None
    }
    fn via_from_iter(&self, _v: &[u8]) -> Option<Vec<u8>> {
        None
    }
}
impl<T> NotOffered for Offers<T> {}
impl<T: Default + AsRef<UnixStr>> Offers<T> {
    fn via_default(&self) -> Option<Vec<u8>> {
        Some(raw_of(T::default().as_ref()))
    }
}
impl<T: From<Vec<u8>> + AsRef<UnixStr>> Offers<T> {
    fn via_from_vec(&self, v: Vec<u8>) -> Option<Vec<u8>> {
        Some(raw_of(T::from(v).as_ref()))
    }
}
impl<T: From<String> + AsRef<UnixStr>> Offers<T> {
    fn via_from_string(&self, v: String) -> Option<Vec<u8>> {
        Some(raw_of(T::from(v).as_ref()))
    }
}
impl<T: for<'a> From<&'a str> + AsRef<UnixStr>> Offers<T> {
    fn via_from_str_ref(&self, v: &str) -> Option<Vec<u8>> {
        Some(raw_of(T::from(v).as_ref()))
    }
}
impl<T: for<'a> From<&'a [u8]> + AsRef<UnixStr>> Offers<T> {
    fn via_from_bytes_ref(&self, v: &[u8]) -> Option<Vec<u8>> {
        Some(raw_of(T::from(v).as_ref()))
    }
}
impl<T: FromIterator<u8> + AsRef<UnixStr>> Offers<T> {
    fn via_from_iter(&self, v: &[u8]) -> Option<Vec<u8>> {
        Some(raw_of(v.iter().copied().collect::<T>().as_ref()))
    }
}

/// the bytes a UnixStr claims to consist of (pointer and length as the value reports them)
fn raw_of(u: &UnixStr) -> Vec<u8> {
    let n = u.len();
    if n == 0 {
        return Vec::new();
    }
    unsafe { core::slice::from_raw_parts(u.as_ptr(), n).to_vec() }
}

fn census_one(how: &str, input: &[u8], raw: Option<Vec<u8>>, rep: &mut CaseReport) -> Result<(), Failure> {
    let Some(raw) = raw else { return Ok(()) };
    rep.class(Box::leak(format!("offered:{how}").into_boxed_str()));
    let ok = raw.last() == Some(&0) && !raw[..raw.len() - 1].contains(&0);
    ensure!(ok, format!("{how}|unterminated-or-interior-nul|infallible constructor"), "{how} (an infallible, safe constructor) given {:?} produced raw bytes {:?}: not exactly one NUL, at the end", escape(input), escape(&raw));
    Ok(())
}

fn check_census() -> CaseResult {
    let mut rep = CaseReport::new();
    let o = Offers::<UnixString>(core::marker::PhantomData);
    let r = no_panic("UnixString::default", || o.via_default())?;
    census_one("UnixString::default()", b"", r, &mut rep)?;
    for input in [&b""[..], b"a", b"a/b", b"a\0b", b"\0", b"ab\0"] {
        let r = no_panic("UnixString::from(Vec<u8>)", || o.via_from_vec(input.to_vec()))?;
        census_one("UnixString::from(Vec<u8>)", input, r, &mut rep)?;
        let r = no_panic("UnixString::from(&[u8])", || o.via_from_bytes_ref(input))?;
        census_one("UnixString::from(&[u8])", input, r, &mut rep)?;
        let r = no_panic("UnixString::from_iter(u8..)", || o.via_from_iter(input))?;
        census_one("UnixString::from_iter(bytes)", input, r, &mut rep)?;
        let st = String::from_utf8(input.to_vec()).unwrap();
        let r = no_panic("UnixString::from(String)", || o.via_from_string(st.clone()))?;
        census_one("UnixString::from(String)", input, r, &mut rep)?;
        let r = no_panic("UnixString::from(&str)", || o.via_from_str_ref(&st))?;
        census_one("UnixString::from(&str)", input, r, &mut rep)?;
    }
    rep.class("census");
    Ok(rep)
}

pub fn run(ctx: &Ctx) {
    if ctx.worker == 0 && !ctx.is_replay() {
        ctx.run_one("literals", &"unix_lit! fixed set", check_literals);
        ctx.run_one("census", &"safe constructors offered through Default / From / FromIterator", check_census);
    }
    if !ctx.is_replay() {
        let strings = all_strings(&ALPHA, 5);
        let mut ok = true;
        for (i, s) in strings.iter().enumerate() {
            if i % ctx.nworkers as usize != ctx.worker as usize {
                continue;
            }
            ok = ctx.run_one("one-exh", &One { s: BStr(s.clone()) }, || check_one(s));
            if !ok {
                break;
            }
        }
        if ok {
            ctx.note_exhaustive(format!("one-exh: all {} byte strings of length 0..=5 over {{NUL,/,a,b,.,0x80,0xff}}", strings.len()));
        }
        let s3 = all_strings(&ALPHA_NONUL, 3);
        let mut idx = 0usize;
        let mut ok2 = true;
        'o: for a in &s3 {
            for b in &s3 {
                let mine = idx % ctx.nworkers as usize == ctx.worker as usize;
                idx += 1;
                if !mine {
                    continue;
                }
                ok2 = ctx.run_one("two-exh", &Two { a: BStr(a.clone()), b: BStr(b.clone()) }, || check_two(a, b));
                if !ok2 {
                    break 'o;
                }
            }
        }
        if ok2 {
            ctx.note_exhaustive(format!("two-exh: all {} ordered pairs of NUL-free strings of length 0..=3", s3.len() * s3.len()));
        }
    } else {
        if let Some(c) = ctx.replay_case::<One>("one-exh") {
            ctx.run_one("one-exh", &c, || check_one(&c.s.0));
        }
        if let Some(c) = ctx.replay_case::<Two>("two-exh") {
            ctx.run_one("two-exh", &c, || check_two(&c.a.0, &c.b.0));
        }
    }
    let any_bytes = prop::collection::vec(prop_oneof![1 => Just(0u8), 3 => Just(b'/'), 8 => prop::sample::select(vec![b'a', b'b', b'.']), 2 => any::<u8>()], 0..4096);
    ctx.run_prop("one-rand", ctx.cases(1500, 50_000), any_bytes.prop_map(|s| One { s: BStr(s) }), |c: &One| check_one(&c.s.0));
    let nonul = || prop::collection::vec(prop_oneof![3 => Just(b'/'), 8 => prop::sample::select(vec![b'a', b'b', b'.']), 2 => 1u8..=255u8], 0..600);
    ctx.run_prop("two-rand", ctx.cases(1500, 50_000), (nonul(), nonul()).prop_map(|(a, b)| Two { a: BStr(a), b: BStr(b) }), |c: &Two| check_two(&c.a.0, &c.b.0));
    ctx.run_prop("placed", ctx.cases(3000, 100_000), placed_strategy(), check_placed);
    ctx.run_prop("dir", ctx.cases(40, 1500), prop::collection::vec(name_strategy(), 0..40).prop_map(|names| DirCase { names }), |c: &DirCase| check_dir(ctx, &c.names));
}
